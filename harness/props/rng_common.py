"""Helpers shared by the C05 / C07 checks: generator construction, a recording RandomState, snapshots of
the global random streams, and a worker subprocess with a watchdog (every real generator call runs in a
worker; a call that does not come back within the budget is reported with its arguments).

Run as `python rng_common.py --worker`: reads one JSON job per line on stdin
(`{"mod": "props.c05", "fn": "job_history", "args": {...}}`), answers one JSON line on fd 3-like channel
(stdout; everything else the libraries print goes to stderr).
"""
from __future__ import annotations

import hashlib
import json
import os
import pathlib
import select
import subprocess
import sys
import time

HERE = pathlib.Path(__file__).resolve().parent
HARNESS = HERE.parent

GENERATORS = ["FastMRIRandom", "FastMRIEquispaced", "FastMRIMagic", "CartesianRandom", "CartesianEquispaced",
              "CartesianMagic", "Gaussian1D", "Gaussian2D", "Radial", "Spiral", "VariableDensityPoisson",
              "KtRadial", "KtUniform", "KtGaussian1D"]
KT = {"KtRadial", "KtUniform", "KtGaussian1D"}
TWO_D = {"Gaussian2D", "Radial", "Spiral", "VariableDensityPoisson", "KtRadial"}
MODES = ["static", "dynamic", "multislice"]


def sha(*parts) -> str:
    h = hashlib.sha1()
    for p in parts:
        if isinstance(p, (bytes, bytearray, memoryview)):
            h.update(bytes(p))
        else:
            h.update(repr(p).encode())
        h.update(b"|")
    return h.hexdigest()[:20]


# =================================================================================================
# code that runs inside the worker (imports the real implementation)
def build(conf: dict):
    """conf = {gen, accelerations, center_fractions, mode, kwargs}"""
    import boot  # noqa: F401
    from direct.common.subsample import MaskFuncMode, build_masking_function

    mode = {"static": MaskFuncMode.STATIC, "dynamic": MaskFuncMode.DYNAMIC, "multislice": MaskFuncMode.MULTISLICE}[
        conf.get("mode", "static")]
    return build_masking_function(conf["gen"], accelerations=list(conf["accelerations"]),
                                  center_fractions=list(conf["center_fractions"]), mode=mode, **conf.get("kwargs", {}))


def rng_state_hash(rng) -> str:
    st = rng.get_state()
    return sha(st[0], st[1].tobytes(), st[2], st[3], st[4])


def global_snapshot() -> dict:
    import random

    import numpy as np
    import torch

    st = np.random.get_state()
    return {"np": sha(st[0], st[1].tobytes(), st[2], st[3], st[4]),
            "torch": sha(torch.get_rng_state().numpy().tobytes()),
            "py": sha(random.getstate())}


def make_recorder():
    """A RandomState subclass recording every draw/seed request with its caller's (function, line)."""
    import numpy as np

    class Recorder(np.random.RandomState):
        def __init__(self, *a, **k):
            super().__init__(*a, **k)
            self.log = []
            self.depth = 0          # inside how many temp_seed scopes
            self.keep_values = False
            self.forced = None      # optional {(method): callable(args, kwargs, default) -> value}
            self.busy = False       # inside a recorded draw (numpy's own nested calls are not statements of the code)
            self.fault_at = None    # fault injection: the k-th draw statement raises (an exception inside the seeded scope)
            self.ndraws = 0

        def _frame(self):
            f = sys._getframe(2)
            return f.f_code.co_name, f.f_lineno, os.path.basename(f.f_code.co_filename)

        def _rec(self, method, a, k, pre, info, value=None):
            fn, ln, fl = info
            e = {"kind": "draw", "method": method, "req": method + repr(a) + repr(sorted(k.items())), "func": fn,
                 "lineno": ln, "file": fl, "in_scope": self.depth > 0, "pre": pre}
            if self.keep_values and value is not None:
                e["value"] = value
            self.log.append(e)

        def _draw(self, method, a, k, info):
            if self.busy:
                return getattr(np.random.RandomState, method)(self, *a, **k)
            self._maybe_fault()
            pre = rng_state_hash(self)
            self.busy = True
            try:
                v = getattr(np.random.RandomState, method)(self, *a, **k)
            finally:
                self.busy = False
            if self.forced and method in self.forced:
                v = self.forced[method](a, k, v)
            val = None
            if self.keep_values:
                arr = np.asarray(v)
                if arr.dtype.kind == "f":
                    val = [int(x) for x in np.round(arr.reshape(-1) * (1 << 53)).astype(np.int64).tolist()]
                else:
                    val = [int(x) for x in arr.reshape(-1).tolist()]
            self._rec(method, a, k, pre, info, val)
            return v

        def _maybe_fault(self):
            self.ndraws += 1
            if self.fault_at is not None and self.ndraws == self.fault_at:
                raise RuntimeError("injected fault inside the seeded scope")

        def randint(self, *a, **k):
            return self._draw("randint", a, k, self._frame())

        def uniform(self, *a, **k):
            return self._draw("uniform", a, k, self._frame())

        def random_sample(self, *a, **k):
            return self._draw("random_sample", a, k, self._frame())

        def rand(self, *a, **k):
            return self._draw("rand", a, k, self._frame())

        def randn(self, *a, **k):
            return self._draw("randn", a, k, self._frame())

        def normal(self, *a, **k):
            return self._draw("normal", a, k, self._frame())

        def permutation(self, *a, **k):
            return self._draw("permutation", a, k, self._frame())

        def choice(self, a0, *a, **k):
            if self.busy:
                return np.random.RandomState.choice(self, a0, *a, **k)
            self._maybe_fault()
            info = self._frame()
            pre = rng_state_hash(self)
            self.busy = True
            try:
                v = np.random.RandomState.choice(self, a0, *a, **k)
            finally:
                self.busy = False
            kk = {x: (len(y) if hasattr(y, "__len__") else y) for x, y in k.items()}
            self._rec("choice", (len(a0),) + tuple(a), kk, pre, info,
                      [int(x) for x in np.asarray(v).reshape(-1).tolist()] if self.keep_values else None)
            return v

        # A temp_seed scope is recognised by what happens, not by a name: some function saves this stream's state
        # (`get_state`) and then seeds it -> the scope is entered; the saved state object is put back (`set_state`) -> it is
        # left.  That covers the generator form of `temp_seed`, a class with __enter__/__exit__, and any context manager
        # delegating to either.  (A function literally called `temp_seed` counts as before.)
        def get_state(self, *a, **k):
            st = np.random.RandomState.get_state(self, *a, **k)
            f = sys._getframe(1)
            if os.path.basename(f.f_code.co_filename) != "rng_common.py":
                self._saved_by = (f.f_code, st)
            return st

        def seed(self, *a, **k):
            fn, ln, fl = self._frame()
            code = sys._getframe(1).f_code
            saved = getattr(self, "_saved_by", None)
            r = super().seed(*a, **k)
            if fn == "temp_seed" or (saved is not None and saved[0] is code):
                self.depth += 1
                if not hasattr(self, "_scopes"):
                    self._scopes = []
                self._scopes.append(saved[1] if saved is not None and saved[0] is code else None)
                self._saved_by = None
                self.log.append({"kind": "scope_seed", "post": rng_state_hash(self), "func": fn, "lineno": ln})
            elif fn != "__init__":
                self.log.append({"kind": "seed", "method": "seed", "req": "seed", "func": fn, "lineno": ln, "file": fl,
                                 "in_scope": self.depth > 0, "post": rng_state_hash(self)})
            return r

        def set_state(self, *a, **k):
            fn, ln, _ = self._frame()
            scopes = getattr(self, "_scopes", [])
            restoring = bool(scopes) and scopes[-1] is not None and bool(a) and a[0] is scopes[-1]
            if fn == "temp_seed" or restoring:
                self.depth = max(0, self.depth - 1)
                if scopes:
                    scopes.pop()
            else:
                self.log.append({"kind": "set_state", "func": fn, "lineno": ln, "in_scope": self.depth > 0})
            return super().set_state(*a, **k)

    return Recorder


_KERNEL_LOG = None


def instrument_kernels():
    """Wrap the Cython kernels as seen from `direct.common.subsample` so every run is logged
    (kernel name, integer arguments, seed) into the current call's log.  Harness-side only."""
    import boot  # noqa: F401
    import direct.common.subsample as S

    if getattr(S, "_verif_instrumented", False):
        return
    S._verif_instrumented = True

    def wrap(name):
        orig = getattr(S, name)

        def run(*a, **k):
            if _KERNEL_LOG is not None:
                seed = k.get("seed", a[-1] if a else None)
                ints = [int(x) for x in a if isinstance(x, (int,)) or type(x).__name__ in ("int64", "int32")]
                # "args": digest of everything but the seed, taken before the run (the kernels write into `mask`)
                rest = list(a[:-1]) if "seed" not in k and a else list(a)
                # (numpy scalars as Python numbers: `shape` may come in as an ndarray, e.g. from `apply_mask`)
                canon = lambda x: (x.item() if getattr(x, "ndim", 1) == 0 and hasattr(x, "item") else  # noqa: E731
                                   (x.shape, str(x.dtype), x.tobytes()) if hasattr(x, "tobytes") else x)
                digest = sha(*[canon(x) for x in rest],
                             *[(kk, canon(vv)) for kk, vv in sorted(k.items()) if kk != "seed"])
                _KERNEL_LOG.append({"kind": "kernel", "name": name, "seed": int(seed), "ints": ints, "args": digest})
            r = orig(*a, **k)
            hook = _KERNEL_HOOKS.get(name)
            if hook is not None:
                hook(a, k)
            return r

        setattr(S, name, run)

    for n in ("gaussian_mask_1d", "gaussian_mask_2d", "_poisson"):
        wrap(n)


_KERNEL_HOOKS: dict = {}


def peek_rng(mf):
    """the generator object's private RandomState *without* running any code of the object (a lazily created stream
    that does not exist yet is `None`): instance attributes only"""
    import numpy as np

    d = getattr(mf, "__dict__", {})
    if isinstance(d.get("rng"), np.random.RandomState):
        return d["rng"]
    for v in d.values():
        if isinstance(v, np.random.RandomState):
            return v
    return None


def set_rng(mf, rec):
    """install `rec` as the object's private stream: plain attribute, or — when `rng` is a read-only property over
    a backing attribute — the instance attribute that holds the current stream"""
    try:
        mf.rng = rec
        return
    except AttributeError:
        pass
    cur = mf.rng
    for k, v in list(mf.__dict__.items()):
        if v is cur:
            mf.__dict__[k] = rec
            return
    raise AttributeError("cannot install a recording stream on " + type(mf).__name__)


def run_call(mf, shape, acs, seed, keep_values=False, forced=None, fault=None, thunk=None):
    """One real generator call with a recording private stream.  Returns a JSON-able record.
    `fault=k`: the k-th draw statement raises (exception inside the seeded scope).
    `thunk(mf)`: run this instead of `mf(shape, return_acs, seed)` (e.g. a transform that calls the generator);
    it returns a tensor or a list of tensors."""
    global _KERNEL_LOG
    import numpy as np

    Recorder = make_recorder()
    if not isinstance(mf.rng, np.random.RandomState) or type(mf.rng).__name__ != "Recorder":
        rec = Recorder()
        rec.set_state(mf.rng.get_state())   # same stream, now recording (caller is not temp_seed -> logged, cleared below)
        set_rng(mf, rec)
    rec = mf.rng
    rec.log = []
    rec.depth = 0
    rec._scopes = []
    rec._saved_by = None
    rec.keep_values = keep_values
    rec.forced = forced
    rec.fault_at = fault
    rec.ndraws = 0
    _KERNEL_LOG = rec.log
    pre_priv = rng_state_hash(rec)
    pre_glob = global_snapshot()
    if isinstance(seed, list):
        seed = tuple(seed)
    out = {"err": None}
    t0 = time.time()
    try:
        if thunk is not None:
            ms = thunk(mf)
            ms = ms if isinstance(ms, (list, tuple)) else [ms]
            out["masks"] = [sha(m.numpy().shape, str(m.numpy().dtype), m.numpy().tobytes()) for m in ms]
            out["mask"] = out["masks"][0]
            out["sum"] = int(ms[0].sum())
        else:
            m = mf(tuple(shape), return_acs=bool(acs), seed=seed)
            arr = m.numpy()
            out.update(mask=sha(arr.shape, str(arr.dtype), arr.tobytes()), shape=list(arr.shape), dtype=str(arr.dtype),
                       sum=int(arr.sum()))
            out["_array"] = arr
    except Exception as e:  # noqa: BLE001 - canonicalised
        out["err"] = type(e).__name__
        out["errmsg"] = str(e)[:200]
    finally:
        _KERNEL_LOG = None
        rec.fault_at = None
    out.update(log=rec.log, pre_priv=pre_priv, post_priv=rng_state_hash(rec), pre_glob=pre_glob,
               post_glob=global_snapshot(), secs=round(time.time() - t0, 4))
    rec.log = []
    return out


# =================================================================================================
def _worker_main():
    sys.path.insert(0, str(HARNESS))
    out = os.fdopen(os.dup(1), "w")
    os.dup2(2, 1)             # whatever the libraries print goes to stderr
    import importlib

    import boot  # noqa: F401
    from props import rng_common as _rc   # the module object the job handlers use (this file runs as __main__)

    _rc.instrument_kernels()
    out.write(json.dumps({"ready": True}) + "\n")
    out.flush()
    for line in sys.stdin:
        line = line.strip()
        if not line:
            continue
        job = json.loads(line)
        try:
            mod = importlib.import_module(job["mod"])
            res = getattr(mod, job["fn"])(job["args"])
            out.write(json.dumps({"ok": res}, default=str) + "\n")
        except Exception as e:  # noqa: BLE001
            import traceback

            out.write(json.dumps({"fail": f"{type(e).__name__}: {e}", "tb": traceback.format_exc()[-1500:]}) + "\n")
        out.flush()


class Hang(Exception):
    def __init__(self, job, budget):
        super().__init__(f"no answer within {budget}s")
        self.job = job
        self.budget = budget


class WorkerFailure(Exception):
    pass


class Worker:
    """A subprocess running the real code; `call` enforces a wall-clock budget per job."""

    def __init__(self, extra_env: dict | None = None):
        self.p = None
        self.extra_env = extra_env or {}

    def start(self):
        env = dict(os.environ)
        env.update(self.extra_env)
        env["PYTHONPATH"] = str(HARNESS) + os.pathsep + env.get("PYTHONPATH", "")
        env.setdefault("PYTHONWARNINGS", "ignore")
        self.p = subprocess.Popen([sys.executable, str(pathlib.Path(__file__).resolve()), "--worker"],
                                  stdin=subprocess.PIPE, stdout=subprocess.PIPE, stderr=subprocess.DEVNULL,
                                  env=env, text=True, bufsize=1)
        self._read(120, {"start": True})

    def _read(self, budget, job):
        t_end = time.time() + budget
        while True:
            left = t_end - time.time()
            if left <= 0:
                self.kill()
                raise Hang(job, budget)
            r, _, _ = select.select([self.p.stdout], [], [], min(left, 1.0))
            if r:
                line = self.p.stdout.readline()
                if not line:
                    self.kill()
                    raise WorkerFailure("worker died")
                return json.loads(line)
            if self.p.poll() is not None:
                rc = self.p.returncode
                self.kill()
                raise WorkerFailure(f"worker exited with {rc}")

    def call(self, mod: str, fn: str, args: dict, budget: float = 30.0):
        if self.p is None or self.p.poll() is not None:
            self.start()
        job = {"mod": mod, "fn": fn, "args": args}
        self.p.stdin.write(json.dumps(job) + "\n")
        self.p.stdin.flush()
        res = self._read(budget, job)
        if "fail" in res:
            raise WorkerFailure(res["fail"] + "\n" + res.get("tb", ""))
        return res["ok"]

    def kill(self):
        if self.p is not None:
            try:
                self.p.kill()
                self.p.wait(5)
            except Exception:  # noqa: BLE001
                pass
            self.p = None

    close = kill


if __name__ == "__main__" and "--worker" in sys.argv:
    _worker_main()
