"""C09 — estimated and refined sensitivity maps are normalised and finite."""
from __future__ import annotations

import math
from fractions import Fraction

import boot  # noqa: F401
import numpy as np
import torch

from core import Ctx, Violation, err_name, ints

PROP = "C09"
MANIFEST = {
    "text": "Lean 4 theorems over the reals (Real.sqrt, field division), for any number of coils (0, 1, many), any number of "
            "pixels (2-D/3-D flattened), any input: after the renormalisation step coded in EstimateSensitivityMapModule.forward and "
            "MRIModelEngine.compute_sensitivity_map the sum over coils of |S|^2 is exactly 1 at every pixel where some coil is "
            "non-zero and every coil is exactly 0 elsewhere (iff the input vanishes there); renormalisation is idempotent; the RSS "
            "estimate (safe_divide -> norm -> safe_divide) equals one renormalisation; single coil, all-zero ACS image, unit map and "
            "arbitrary refinement-network output are covered; finiteness is the theorem that no result depends on the value of a "
            "division by zero (division is a parameter of the model) plus closure of an abstract 'finite' predicate. Phase 3: the "
            "whole module is modelled — ACS k-space = apply_mask(k-space, acs_mask) = where(mask == 0, 0, k) (maskPixels: exact "
            "zeros off the mask whatever the data, the data itself on it, finite whatever the mask values) x Gaussian window with "
            "the linspace(-1,1,W) coordinates "
            "(W = 1 gives [-1], no division), guard for sigma None/0, arbitrary backward operator; all three map types (UNIT, "
            "RSS_ESTIMATE, ESPIRIT with an arbitrary calibrator) flow into the one guarded division (forward_normalised, "
            "forward_finite, forward_indep_div_zero); per-pixel positive weights and global scale cancel exactly "
            "(renorm_weight_invariant, estimate_gauss_eq_plain); the window never divides by zero and finite weights keep maps "
            "finite (acsKspace_indep_div_zero, gaussWeight_finite, estimate_gauss_finite; witness arange_window_violates for the "
            "seeded variant); ESPIRiT's last step keeps the power method's normalisation (sumSqAt_espiritTail) but is unguarded "
            "(espirit_phase_unguarded); the engine's choice of refinement model and its channel-first permutations are translated "
            "definitions; magnitudes: for <= 64 coils with entries in [2^-60, 2^60] every intermediate (squares, sum, norm, "
            "quotient) stays inside the float32 normal range (sumsq_in_normal_range, norm_in_normal_range, "
            "quotient_in_normal_range; bound attained; end-of-range witnesses at 2^64 / 2^-75). Tied to the code by translating "
            "safe_divide's guard/branches, the reduction and unsqueeze axes, sqrt/exponent, statement order, window (linspace end "
            "points, divisor, guard clauses, axis), the branch table of forward, an effects table (no state write / in-place op / "
            "early return), option forwarding of both constructor sites and build_mri_transforms, the single definition of "
            "compute_sensitivity_map, the model-choice branch structure and permutations into Lean (bridge lemmas) and by an exact "
            "rational differential correspondence (ops estimate, estgauss, window, forward, engine, choice, unit, safediv).",
    "note": "Trusted: Lean kernel (+propext, Classical.choice, Quot.sound), Mathlib's Real.sqrt / Real.exp, the AST recipes of "
            "harness/translate/recipes/c09.py and c09_tables.py, the reshape (batch, coil, *spatial, 2) -> [coil][pixel] in "
            "Driver/C09.lean (validated by correspondence), the rational surrogate 1/(1+x) for exp(-x) in the driver (justified by "
            "renorm_weight_invariant: with a pixel-wise backward operator the result does not depend on which positive weights are "
            "used). Partial: float32 rounding (oracle tolerance 1e-5); the range theorems are over the reals (sizes of exact "
            "intermediates), the step to IEEE rounding is the standard model, not proved; outside 2^-60..2^60 (per pixel: largest "
            "magnitude over coils) the judgement is finite and bounded (sum |S|^2 <= 4) over the whole float32 exponent range "
            "2^-149..2^127 incl. mixed magnitudes — observed on the implementation (notes in the evidence): with 1 coil the "
            "maps stay unit from 2^-74 up to 2^63, become 0 at 2^64 (norm Inf, x/Inf = 0) and from 2^-75 down (squares underflow to "
            "0); with 64 coils they are 0 already at 2^61 (the sum of 128 squares overflows), exactly where range_bound_attained "
            "puts the limit. ESPIRiT's "
            "calibration (SVD, power method) is not modelled: the calibrator is an arbitrary function in the theorems; the real "
            "path runs in the oracle at tiny sizes over its option grid (kernel size, threshold, crop, iterations, padded coils) "
            "wherever the calibration matrix has at least as many rows as columns (otherwise the implementation raises "
            "IndexError: domain of ESPIRiT, outside the statement); its unguarded x*conj(x)/|x| is a model-level witness only "
            "(SVD round-off keeps real inputs away from exact zeros).",
    "technique": "Lean 4 proof over ℝ (Mathlib Real.sqrt, Real.exp) + AST translation bridge (safe_divide, axes, order, window, "
                 "branch/effects/forwarding tables, model choice) + exact-rational differential correspondence (perfect-square coil "
                 "vectors, recovered window exponents) + unit-or-zero / finiteness / history / aliasing oracle on the real code over "
                 "the full option x size-class matrix, every engine class and the range boundary",
}
TRUSTED = [
    "Lean 4.33 kernel; axioms ⊆ {propext, Classical.choice, Quot.sound}; Mathlib.Analysis.Real.Sqrt, Mathlib.Analysis.Complex.Exponential",
    "harness/translate/recipes/c09.py + c09_tables.py + c09_inline.py (private helpers of the same class/module are inlined, local names "
    "are resolved by flow-aware substitution, guards are evaluated on probe values, effects are judged by taint of the target — so "
    "helper extraction, hoisted locals, if/elif flattening and renamed locals do not change the tables) (safe_divide guard/branches, sum/unsqueeze axes, sqrt, exponent, statement order, "
    "window, forward branch table, effects, option forwarding, definitions of compute_sensitivity_map, model choice, permutations)",
    "Driver/C09.lean reshape of (batch, coil, *spatial, complex=2) into [coil][pixel] — validated by correspondence",
    "recovery of exact rationals from float32 outputs by Fraction.limit_denominator(1024) within 2e-6 (maps) / 4e-6 (window exponents -ln w)",
    "the driver's positive rational surrogate for exp(-x) (the compared quantity is independent of it by renorm_weight_invariant)",
    "the backward Fourier operator, the ESPIRiT calibrator and the refinement network are arbitrary (parameters / planted outputs)",
]
ASSUMPTIONS = [
    "correspondence inputs are integer-valued with a perfect-square squared sum over coils at every pixel (sqrt exact); 0/1 ACS masks; "
    "sigma in {None, 0, 1/2, 1, 2, -1/2}; widths 1..10 for the window coordinates; mask values 0/1 and 0/2/3 (where, not product)",
    "oracle: unit-or-zero within 1e-5, finiteness, for float32 magnitudes 2^-60 <= |x| <= 2^60 per pixel (largest magnitude over coils; "
    "boundary included, up to 64 coils); outside that range — the whole exponent ladder 2^-149 (smallest denormal) … 2^127, uniform, "
    "exact powers of two, a block of pixels, mixed across coils, mixed across pixels — the judgement is: finite, and sum over coils of "
    "|S|^2 <= 4 (a pixel whose squares under/overflow may lose its normalisation but no entry may blow up), on the transform (identity "
    "and real inverse FFT, with and without Gaussian, planted ESPIRiT calibrator), the engine (plain, refined, 3-D per slice), every "
    "engine class and JointICNet's own normalisation",
    "the real ESPIRiT path is exercised only where it is defined: 2-D, calibration matrix with rows >= columns, at least one non-zero coil",
    "simulate_sensitivity_maps is checked in complex128 within 1e-9",
]
RULE = ("coil images (batch, coil, [slice], h, w, 2) whose per-pixel coil vectors are integer tuples with perfect-square squared sum "
        "(dyadic: 4^k, exact in float32; pythagorean: any), with planted zero pixels, zero coils, zero borders, one coil, empty ACS "
        "masks, 3-D data; engine path with a marker network returning planted integer tensors; phase 3: a fixed matrix of size "
        "classes (1 along each spatial axis, odd, even, non-square, 2-D and 3-D) x sigma forms x map types x ACS kinds in both the "
        "correspondence and the oracle, window coordinates for every width 1..10, all 16 model-choice combinations, histories on one "
        "instance (different shapes, same shapes with new data, first sample again), every engine class, ESPIRiT option grid, "
        "boundary magnitudes 2^±59, 2^±60 with 1..64 coils. non-trivial = at least two coils or a mix of zero and non-zero pixels "
        "(window: W >= 2 with an active sigma); distinct = distinct protocol line / oracle case key")
PENDING_FINDINGS: list[str] = []
EXTRA_LEAN_MODULES = ["DirectVerif.Lemmas.C09"]   # helper lemmas: hygiene-checked and axiom-audited too


# --------------------------------------------------------------------------------------------------
# perfect-square coil vectors
_LIB: dict = {}


def _library(n: int):
    """integer vectors of length n with perfect-square squared sum: (dyadic list, general list)"""
    if n not in _LIB:
        import random
        r = random.Random(1000 + n)
        dy, ge = [], []
        if n == 2:
            for a in range(-12, 13):
                for b in range(-12, 13):
                    s = a * a + b * b
                    if s and math.isqrt(s) ** 2 == s:
                        (dy if s in (1, 4, 16, 64) else ge).append((a, b))
        else:
            tries = 0
            while (len(dy) < 60 or len(ge) < 120) and tries < 400000:
                tries += 1
                v = tuple(r.choice([0, 0, 1, -1, 2, -2, 3, -3, 4, -4, 5, -5]) for _ in range(n))
                s = sum(x * x for x in v)
                if s and math.isqrt(s) ** 2 == s:
                    if s in (1, 4, 16, 64):
                        if len(dy) < 60:
                            dy.append(v)
                    elif len(ge) < 120:
                        ge.append(v)
        _LIB[n] = (dy, ge)
    return _LIB[n]


def gen_coil_image(rng, b, c, spatial, kind):
    """(b, c, *spatial, 2) integer-valued float32 with perfect-square per-pixel squared sums"""
    px = int(np.prod(spatial))
    dy, ge = _library(2 * c)
    out = torch.zeros(b, c, px, 2)
    zero_coil = rng.randrange(c) if (c > 1 and rng.random() < 0.25) else None
    pz = rng.choice([0.0, 0.15, 0.4])
    for bi in range(b):
        for p in range(px):
            if rng.random() < pz:
                continue
            lib = dy if kind == "dyadic" else (ge if rng.random() < 0.8 else dy)
            v = rng.choice(lib)
            if zero_coil is not None:
                # re-draw from the (c-1)-coil library and insert a zero coil
                d2, g2 = _library(2 * (c - 1))
                w = rng.choice(d2 if kind == "dyadic" else g2)
                v = list(w[:2 * zero_coil]) + [0, 0] + list(w[2 * zero_coil:])
            out[bi, :, p, :] = torch.tensor(v, dtype=torch.float32).reshape(c, 2)
    out = out.reshape([b, c] + list(spatial) + [2])
    if rng.random() < 0.3 and len(spatial) >= 2 and spatial[-1] > 2 and spatial[-2] > 2:   # zero border
        out[..., 0, :, :] = 0
        out[..., -1, :, :] = 0
        out[..., :, 0, :] = 0
        out[..., :, -1, :] = 0
    return out, (zero_coil is not None)


# --------------------------------------------------------------------------------------------------
_FR: dict = {}


def rat_pairs(t: torch.Tensor, tol=2e-6, maxden=1024):
    """exact rationals behind float32 values: [num, den, …]; raises on non-finite / not close"""
    out = []
    for x in t.detach().reshape(-1).tolist():
        if x != x or x in (float("inf"), float("-inf")):
            raise ArithmeticError("NonFinite")
        f = _FR.get(x)
        if f is None:
            f = Fraction(x).limit_denominator(maxden)
            if abs(float(f) - x) > tol:
                raise ArithmeticError("Inexact")
            if len(_FR) < 200000:
                _FR[x] = f
        out += [f.numerator, f.denominator]
    return out


def ok_rats(shape, t):
    try:
        return "ok " + ints(shape) + " | " + ints(rat_pairs(t))
    except ArithmeticError as e:
        return "err " + str(e)


def pline(op, *groups):
    return op + " " + " | ".join(ints(g) for g in groups)


def int_data(t):
    return [int(v) for v in t.reshape(-1).tolist()]


def _impl(fn):
    def run():
        try:
            return fn()
        except (ValueError, TypeError, IndexError, RuntimeError, AssertionError, NotImplementedError) as e:
            return "err " + err_name(e)
    return run


class Identity:
    """recording backward operator returning its input (so that the ACS image is the planted tensor)"""

    def __init__(self):
        self.seen = []

    def __call__(self, data, dim=None, **kw):
        self.seen.append((data.clone(), dim))
        return data


class PlantedNet(torch.nn.Module):
    """a 'sensitivity network' that ignores its input and returns the planted tensor, coil by coil"""

    def __init__(self, planted, mode):
        super().__init__()
        self.planted, self.mode, self.n = planted, mode, 0

    def forward(self, x):
        r = self.planted
        c = r.shape[1]
        if self.mode == "2d":
            out = r[:, self.n % c].permute(0, 3, 1, 2)
        elif self.mode == "3d":
            out = r[:, self.n % c].permute(0, 4, 1, 2, 3)
        else:   # 2-D model applied slice by slice to 3-D data
            out = r[:, self.n % c, self.n // c].permute(0, 3, 1, 2)
        self.n += 1
        if tuple(out.shape) != tuple(x.shape):
            raise RuntimeError(f"network called with shape {tuple(x.shape)}, planted {tuple(out.shape)}")
        return out.clone()


_ENGINE = {}


def toy_engine():
    if "eng" not in _ENGINE:
        from omegaconf import OmegaConf
        from direct.config.defaults import DefaultConfig
        from direct.nn.mri_models import MRIModelEngine
        import direct.data.transforms as T

        class Toy(MRIModelEngine):
            def forward_function(self, data):
                return None, None

        cfg = OmegaConf.structured(DefaultConfig)
        _ENGINE["eng"] = Toy(cfg, torch.nn.Linear(1, 1), "cpu", forward_operator=T.fft2, backward_operator=T.ifft2)
    return _ENGINE["eng"]


def gen_dims(rng, three_d=None):
    b, c = rng.choice([1, 1, 2]), rng.choice([1, 2, 2, 3, 4])
    three_d = (rng.random() < 0.3) if three_d is None else three_d
    spatial = [rng.choice([1, 2]), rng.choice([1, 2, 3]), rng.choice([2, 3, 4])] if three_d else \
        [rng.choice([1, 2, 3, 4]), rng.choice([1, 2, 3, 4, 5])]
    return b, c, spatial, three_d


def correspondence(ctx: Ctx):
    import direct.data.transforms as T
    from direct.data.mri_transforms import EstimateSensitivityMapModule, SensitivityMapType

    rng = ctx.rng
    eng = toy_engine()
    # ---- the data pipeline: EstimateSensitivityMapModule (RSS estimate), ACS image planted through an identity operator
    for i in range(ctx.budget(150, 2500)):
        b, c, spatial, three_d = gen_dims(rng)
        kind = rng.choice(["dyadic", "pythagorean", "pythagorean"])
        k, zc = gen_coil_image(rng, b, c, spatial, kind)
        mshape = [b, 1] + ([1] if three_d else []) + spatial[-2:] + [1]
        r = rng.random()
        acs_kind = "empty" if r < 0.12 else "full" if r < 0.45 else "partial"
        acs = torch.zeros(mshape) if acs_kind == "empty" else torch.ones(mshape) if acs_kind == "full" else \
            torch.tensor([rng.choice([0, 1, 1]) for _ in range(int(np.prod(mshape)))], dtype=torch.float32).reshape(mshape)
        if rng.random() < 0.5:
            acs = acs.bool()
        acs_image = k * acs
        shape = list(k.shape)

        def run(k=k, acs=acs, acs_image=acs_image, shape=shape):
            op = Identity()
            mod = EstimateSensitivityMapModule(backward_operator=op, type_of_map=SensitivityMapType.RSS_ESTIMATE)
            out = mod({"kspace": k.clone(), "acs_mask": acs})["sensitivity_map"]
            if len(op.seen) != 1 or not torch.equal(op.seen[0][0], acs_image + 0.0) or list(out.shape) != shape:
                return "err AcsImage"
            return ok_rats(shape, out)
        has_zero_px = bool(((acs_image ** 2).sum(-1).sum(1) == 0).any())
        yield {"line": pline("estimate", shape, int_data(acs_image)), "impl": _impl(run),
               "nontrivial": c >= 2 or has_zero_px,
               "bucket": f"estimate/{kind}/{'3d' if three_d else '2d'}/c={c}/acs={acs_kind}" + ("/zero-coil" if zc else "")}
    # ---- the engine: renormalisation alone (no model / single coil) and refinement with a planted network
    for i in range(ctx.budget(150, 2500)):
        three_d = rng.random() < 0.35
        b, c, spatial, three_d = gen_dims(rng, three_d)
        kind = rng.choice(["dyadic", "pythagorean", "pythagorean"])
        S, zc = gen_coil_image(rng, b, c, spatial, kind)
        R, zc2 = gen_coil_image(rng, b, c, spatial, kind)
        mode = rng.choice(["none", "2d"]) if not three_d else rng.choice(["none", "3d", "slice"])
        shape = list(S.shape)

        def run(S=S, R=R, mode=mode, three_d=three_d, shape=shape, c=c):
            eng.ndim = 3 if three_d else 2
            net = PlantedNet(R, mode)
            eng.models = {} if mode == "none" else {"sensitivity_model_3d" if mode == "3d" else "sensitivity_model": net}
            out = eng.compute_sensitivity_map(S.clone())
            expected_calls = 0 if (mode == "none" or c == 1) else (c * (shape[2] if mode == "slice" else 1))
            if net.n != expected_calls or list(out.shape) != shape:
                return "err NetworkCalls"
            return ok_rats(shape, out)
        refined = mode != "none" and c > 1
        yield {"line": pline("engine", shape, [0 if mode == "none" else 1], int_data(S), int_data(R)), "impl": _impl(run),
               "nontrivial": c >= 2, "bucket": f"engine/{kind}/{mode}/c={c}" + ("/refined" if refined else "")}
    # ---- unit maps (coil counts with rational 1/sqrt(c))
    for c in [1, 4, 9] + ([16] if ctx.thorough else []):
        for spatial in ([2, 3], [1, 2, 2]):
            for b in (1, 2):
                shape = [b, c] + spatial + [2]

                def run(shape=shape):
                    mod = EstimateSensitivityMapModule(type_of_map=SensitivityMapType.UNIT)
                    out = mod({"kspace": torch.zeros(shape)})["sensitivity_map"]
                    return ok_rats(shape, out) if list(out.shape) == shape else "err Shape"
                yield {"line": pline("unit", shape), "impl": _impl(run), "nontrivial": c >= 2, "bucket": f"unit/c={c}"}
    # ---- safe_divide itself; the first cases are fixed: NON-zero numerators over zero divisors (result must be 0, not the numerator)
    fixed = [([1, -2, 5, 7], [0, 0, 0, 0]), ([3, 0, -4, 9, 1], [0, 2, 0, -3, 0]), ([1], [0])]
    for i in range(ctx.budget(40, 400)):
        n = rng.randint(1, 12)
        a = [rng.choice([-9, -3, -1, 1, 2, 5, 9, rng.randint(-9, 9)]) for _ in range(n)]
        d = [rng.choice([0, 0, 1, -1, 2, 3, -4, 5, 8, -16]) for _ in range(n)]
        if i < len(fixed):
            a, d = fixed[i]

        def run(a=a, d=d):
            out = T.safe_divide(torch.tensor(a, dtype=torch.float32), torch.tensor(d, dtype=torch.float32))
            return "ok " + ints(rat_pairs(out))
        nz_over_zero = any(x != 0 and y == 0 for x, y in zip(a, d))
        yield {"line": pline("safediv", a, d), "impl": _impl(run), "nontrivial": 0 in d,
               "bucket": "safe_divide/" + ("nonzero-numerator-over-zero" if nz_over_zero else "zero-divisor" if 0 in d else "nonzero")}
    # ---- phase 3: Gaussian window, mask + window inside the model, the three map types, the engine's model choice
    from props import c09_ext
    yield from c09_ext.correspondence_ext(ctx)


# --------------------------------------------------------------------------------------------------
# oracle
def _rep(t: torch.Tensor) -> dict:
    t = t.detach().contiguous()
    if t.dtype == torch.float32:
        return {"shape": list(t.shape), "dtype": "float32", "bits": t.view(torch.int32).reshape(-1).tolist()}
    return {"shape": list(t.shape), "dtype": str(t.dtype).replace("torch.", ""), "values": [int(v) for v in t.reshape(-1).tolist()]}


def _unrep(r: dict) -> torch.Tensor:
    if r["dtype"] == "float32":
        return torch.tensor(r["bits"], dtype=torch.int32).view(torch.float32).reshape(r["shape"])
    return torch.tensor(r["values"], dtype=torch.int64).reshape(r["shape"]).to(getattr(torch, r["dtype"]))


TOL = 1e-5


def check_map(S: torch.Tensor, source: torch.Tensor | None, what: str):
    """unit-or-zero at every pixel + finiteness.  `source`: the tensor that was normalised (same layout) when known —
    then the zero case must be exactly the pixels where the source vanishes in all coils.  -> (key, text) or None"""
    if not torch.isfinite(S).all():
        return f"{what}-nonfinite", "the sensitivity map contains NaN or Inf"
    s = (S.double() ** 2).sum(-1).sum(1)          # (batch, *spatial)
    allzero = (S == 0).all(-1).all(1)
    unit = (s - 1).abs() <= TOL
    if not (unit | allzero).all():
        return f"{what}-not-unit-or-zero", "some pixel has sum over coils of |S|^2 neither 1 (±1e-5) nor all coils exactly 0"
    if source is not None:
        src_zero = (source == 0).all(-1).all(1)
        if not (src_zero == allzero).all():
            kind = "zero-despite-signal" if (allzero & ~src_zero).any() else "nonzero-without-signal"
            return f"{what}-{kind}", "the map is exactly zero at a pixel with signal, or non-zero at a pixel without"
    return None


def _rand_coil_data(rng, shape, scale_exp):
    g = torch.Generator().manual_seed(rng.randrange(2 ** 31))
    x = torch.randn(shape, generator=g) * (2.0 ** scale_exp)
    return x


def oracle(ctx: Ctx, deep: bool = False):
    import direct.data.transforms as T
    from direct.common.subsample import FastMRIEquispacedMaskFunc, FastMRIRandomMaskFunc
    from direct.data.mri_transforms import EstimateSensitivityMapModule, SensitivityMapType
    from direct.data.sens import simulate_sensitivity_maps

    rng = ctx.rng
    mult = 3 if deep else 1
    eng = toy_engine()
    # (1) data pipeline with the real inverse FFT, ACS masks of the repo's generators, empty / full ACS
    for i in range(ctx.budget(80, 1200) * mult):
        three_d = rng.random() < 0.25
        b, c = rng.choice([1, 2]), rng.choice([1, 1, 2, 3, 4, 8])
        h, w = rng.choice([4, 6, 8, 9]), rng.choice([6, 8, 10, 11])
        s = rng.choice([1, 2, 3])
        shape = [b, c] + ([s] if three_d else []) + [h, w, 2]
        scale = rng.choice([-55, -20, 0, 0, 0, 20, 55])
        k = _rand_coil_data(rng, shape, scale)
        feats = []
        if c > 1 and rng.random() < 0.3:
            k[:, rng.randrange(c)] = 0
            feats.append("zero-coil")
        if rng.random() < 0.3:      # zero-padded borders
            k[..., :1, :, :] = 0
            k[..., :, -2:, :] = 0
            feats.append("zero-border")
        r = rng.random()
        mshape = [b, 1] + ([1] if three_d else []) + [h, w, 1]
        if r < 0.15:
            acs, ak = torch.zeros(mshape, dtype=torch.bool), "empty"
        elif r < 0.3:
            acs, ak = torch.ones(mshape, dtype=torch.bool), "full"
        else:
            cls = rng.choice([FastMRIRandomMaskFunc, FastMRIEquispacedMaskFunc])
            m = cls(accelerations=[rng.choice([2, 4])], center_fractions=[rng.choice([0.1, 0.25, 0.5])])(
                shape=(h, w, 2), seed=rng.randrange(2 ** 31), return_acs=True)       # (1, h, w, 1)
            acs, ak = m.reshape([1, 1] + ([1] if three_d else []) + [h, w, 1]).expand(mshape).clone(), cls.__name__
        sigma = rng.choice([None, None, 0.5, 2.0])
        ctx.count(("o-est", i, tuple(shape), scale, ak, sigma, tuple(feats)), True,
                  bucket=f"oracle/estimate/{'3d' if three_d else '2d'}/acs={ak}" + ("/gauss" if sigma else ""))
        rep = {"op": "estimate", "kspace": _rep(k), "acs": _rep(acs), "sigma": sigma}
        try:
            mod = EstimateSensitivityMapModule(backward_operator=T.ifft2, type_of_map=SensitivityMapType.RSS_ESTIMATE,
                                               gaussian_sigma=sigma)
            sample = {"kspace": k.clone(), "acs_mask": acs}
            src = mod.estimate_acs_image(dict(sample))
            S = mod(sample)["sensitivity_map"]
            res = check_map(S, src, "estimate")
        except Exception as e:  # noqa: BLE001
            res = ("estimate-raises", f"EstimateSensitivityMapModule raises {err_name(e)}: {e}")
        if res:
            yield Violation(res[0], res[1], rep)
    # (2) unit maps
    for c in range(1, 9):
        for shape in ([1, c, 3, 4, 2], [2, c, 2, 3, 3, 2]):
            ctx.count(("o-unit", c, tuple(shape)), c >= 2, bucket="oracle/unit")
            try:
                S = EstimateSensitivityMapModule(type_of_map=SensitivityMapType.UNIT)({"kspace": torch.zeros(shape)})["sensitivity_map"]
                res = check_map(S, torch.ones(shape), "unit")
            except Exception as e:  # noqa: BLE001
                res = ("unit-raises", f"EstimateSensitivityMapModule(UNIT) raises {err_name(e)}: {e}")
            if res:
                yield Violation(res[0], res[1], {"op": "unit", "shape": shape})
    # (3) engine: arbitrary refinement-network output
    for i in range(ctx.budget(80, 1200) * mult):
        three_d = rng.random() < 0.3
        b, c = rng.choice([1, 2]), rng.choice([1, 2, 3, 5])
        spatial = [rng.choice([1, 2]), rng.choice([2, 3]), rng.choice([2, 4])] if three_d else [rng.choice([2, 3, 5]), rng.choice([2, 4, 6])]
        shape = [b, c] + spatial + [2]
        S0 = _rand_coil_data(rng, shape, rng.choice([-55, 0, 0, 55]))
        R = _rand_coil_data(rng, shape, rng.choice([-55, -10, 0, 0, 10, 55]))
        feat = rng.choice(["plain", "zero-pixels", "zero-coil", "all-zero", "huge-and-tiny"])
        if feat == "zero-pixels":
            R[..., 0, :] = 0
            S0[..., 0, :] = 0
        elif feat == "zero-coil":
            R[:, 0] = 0
            S0[:, 0] = 0
        elif feat == "all-zero":
            R.zero_()
            S0.zero_()
        elif feat == "huge-and-tiny":      # magnitudes 2^-50 … 2^50 in one tensor (inside the checked range)
            R = _rand_coil_data(rng, shape, 0).clamp(-8, 8)
            R[R.abs() < 2.0 ** -8] = 0.0
            R[..., 0, :] *= 2.0 ** 50
            R[..., -1, :] *= 2.0 ** -50
            R.clamp_(-2.0 ** 59, 2.0 ** 59)
        mode = rng.choice(["none", "2d"]) if not three_d else rng.choice(["none", "3d", "slice"])
        ctx.count(("o-eng", i, tuple(shape), mode, feat), c >= 2, bucket=f"oracle/engine/{mode}/{feat}")
        rep = {"op": "engine", "S": _rep(S0), "R": _rep(R), "mode": mode, "three_d": three_d}
        try:
            eng.ndim = 3 if three_d else 2
            eng.models = {} if mode == "none" else {"sensitivity_model_3d" if mode == "3d" else "sensitivity_model": PlantedNet(R, mode)}
            out = eng.compute_sensitivity_map(S0.clone())
            res = check_map(out, R if (mode != "none" and c > 1) else S0, "engine")
        except Exception as e:  # noqa: BLE001
            res = ("engine-raises", f"compute_sensitivity_map raises {err_name(e)}: {e}")
        if res:
            yield Violation(res[0], res[1], rep)
    # (4) safe_divide: finite, exactly 0 where the divisor is 0, the quotient elsewhere
    for i in range(ctx.budget(30, 300)):
        n = rng.randint(1, 40)
        a = _rand_coil_data(rng, [n], rng.choice([-40, 0, 40]))
        d = _rand_coil_data(rng, [n], rng.choice([-40, 0, 40]))
        d[torch.rand(n) < 0.4] = rng.choice([0.0, -0.0])
        if rng.random() < 0.3:
            a[d == 0] = 0.0
        ctx.count(("o-sd", i), True, bucket="oracle/safe_divide")
        try:
            out = T.safe_divide(a, d)
            ok = bool(torch.isfinite(out).all() and (out[d == 0] == 0).all() and torch.equal(out[d != 0], (a / d)[d != 0]))
        except Exception:  # noqa: BLE001
            ok = False
        if not ok:
            yield Violation("safe_divide-guard", "safe_divide is not (0 where the divisor is 0, the quotient elsewhere, finite)",
                            {"op": "safe_divide", "a": _rep(a), "d": _rep(d)})
    # (5) simulate_sensitivity_maps
    for i in range(ctx.budget(24, 200)):
        nc = rng.choice([1, 2, 3, 4, 8, 12])
        shp = [rng.choice([3, 8, 16]), rng.choice([4, 9, 16])] + ([rng.choice([2, 3])] if rng.random() < 0.3 else [])
        seed = rng.choice([0, 1, 7, rng.randrange(2 ** 31)])
        var = rng.choice([1, 0.5, 2])
        ctx.count(("o-sim", nc, tuple(shp), seed, var), nc >= 2, bucket=f"oracle/simulate/{len(shp)}d")
        st = np.random.get_state()
        try:
            sm = simulate_sensitivity_maps(tuple(shp), nc, var=var, seed=seed)
            tot = (np.conj(sm) * sm).sum(0)
            ok = bool(np.isfinite(sm).all() and sm.shape == (nc, *shp) and np.allclose(tot.real, 1, atol=1e-9)
                      and np.allclose(tot.imag, 0, atol=1e-9))
            obs = f"max |sum-1| = {np.abs(tot - 1).max():.3g}"
        except Exception as e:  # noqa: BLE001
            ok, obs = False, f"raises {err_name(e)}: {e}"
        finally:
            np.random.set_state(st)
        if not ok:
            yield Violation("simulate-not-normalised", f"simulate_sensitivity_maps: sum over coils of S* S != 1 ({obs})",
                            {"op": "simulate", "shape": shp, "num_coils": nc, "var": var, "seed": seed})
    # (7) the real `compute_sensitivity_map` through real engines with tiny real sensitivity networks (2-D, 3-D,
    #     2-D network applied slice by slice), directly and through `forward_function`
    yield from oracle_real_engines(ctx, deep)
    # (8) JointICNet normalises its maps itself: observe every map it hands to its forward operator
    yield from oracle_jointicnet(ctx, deep)
    # (9) the option matrix of `build_mri_transforms` (what a config can request): type x gaussian x 2-D/3-D x coils x pad_coils
    yield from oracle_pipeline(ctx, deep)
    # (10) phase 3: option x size-class matrix, real ESPIRiT, histories / in-place, every engine class, range boundary
    from props import c09_ext
    yield from c09_ext.oracle_ext(ctx, deep)
    # (6) documentation of the stated partial: outside 2^±60 the squared sum over/underflows (not a violation)
    for e in (-80, 70):
        k = _rand_coil_data(rng, [1, 2, 4, 4, 2], e)
        eng.models, eng.ndim = {}, 2
        try:
            S = eng.compute_sensitivity_map(k)
        except Exception:  # noqa: BLE001 - reported by (3)
            continue
        s = (S.double() ** 2).sum(-1).sum(1)
        ctx.notes.append(f"partial (outside the checked range): |x| ~ 2^{e}: finite={bool(torch.isfinite(S).all())}, "
                         f"sum|S|^2 in [{float(s.min()):.3g}, {float(s.max()):.3g}]")


def _tiny_sens_models(kind: str):
    from direct.nn.unet.unet_2d import NormUnetModel2d, UnetModel2d
    from direct.nn.unet.unet_3d import UnetModel3d
    if kind == "unet2d":
        return {"sensitivity_model": UnetModel2d(2, 2, 2, 1, 0.0)}
    if kind == "normunet2d":
        return {"sensitivity_model": NormUnetModel2d(2, 2, 2, 1, 0.0)}
    if kind == "unet3d":
        return {"sensitivity_model_3d": UnetModel3d(2, 2, 2, 1, 0.0)}
    return {}


def real_engine_case(engine: str, sens_kind: str, seed: int, via_forward_function: bool, zero_coil_for_normunet: bool = False):
    """-> (key, what) or None: unit-or-zero + finiteness of the map a real engine computes"""
    from omegaconf import OmegaConf
    from direct.config.defaults import DefaultConfig
    from direct.nn.lpd.lpd import LPDNet
    from direct.nn.lpd.lpd_engine import LPDNetEngine
    from direct.nn.vsharp.vsharp import VSharpNet, VSharpNet3D
    from direct.nn.vsharp.vsharp_engine import VSharpNet3DEngine, VSharpNetEngine
    import direct.data.transforms as T

    torch.manual_seed(seed)
    g = torch.Generator().manual_seed(seed)
    three_d = engine == "VSharpNet3DEngine"
    un = dict(image_unet_num_filters=2, image_unet_num_pool_layers=1)
    if engine == "VSharpNetEngine":
        model = VSharpNet(T.fft2, T.ifft2, num_steps=1, num_steps_dc_gd=1, no_parameter_sharing=False, initializer_channels=(2, 2),
                          initializer_dilations=(1, 1), auxiliary_steps=-1, **un)
        cls = VSharpNetEngine
    elif engine == "VSharpNet3DEngine":
        model = VSharpNet3D(T.fft2, T.ifft2, num_steps=1, num_steps_dc_gd=1, no_parameter_sharing=False, initializer_channels=(2, 2),
                            initializer_dilations=(1, 1), auxiliary_steps=-1, unet_num_filters=2, unet_num_pool_layers=1)
        cls = VSharpNet3DEngine
    else:
        model = LPDNet(T.fft2, T.ifft2, num_iter=1, num_primal=2, num_dual=2, primal_model_architecture="UNET",
                       dual_model_architecture="CONV", primal_unet_num_filters=2, primal_unet_num_pool_layers=1)
        cls = LPDNetEngine
    models = _tiny_sens_models(sens_kind)
    eng = cls(OmegaConf.structured(DefaultConfig), model.eval(), "cpu", T.fft2, T.ifft2, **models)
    for mm in models.values():
        mm.eval()
    eng.ndim = 3 if three_d else 2
    b, c = 1 + seed % 2, [1, 2, 3, 4][seed % 4]
    shape = [b, c] + ([2 + seed % 2] if three_d else []) + [8, 8, 2]
    S = torch.randn(shape, generator=g) * (2.0 ** [0, -30, 30, 0][seed % 4])
    # NormUnet divides by the per-sample std of its input: an all-zero coil makes the *network* return NaN (not a real
    # tensor, outside the property's quantifier) — probed separately in oracle_real_engines and recorded as a note
    if seed % 3 == 0 and c > 1 and (sens_kind != "normunet2d" or zero_coil_for_normunet):
        S[:, 0] = 0
    if seed % 5 == 0:
        S[..., :2, :, :] = 0
    with torch.no_grad():
        if via_forward_function:
            mshape = [b, 1] + ([1] if three_d else []) + [8, 8, 1]
            m = torch.rand(mshape, generator=g) < 0.6
            y = torch.where(m, torch.randn(shape, generator=g), torch.tensor([0.0]))
            data = {"masked_kspace": y, "sampling_mask": m, "sensitivity_map": S.clone()}
            eng.forward_function(data)
            out = data["sensitivity_map"]
        else:
            out = eng.compute_sensitivity_map(S.clone())
    refined = bool(models) and c > 1
    return check_map(out, None if refined else S, f"real-engine-{engine}")


REAL_ENGINE_CONFIGS = [("VSharpNetEngine", "unet2d"), ("VSharpNetEngine", "normunet2d"), ("VSharpNetEngine", "none"),
                       ("VSharpNet3DEngine", "unet3d"), ("VSharpNet3DEngine", "unet2d"), ("VSharpNet3DEngine", "none"),
                       ("LPDNetEngine", "unet2d"), ("LPDNetEngine", "none")]


def oracle_real_engines(ctx: Ctx, deep: bool):
    rng = ctx.rng
    probe_normunet_zero_coil(ctx)
    for engine, sk in REAL_ENGINE_CONFIGS:
        for j in range(ctx.budget(3, 30) * (2 if deep else 1)):
            seed = rng.randrange(1, 2 ** 20)
            via = j % 2 == 1
            ctx.count(("o-real-engine", engine, sk, seed, via), True,
                      bucket=f"oracle/real-engine/{engine}/{sk}" + ("/forward_function" if via else ""))
            try:
                res = real_engine_case(engine, sk, seed, via)
            except Exception as e:  # noqa: BLE001
                res = (f"real-engine-{engine}-raises", f"{engine} ({sk}) raises {err_name(e)}: {str(e)[:200]}")
            if res:
                yield Violation(res[0], res[1], {"op": "real_engine", "engine": engine, "sens": sk, "seed": seed, "via": via})


def probe_normunet_zero_coil(ctx: Ctx):
    """observation (not a C09 violation: the refinement output is NaN, i.e. not a real tensor)"""
    try:
        r = real_engine_case("VSharpNetEngine", "normunet2d", 3 * 7 * 4 + 3, False, zero_coil_for_normunet=True)   # c = 4, zero coil
        ctx.notes.append("observation: NormUnetModel2d as sensitivity_model with an all-zero coil: "
                         + ("network output NaN (0/0 in its group norm) -> compute_sensitivity_map returns NaN; no shipped config "
                            "uses NormUnet as sensitivity model" if r and r[0].endswith("nonfinite") else f"result {r}"))
    except Exception as e:  # noqa: BLE001
        ctx.notes.append(f"observation probe failed: {err_name(e)}")


def jointicnet_case(seed: int):
    from direct.nn.jointicnet.jointicnet import JointICNet
    import direct.data.transforms as T

    torch.manual_seed(seed)
    g = torch.Generator().manual_seed(seed)
    n, c = 1 + seed % 2, [1, 2, 3][seed % 3]
    shape = [n, c, 8, 8, 2]
    net = JointICNet(T.fft2, T.ifft2, 2, bool(seed % 2), image_unet_num_filters=2, image_unet_num_pool_layers=1,
                     kspace_unet_num_filters=2, kspace_unet_num_pool_layers=1, sens_unet_num_filters=2,
                     sens_unet_num_pool_layers=1).eval()
    seen = []
    orig = net._forward_operator

    def rec(image, sampling_mask, sensitivity_map):
        seen.append(sensitivity_map.detach().clone())
        return orig(image, sampling_mask, sensitivity_map)
    net._forward_operator = rec
    m = torch.rand([n, 1, 8, 8, 1], generator=g) < 0.6
    y = torch.where(m, torch.randn(shape, generator=g), torch.tensor([0.0]))
    S = torch.randn(shape, generator=g)
    with torch.no_grad():
        net(y, m, S)
    if len(seen) < 2:
        return ("jointicnet-no-maps", "JointICNet never used a normalised map")
    for t in seen[1:]:          # the first one is the caller's map, all later ones were normalised by the network
        r = check_map(t, None, "jointicnet")
        if r:
            return r
    return None


def oracle_jointicnet(ctx: Ctx, deep: bool):
    for j in range(ctx.budget(6, 60)):
        seed = ctx.rng.randrange(1, 2 ** 20)
        ctx.count(("o-jointicnet", seed), seed % 3 != 0, bucket="oracle/own-normalisation/JointICNet")
        try:
            res = jointicnet_case(seed)
        except Exception as e:  # noqa: BLE001
            res = ("jointicnet-raises", f"JointICNet raises {err_name(e)}: {str(e)[:200]}")
        if res:
            yield Violation(res[0], res[1], {"op": "jointicnet", "seed": seed})


def pipeline_case(typ: str, sigma, three_d: bool, coils: int, pad_coils, zero_rows: bool, seed: int):
    from direct.common.subsample import FastMRIEquispacedMaskFunc, FastMRIRandomMaskFunc
    from direct.data.mri_transforms import SensitivityMapType, build_mri_transforms
    import direct.data.transforms as T

    rs = np.random.RandomState(seed)
    acc, cf = [(2, 0.25), (3, 0.2), (4, 0.1)][seed % 3]          # feasible (acceleration, centre fraction) pairs for width >= 16
    mf = (FastMRIRandomMaskFunc if seed % 2 else FastMRIEquispacedMaskFunc)(accelerations=[acc], center_fractions=[cf])
    tr = build_mri_transforms(T.fft2, T.ifft2, mf, estimate_sensitivity_maps=True, sensitivity_maps_type=SensitivityMapType(typ),
                              sensitivity_maps_gaussian=sigma, pad_coils=pad_coils, use_seed=True)
    shape = (coils,) + ((2,) if three_d else ()) + (8 + 2 * (seed % 3), 16 + seed % 4)
    ks = ((rs.randn(*shape) + 1j * rs.randn(*shape)) * 10.0 ** [0, -4, 4][seed % 3]).astype(np.complex64)
    if zero_rows:
        ks[..., :2, :] = 0
        ks[..., :, -3:] = 0
    out = tr({"kspace": ks, "filename": "f", "slice_no": 0})
    S = out["sensitivity_map"]
    expect_coils = max(coils, pad_coils or 0)
    if S.shape[0] != expect_coils:
        return ("pipeline-coil-count", f"sensitivity map has {S.shape[0]} coils, expected {expect_coils}")
    return check_map(S.unsqueeze(0), None, "pipeline")


def oracle_pipeline(ctx: Ctx, deep: bool):
    rng = ctx.rng
    combos = [(typ, sigma, three_d) for typ in ("rss_estimate", "unit") for sigma in (None, 0.0, 0.5, 2.0) for three_d in (False, True)]
    reps = ctx.budget(1, 8)
    for typ, sigma, three_d in combos:
        for _ in range(reps):
            coils, pad_coils = rng.choice([1, 2, 3, 5]), rng.choice([None, None, 6])
            zero_rows, seed = rng.random() < 0.4, rng.randrange(1, 2 ** 20)
            ctx.count(("o-pipeline", typ, sigma, three_d, coils, pad_coils, zero_rows, seed), True,
                      bucket=f"oracle/pipeline/{typ}/gaussian={sigma}/{'3d' if three_d else '2d'}" + ("/pad_coils" if pad_coils else ""))
            try:
                res = pipeline_case(typ, sigma, three_d, coils, pad_coils, zero_rows, seed)
            except Exception as e:  # noqa: BLE001
                res = ("pipeline-raises", f"build_mri_transforms pipeline raises {err_name(e)}: {str(e)[:200]}")
            if res:
                yield Violation(res[0], res[1], {"op": "pipeline", "typ": typ, "sigma": sigma, "three_d": three_d, "coils": coils,
                                                 "pad_coils": pad_coils, "zero_rows": zero_rows, "seed": seed})


def replay(rep: dict) -> bool:
    import direct.data.transforms as T
    from direct.data.mri_transforms import EstimateSensitivityMapModule, SensitivityMapType
    from direct.data.sens import simulate_sensitivity_maps

    op = rep.get("op")
    try:
        from props import c09_ext
        r = c09_ext.replay_ext(rep)
        if r is not None:
            return r
        if op == "real_engine":
            return real_engine_case(rep["engine"], rep["sens"], rep["seed"], rep["via"]) is not None
        if op == "jointicnet":
            return jointicnet_case(rep["seed"]) is not None
        if op == "pipeline":
            return pipeline_case(rep["typ"], rep["sigma"], rep["three_d"], rep["coils"], rep["pad_coils"], rep["zero_rows"],
                                 rep["seed"]) is not None
        if op == "estimate":
            mod = EstimateSensitivityMapModule(backward_operator=T.ifft2, type_of_map=SensitivityMapType.RSS_ESTIMATE,
                                               gaussian_sigma=rep["sigma"])
            sample = {"kspace": _unrep(rep["kspace"]), "acs_mask": _unrep(rep["acs"])}
            src = mod.estimate_acs_image(dict(sample))
            return check_map(mod(sample)["sensitivity_map"], src, "estimate") is not None
        if op == "unit":
            S = EstimateSensitivityMapModule(type_of_map=SensitivityMapType.UNIT)({"kspace": torch.zeros(rep["shape"])})["sensitivity_map"]
            return check_map(S, torch.ones(rep["shape"]), "unit") is not None
        if op == "engine":
            eng = toy_engine()
            S0, R, mode = _unrep(rep["S"]), _unrep(rep["R"]), rep["mode"]
            eng.ndim = 3 if rep["three_d"] else 2
            eng.models = {} if mode == "none" else {"sensitivity_model_3d" if mode == "3d" else "sensitivity_model": PlantedNet(R, mode)}
            out = eng.compute_sensitivity_map(S0.clone())
            return check_map(out, R if (mode != "none" and S0.shape[1] > 1) else S0, "engine") is not None
        if op == "safe_divide":
            a, d = _unrep(rep["a"]), _unrep(rep["d"])
            out = T.safe_divide(a, d)
            return not bool(torch.isfinite(out).all() and (out[d == 0] == 0).all() and torch.equal(out[d != 0], (a / d)[d != 0]))
        if op == "simulate":
            sm = simulate_sensitivity_maps(tuple(rep["shape"]), rep["num_coils"], var=rep["var"], seed=rep["seed"])
            tot = (np.conj(sm) * sm).sum(0)
            return not bool(np.isfinite(sm).all() and np.allclose(tot, 1, atol=1e-9))
    except Exception:  # noqa: BLE001
        return True
    return True
