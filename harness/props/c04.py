"""C04 — every mask generator returns a boolean mask of the documented geometry (and returns)."""
from __future__ import annotations

import atexit
import json

import boot  # noqa: F401
import numpy as np

from core import Ctx, Violation, err_name, ints, line
from props import c04_poisson as P
from props import maskgen_common as G

PROP = "C04"
MANIFEST = {
    "text": "Lean 4 theorems for all modes, ranks, sizes and all interiors (draws): the final assembly of each of the 14 "
            "generators (pattern OR acs per frame, row tiling, _reshape_and_add_coil_axis) returns a boolean tensor of shape "
            "maskShape (ones except rows, cols and the frame axis in dynamic/multislice mode, leading coil axis 1) that broadcasts "
            "against (coil, *shape); frame t of the output is pattern t OR acs; all rows of a frame of a line generator are equal; "
            "rank-check errors; the Gaussian rejection loop adds exactly the requested number of cells and exits for every fair "
            "candidate stream iff the request fits in the free cells; the repaired VD-Poisson bisection terminates on every finite "
            "ordered grid and returns only within tolerance (else ValueError), while the pinned loop provably spins; the CIRCUS "
            "largest-disc search returns by the first radius covering the grid whenever fewer than 10/11 of the cells are sampled "
            "(and never on a full mask). The Poisson-disc rasteriser direct/common/_poisson.pyx is an executable Lean model "
            "(exact IEEE binary32/binary64 arithmetic on dyadic rationals, recorded libc rand() stream, cos/sin as data): for "
            "every grid, radius table, rand() stream and trig table the mask is a Bool array of nx*ny cells, every written cell "
            "and every radius read is on the grid (the bounds-checked stops cellOutOfGrid/readOutOfGrid are unreachable), "
            "num_actives = 1 + accepted - removed, sampled = accepted - stale, the attempt loop makes at most max_attempts "
            "attempts, iterations <= 2(nx*ny + stale) + 1, rand() calls = 2 + iterations + 2*attempts, and the run overruns "
            "pxs/pys exactly at an acceptance with num_actives = nx*ny (then sampled + stale + 1 = nx*ny + removed) - with "
            "decide-checked recorded witnesses (1x2 grid: overrun with fresh cells only; 2x2: with stale acceptances after a "
            "removal) of the known finding. Tied to the code by translated kernels/tables (return-wrapper table, reshape index "
            "assignments, broadcast branches, __call__ guards, build_masking_function table, per-generator assembly; located "
            "statements + guards/counter updates/grid test of the .pyx; tables over ALL classes deriving from BaseMaskFunc: no "
            "instance/class/module state written outside construction, every concrete mask_func returns through the wrapper "
            "(CalgaryCampinas declared out of scope), every caller in direct/ goes through __call__ with keyword arguments) and "
            "by differential correspondence: bit-exact masks with recorded draws for Random/Equispaced/Magic/Gaussian1D/"
            "Gaussian2D/KtUniform/KtGaussian1D/Radial/Spiral and - through the kernel model - VariableDensityPoisson (mask, "
            "number of rand() calls, statistics; compiled kernel and bounds-checked .pyx front-end), the real bisection "
            "traces, the IEEE operations against numpy; every real call under a watchdog.",
    "note": "Trusted: Lean kernel (+propext, Classical.choice, Quot.sound), the AST translator and .pyx front-end, the recording "
            "RandomState and the libc rand() reconstruction (ctypes), the float oracle props/c04_poisson.trace that supplies the "
            "(t, cos t, sin t) rows (its own mask/counters are compared with the model's on every case), numpy/torch "
            "reshape/tile semantics as encoded by the list model, the model's IEEE rounding (validated against numpy on every "
            "run, not proved). Partial: KtRadial (scipy.ndimage.rotate) and the radius tables / r<1 crop of the Poisson wrapper "
            "are inputs; 'the Poisson kernel always returns' is proved only up to the number of stale acceptances "
            "(poisson_returns_or_stale_partial: adversarial streams can alternate stale acceptance and removal for ever); the "
            "10/11 density hypothesis of the CIRCUS promptness theorem is checked per case on the real mask, not derived from "
            "the pattern; randint(upper) = upper for rand() = RAND_MAX (2^-31 per draw) is a guarded stop of the model "
            "(badIndex), shown by example; float glue (round, sqrt) enters as integers computed by the harness.",
    "technique": "Lean 4 proof (loop invariants by induction, list/array lemmas, omega, decide +kernel on recorded runs and on "
                 "generated tables) + AST translation bridge + differential correspondence with recorded draws (exact dyadic "
                 "floats) + watchdogged oracle with argument forms, call histories on one object and real call sites",
}
TRUSTED = [
    "Lean 4.33 kernel; axioms ⊆ {propext, Classical.choice, Quot.sound}",
    "harness/translate recipes c04 (AST -> Lean tables/kernels for subsample.py and, through boot.pyx_to_python, _poisson.pyx)",
    "recording np.random.RandomState subclass assigned to mask_func.rng; libc srand/rand via ctypes for the candidate streams of "
    "gaussian_mask_1d/2d (Box–Muller) and the rand() stream of _poisson",
    "props/c04_poisson.trace: float oracle following the MODEL's control flow with C float semantics, supplying math.cos/math.sin "
    "of the model's own t (the model checks t; mask, rand() count and counters of the oracle are compared with the model's)",
    "the model's IEEE-754 round-to-nearest-even on dyadic rationals (Model/C04Poisson: round, roundQ) — validated against numpy "
    "float32/float64 arithmetic on every run (fop/fcmp/prand cases), not proved; overflow not modelled",
    "numpy reshape / tile / torch .bool() semantics as encoded by reshapeAndAddCoil / broadcastRows (validated by correspondence)",
    "KtRadial rasterisation (scipy rotate), the Poisson wrapper's radius tables and `r < 1` crop, toeplitz are inputs",
    "the scripted stand-in for `_poisson` used to drive the real bisection wrapper; the recorder wrapped around `_poisson` in "
    "real generator calls (records arguments, result and the next rand() value)",
]
ASSUMPTIONS = [
    "Python float glue (round(n*cf), round(n/R), int(sqrt(rows*cols*cf/pi)), uniform < prob, np.around(arange), the bisection "
    "verdict |R_actual - R| < tol, r < 1) is evaluated by the harness with the same expressions and enters the model as "
    "integers / booleans",
    "libc rand() never returns 0 (log(0) in the Gaussian kernels) or RAND_MAX (randint(upper) = upper in _poisson) in the "
    "sampled streams; probability 2^-31 per draw",
    "feasible (acceleration, centre fraction) = the ACS region fits in the budget with at least one more sample "
    "(maskgen_common.feasible); VariableDensityPoisson may still raise its documented ValueError",
    "gcc evaluates float*float in binary32 and pow(x, 2.0) as x*x (FLT_EVAL_METHOD 0; checked: the float oracle equals the "
    "compiled kernel bit for bit on every sampled case)",
]
RULE = ("one case = one real generator call (mask or return_acs), one real `_poisson` kernel call, or one kernel/helper call "
        "compared with the model; generators x modes x ranks 3..5 x rows/cols from {8..80} incl. odd, even, non-square, single "
        "frame, and the axis-length coincidence classes frames==rows, frames==cols, rows==cols, lead==rows, all-equal for every "
        "generator and mode (correspondence and oracle); oracle additionally: argument forms (shape as tuple/list/torch.Size/ndarray, positional/keyword, mode and CIRCUS "
        "scheme as enum/string), 10-call histories on one object sharing some but not all of (seed, rank, rows, cols, frames, "
        "return_acs), an edge-seed ladder for every generator and mode (0, 1, 2^31-2 … 2^32-1, 2^32, -1, numpy integers, tuples/lists "
        "with large entries; mask and ACS; judged: contract shape or ValueError, never another exception), the real callers (CreateSamplingMask, apply_mask, config-driven build with and without mode); "
        "non-trivial = a generator call that returned a mask with at least two rows and columns (kernels: a non-degenerate "
        "input; _poisson: at least one accepted candidate or an overrun); distinct = distinct protocol line")
PENDING_FINDINGS: list[str] = ["generator-crashes/VariableDensityPoisson/active-list-overrun"]   # listed as known: for C04 by the lead (same key as C07)
EXTRA_LEAN_MODULES = ["DirectVerif.Lemmas.C04List", "DirectVerif.Lemmas.C06Assemble", "DirectVerif.Lemmas.C04Loops",
                      "DirectVerif.Lemmas.C04Interior", "DirectVerif.Lemmas.C04Poisson", "DirectVerif.Lemmas.C04Circus"]

_worker: G.Worker | None = None
_fe_worker: G.Worker | None = None          # bounds-checked front-end kernels, for calls that can overrun `_poisson`
CRASH_KEY = "generator-crashes/{gen}"
OVERRUN_KEY = "generator-crashes/VariableDensityPoisson/active-list-overrun"
_cache: dict[str, dict] = {}
TIMEOUT = 20.0


def worker() -> G.Worker:
    global _worker
    if _worker is None:
        _worker = G.Worker()
        atexit.register(_worker.close)
    return _worker


_hangs: dict[str, int] = {}
HANG_LOG: list = []
CRASH_LOG: list = []


def fe_worker() -> G.Worker:
    global _fe_worker
    if _fe_worker is None:
        _fe_worker = G.Worker("props.c04_poisson", "run_gen", env={"VERIF_FORCE_FRONTEND": "1"})
        atexit.register(_fe_worker.close)
    return _fe_worker


_vdp_worker: G.Worker | None = None         # compiled kernels, VariableDensityPoisson calls only


def vdp_worker() -> G.Worker:
    global _vdp_worker
    if _vdp_worker is None:
        _vdp_worker = G.Worker("props.c04_poisson", "run_gen")
        atexit.register(_vdp_worker.close)
    return _vdp_worker


_kernel_workers: dict[bool, G.Worker] = {}


def kernel_worker(frontend: bool) -> G.Worker:
    """direct calls of the `_poisson` kernel (compiled, or the bounds-checked .pyx front-end)"""
    if frontend not in _kernel_workers:
        w = G.Worker("props.c04_poisson", "run_kernel", env={"VERIF_FORCE_FRONTEND": "1"} if frontend else None)
        atexit.register(w.close)
        _kernel_workers[frontend] = w
    return _kernel_workers[frontend]


def route(spec: dict):
    """(worker, timeout, bounds_checked) for a real call: `_poisson` calls never share a process with the other
    generators; those that are known to overrun (max_attempts > 10) or that ask for it run bounds-checked"""
    if G.risky(spec) or spec.get("frontend"):
        return fe_worker(), 60.0, True
    if G.isolated(spec):
        return vdp_worker(), TIMEOUT, False
    return worker(), TIMEOUT, False


def run(spec: dict) -> dict:
    """one watchdogged real call (cached); after a hang of a generator / entry point the rest of
    its cases are not attempted any more (each hang costs the full timeout)"""
    k = json.dumps(spec, sort_keys=True)
    if k not in _cache:
        who = str(spec.get("op") or spec.get("gen")) + ("/bounds-checked" if (G.risky(spec) or spec.get("frontend")) else "")
        if _hangs.get(who, 0) >= 1:
            return {"ok": False, "err": "SkippedAfterHang", "msg": f"{who} hung twice before"}
        import time as _t
        _t0 = _t.time()
        w_, to_, checked = route(spec)
        _cache[k] = w_.run(spec, to_)
        _cache[k]["_dt"] = round(_t.time() - _t0, 2)
        r = _cache[k]
        if r.get("died") or (checked and r.get("err") == "IndexError" and "out of bounds" in r.get("msg", "")):
            r["crash"] = True
            CRASH_LOG.append((spec, r))
        if _cache[k].get("hang"):
            _hangs[who] = _hangs.get(who, 0) + 1
            HANG_LOG.append((spec, _cache[k]))
    return _cache[k]


def crash_key(spec: dict) -> str:
    """the recorded (known) defect class is the active-list overrun with max_attempts > 10 only; every other crash —
    VariableDensityPoisson with default options included — has the plain per-generator key"""
    if spec.get("gen") == "VariableDensityPoisson" and spec.get("extra", {}).get("max_attempts", 10) > 10:
        return OVERRUN_KEY
    return CRASH_KEY.format(gen=spec.get("op") or spec.get("gen"))


def hang_violations(seen: set):
    """every watchdog timeout and every crash (worker process killed / bounds-checked kernel overrun) observed so
    far, in any stage, is a finding with its arguments"""
    for spec, res in CRASH_LOG:
        key = crash_key(spec)
        if key not in seen:
            seen.add(key)
            how = ("the process running the call died (compiled kernels)" if res.get("died") else
                   f"bounds-checked _poisson kernel: {res.get('err')}: {res.get('msg')}")
            yield Violation(key, f"{spec.get('gen')} {spec.get('extra', {})} shape {spec.get('shape')}: {how}",
                            {"op": "crash", "spec": spec, "observed": how})
    for spec, res in HANG_LOG:
        key = "hang-" + str(spec.get("op") or spec.get("gen"))
        if key not in seen:
            seen.add(key)
            yield Violation(key, f"{spec.get('op') or spec.get('gen')} did not return within {res.get('timeout')} s",
                            {"op": "hang", "spec": spec, "observed": "hang"})


def gid(name: str) -> int:
    return G.GENERATORS.index(name)


def mid(mode: str) -> int:
    return G.MODES.index(mode)


def answer(res: dict) -> str:
    """canonical answer string of a real call (mask as `shape | packed rows`)"""
    if res.get("hang"):
        return "err Timeout"
    if not res.get("ok"):
        return "err " + res.get("err", "Unknown")
    return "ok " + ints(res["shape"]) + " | " + ints(res["rows"])


# --------------------------------------------------------------------------------------------------
# reconstruction of the interior of the fully modelled generators from the recorded draws
def acs_lines(name: str, cols: int, acc, cf) -> int:
    l = G.num_low_freqs(name, cols, cf)
    if name.endswith("Magic"):
        l = max(min(l, G.py_round(cols / acc)), 1)
    return l


def frames_of(mode: str, shape) -> int:
    return shape[-4] if mode != "static" else 1


def pack_bits(bits) -> int:
    return sum(1 << j for j, b in enumerate(bits) if b)


def center_bits(n: int, l: int) -> list[bool]:
    pad = (n - l + 1) // 2
    m = [False] * n
    m[pad:pad + l] = [True] * len(m[pad:pad + l])
    return m


def gen_lines(spec: dict, res: dict):
    """protocol line for one generator call whose real result is `res` (None when no line can be built)"""
    name, mode, shape = spec["gen"], spec["mode"], spec["shape"]
    acc, cf = G.chosen(spec, res)
    racs = 1 if spec.get("return_acs") else 0
    hdr = [gid(name), mid(mode), racs]
    rank_ok = len(shape) >= (4 if mode != "static" else 3)
    if not rank_ok:
        return line("gen", hdr, shape, [0, 0], [])
    rows, cols = shape[-3], shape[-2]
    F = frames_of(mode, shape)
    fam = G.FAMILY[name]
    draws = res.get("draws", [])
    if name.endswith("Magic"):
        l_raw = G.num_low_freqs(name, cols, cf)
        target = G.py_round(cols / acc)
        offsets = [int(d[3]) for d in draws[1:] if d[0] == "randint"]
        return line("gen_magic", hdr, shape, [l_raw, target], offsets if not racs else [])
    if name in ("Gaussian1D", "Gaussian2D"):
        if name == "Gaussian1D":
            a = G.num_low_freqs(name, cols, cf)
            need = int(np.round(cols / acc - a - 1)) + 1
            base = center_bits(cols, a)
        else:
            a = G.disc_radius(rows, cols, cf)
            cx, cy = rows // 2, cols // 2
            base = [(x - cx) ** 2 + (y - cy) ** 2 < a ** 2 for x in range(rows) for y in range(cols)]
            need = int(np.round(cols * rows / acc - sum(base) - 1)) + 1
        need = max(need, 0)
        groups = []
        if not racs:
            seeds = [int(d[3]) for d in draws[1:] if d[0] == "randint"]
            for s in seeds:
                if name == "Gaussian1D":
                    c, done = G.libc_candidates_1d(s, cols // 2, 6 * np.sqrt(cols // 2), cols, base, need)
                else:
                    c, done = G.libc_candidates_2d(s, rows // 2, cols // 2, 6 * np.sqrt(rows // 2), 6 * np.sqrt(cols // 2),
                                                   rows, cols, base, need)
                if not done:
                    return None
                groups.append(c)
        return line("gen_gauss", hdr, shape, [a, need], *groups)
    if name in ("KtUniform", "KtGaussian1D"):
        l = G.num_low_freqs(name, cols, cf)
        if racs:
            return line("gen_ktuniform" if name == "KtUniform" else "gen_ktgauss", hdr, shape, [l])
        if 0 <= l <= cols and (l * acc == cols or l == cols):
            return None          # float glue divides by zero (adjusted acceleration 0 or undefined): not modelled
        if name == "KtUniform":
            rs = [d for d in draws[1:] if d[0] == "randint"]
            if len(rs) < 2:
                return line("gen_ktuniform", hdr, shape, [l], [], [])
            adjusted = (acc * (l - cols)) / (l * acc - cols)
            p_idx = np.arange(int(rs[0][3]), cols, adjusted).astype(int).tolist()
            t_idx = np.arange(int(rs[1][3]), F, acc).astype(int).tolist()
            return line("gen_ktuniform", hdr, shape, [l], p_idx, t_idx)
        ch = [d[1] for d in draws if d[0] == "choice"]
        return line("gen_ktgauss", hdr, shape, [l], *[[int(v) for v in c] for c in ch])
    if name in ("Radial", "Spiral"):
        golden = (1 + np.sqrt(5)) / 2
        if cf is None or cf == 0:
            specg = [2] + circus_thresholds(rows, cols)
            accel = acc
        else:
            radius = G.disc_radius(rows, cols, cf)
            specg = [1, radius]
            L = G.disc_count(rows, cols, radius)
            accel = (acc * (L - rows * cols)) / (L * acc - rows * cols) if L * acc != rows * cols else None
        if racs and specg[0] != 2:
            return line("gen_circus", hdr, shape, specg, [0])
        if accel is None:
            return None
        max_dim = max(rows, cols) - max(rows, cols) % 2
        min_dim = min(rows, cols) - min(rows, cols) % 2
        nsq = max_dim // 2
        M = int(np.prod((rows, cols)) / (accel * (max_dim / 2 - (max_dim - min_dim) * (1 + min_dim / max_dim) / 4)))
        frames = []
        for d in draws[1:]:
            if name == "Radial" and d[0] == "randint":
                t = int(np.asarray(d[3]).reshape(-1)[0])
                fl = []
                for sq in range(nsq):
                    K = 4 * (2 * (nsq - sq) - 1)
                    fl += [int(np.floor(np.mod((m + t * M) / golden, 1) * K)) for m in range(M)]
                frames.append(fl)
            elif name == "Spiral" and d[0] == "uniform":
                c = float(np.asarray(d[3]).reshape(-1)[0])
                fl = []
                for sq in range(nsq):
                    J = 2 * (nsq - sq)
                    K = 4 * (J - 1)
                    for m in range(M):
                        i = np.floor(np.mod(m / golden, 1) * K)
                        fl.append(int(np.mod((i + np.ceil(J ** c) - 1), K)))
                frames.append(fl)
        return line("gen_circus", hdr, shape, specg, [max(M, 0)], *frames)
    if name == "VariableDensityPoisson" and not racs and res.get("ok") and res.get("frames") and _kernel_budget["left"] > 0:
        ln = poisson_gen_line(spec, res, cf)
        if ln is not None:
            _kernel_budget["left"] -= 1
            return ln
    # interior given as data
    if fam in ("line", "ktline"):
        l = G.num_low_freqs(name, cols, cf)
        specg = [0, l]
    elif cf is None or cf == 0:
        specg = [2] + circus_thresholds(rows, cols)
    else:
        specg = [1, G.disc_radius(rows, cols, cf)]
    interior: list[int] = []
    if racs and specg[0] != 2:
        return line("gen", hdr, shape, specg, [])
    if name.endswith("Random"):
        prob = (cols / acc - l) / (cols - l)
        us = [d[3] for d in draws if d[0] == "uniform"]
        interior = [pack_bits([u < prob for u in row]) for row in us]
    elif name.endswith("Equispaced"):
        adjusted = (acc * (l - cols)) / (l * acc - cols)
        for d in draws[1:]:
            if d[0] == "randint":
                idx = np.around(np.arange(int(d[3]), cols - 1, adjusted)).astype(np.uint)
                interior.append(sum(1 << int(j) for j in set(idx.tolist())))
    else:
        # opaque interior: the real mask itself (mask = mask ∨ acs  ⇔  acs ⊆ mask); for the Kt line
        # generators only row 0 of every frame (the model tiles it: all rows must be equal)
        real = res if not racs else run(dict(spec, return_acs=False))
        if not real.get("ok") or real.get("rows") is None or len(real["rows"]) != F * rows:
            return None
        interior = [real["rows"][f * rows] for f in range(F)] if fam == "ktline" else list(real["rows"])
    return line("gen", hdr, shape, specg, interior)


_kernel_budget = {"left": 0}     # generator-level lines that run the kernel model (set per run in `correspondence`)


def poisson_gen_line(spec: dict, res: dict, cf):
    """`gen_poisson` line: the model runs the `_poisson` kernel of every frame on the recorded `rand()` stream (the
    arguments of the last bisection step, as the real call recorded them), ORs the ACS disc, crops, reshapes"""
    shape, mode = spec["shape"], spec["mode"]
    rows, cols = shape[-3], shape[-2]
    groups = []
    for fr in res["frames"]:
        if "nx" not in fr or fr["nx"] * fr["ny"] * len(res["frames"]) > 900:
            return None
        rx = np.array([P.undy(fr["rx"][i], fr["rx"][i + 1]) for i in range(0, len(fr["rx"]), 2)]).reshape(fr["nx"], fr["ny"])
        ry = np.array([P.undy(fr["ry"][i], fr["ry"][i + 1]) for i in range(0, len(fr["ry"]), 2)]).reshape(fr["nx"], fr["ny"])
        tr = P.trace(fr["nx"], fr["ny"], fr["ma"], rx, ry, fr["seed"])
        if tr["halt"]:
            return None
        trig: list[int] = []
        for t, c, sn in tr["trig"]:
            trig.extend(P.dy(t) + P.dy(c) + P.dy(sn))
        groups += [[fr["nx"], fr["ny"], fr["ma"], len(tr["draws"]) + 2], tr["draws"], fr["rx"], fr["ry"], trig]
    return line("gen_poisson", [mid(mode)], shape, [G.disc_radius(rows, cols, cf), 1 if "crop" in res else 0],
                res.get("crop", []), *groups)


def bisection_trace_cases(spec: dict, res: dict):
    """the bisection of a REAL `poisson(...)` call against the model's `bisect`: the verdict of every step is computed
    from the real kernel masks (float glue), the model walks the dyadic slope grid with these verdicts; compared: the
    number of kernel calls, the slope the loop ended on (read back from `radius_x` / `radius_y` of the last call),
    and returned-vs-ValueError"""
    frames = res.get("frames") or []
    for k, fr in enumerate(frames):
        v = fr.get("verdicts")
        if not v or not fr.get("default_slopes") or "nx" not in fr or len(v) > 38:
            continue
        nx, ny = fr["nx"], fr["ny"]
        hi = max(nx, ny)
        raised = (not res.get("ok")) and k == len(frames) - 1
        if raised and not (res.get("err") == "ValueError" and "Cannot generate mask" in res.get("msg", "")):
            continue
        if raised:
            a = "err ValueError"
        else:
            # the slope of the last step: the float midpoints along the verdicts (the expressions of `poisson`); it is the
            # slope the real call ended on iff it reproduces the radius tables the real last kernel call received
            lo_s, hi_s, slope = 0, hi, None
            for vv in v:
                slope = (hi_s + lo_s) / 2
                if vv == 0 or slope in (lo_s, hi_s):
                    break
                if vv == 1:
                    lo_s = slope
                else:
                    hi_s = slope
            rx, ry = P.radii(nx, ny, slope)
            if P.flat_dy(rx) != fr["rx"] or P.flat_dy(ry) != fr["ry"]:
                a = "err RadiusTablesNotFromSlope"
            else:
                a = "ok " + ints([fr["ncalls"], int(slope * 2 ** 40)])
        yield {"line": line("bisect", [hi * 2 ** 40, 4000], v), "impl": (lambda a=a: a), "nontrivial": len(v) > 1,
               "bucket": "gen/VariableDensityPoisson/bisection-trace/" + ("raises" if raised else "returns")}


def circus_thresholds(rows: int, cols: int) -> list[int]:
    """floor(radius²) for the float radii 1, 1 + 0.1, … of the CIRCUS disc search, until well past the
    radius at which the disc covers the whole grid.  torch compares the integer tensor `d²` with the Python
    float `radius**2` in float32, so the threshold is floor(float32(radius²)) (e.g. the accumulated radius
    4.999999999999999 still admits d² = 25)."""
    far = (rows // 2 + 1) ** 2 + (cols // 2 + 1) ** 2
    out, radius = [], 1
    while True:
        out.append(int(np.floor(np.float32(radius ** 2))))
        if radius ** 2 > far + 4:
            return out
        radius += 0.1


# --------------------------------------------------------------------------------------------------
def generator_cases(ctx: Ctx, per_gen: int, acs: bool):
    """structured generator calls: every generator x its modes x ranks, feasible pairs"""
    rng = ctx.rng
    for name in G.GENERATORS:
        modes = G.modes_of(name)
        for k in range(per_gen):
            mode = modes[k % len(modes)]
            ranks = [4, 5] if mode != "static" else [3, 4, 5]
            spec = G.sample_case(rng, name, mode=mode, rank=ranks[(k // len(modes)) % len(ranks)], multi=0.3, options=0.4)
            if spec is None:
                continue
            if name in ("Radial", "Spiral") and rng.random() < 0.4 and not isinstance(spec["acc"], list):
                spec["cf"] = None      # CIRCUS without centre fraction: largest sampled disc search
            if acs and G.risky(spec):
                spec["extra"]["max_attempts"] = 5
            for racs in ([False, True] if acs else [False]):
                s = dict(spec, return_acs=racs)
                res = run(s)
                ln = gen_lines(s, res)
                shape = s["shape"]
                par = ("o" if shape[-3] % 2 else "e") + ("o" if shape[-2] % 2 else "e")
                ctx.hist[f"shape-parity/{par}"] = ctx.hist.get(f"shape-parity/{par}", 0) + 1
                ctx.hist[f"rank/{len(shape)}"] = ctx.hist.get(f"rank/{len(shape)}", 0) + 1
                if name in ("Radial", "Spiral") and s.get("cf") is None and res.get("ok") and res.get("rows") and not racs:
                    # hypothesis of `circus_disc_returns_promptly` on the real pattern of every frame: 11·|mask| < 10·rows·cols
                    rws, cls_ = shape[-3], shape[-2]
                    fr = [res["rows"][i:i + rws] for i in range(0, len(res["rows"]), rws)]
                    sparse = all(11 * sum(bin(v).count("1") for v in f_) < 10 * rws * cls_ for f_ in fr)
                    kk = "circus-search/" + ("sparse-hypothesis-holds" if sparse else "dense-mask")
                    ctx.hist[kk] = ctx.hist.get(kk, 0) + 1
                if ln is None:
                    ctx.hist["gen-skipped/no-interior"] = ctx.hist.get("gen-skipped/no-interior", 0) + 1
                    continue
                if name == "VariableDensityPoisson" and not racs and not acs:      # C04's own call only (C06 reuses this generator)
                    yield from bisection_trace_cases(s, res)
                a = answer(res)
                _SPEC_BY_LINE[ln] = s
                yield {"line": ln, "impl": (lambda a=a: a), "nontrivial": res.get("ok", False),
                       "bucket": f"gen/{name}/{mode}/" + ("acs" if racs else "mask") + ("+opts" if s.get("extra") else "")
                                 + ("+kernel-model" if ln.startswith("gen_poisson") else "")
                                 + ("+build" if s.get("via_build") else "")}


def malformed_cases(ctx: Ctx, n: int):
    """inputs the code must reject (or survive): bad ranks, ACS beyond the budget, Kt block wider than the axis"""
    rng = ctx.rng
    for _ in range(n):
        name = rng.choice(G.GENERATORS)
        mode = rng.choice(G.modes_of(name))
        kind = rng.choice(["rank", "rank", "magic-budget", "kt-wide"])
        if kind == "rank":
            r = rng.choice([1, 2, 3, 6] if G.is_kt(name) else [1, 2, 3])
            if mode == "static" and r == 3:
                r = 2
            shape = [rng.choice([2, 3]) for _ in range(max(r - 3, 0))] + [rng.choice([8, 9, 12]), rng.choice([8, 11, 16]), 2][-r:]
            cf = 3 if G.takes_count(name) else 0.1
            spec = {"gen": name, "mode": mode, "shape": shape, "acc": 4, "cf": cf, "seed": rng.randrange(1000),
                    "return_acs": rng.random() < 0.3}
        elif kind == "magic-budget":
            name = rng.choice(["FastMRIMagic", "CartesianMagic"])
            mode = rng.choice(G.MODES)
            cols = rng.choice([8, 9, 12, 16, 21])
            shape = ([2] if mode != "static" else []) + [rng.choice([8, 10]), cols, 2]
            acc = rng.choice([4, 8])
            cf = rng.randint(max(2, G.py_round(cols / acc)), cols) if G.takes_count(name) else rng.choice([0.3, 0.5, 0.9])
            spec = {"gen": name, "mode": mode, "shape": shape, "acc": acc, "cf": cf, "seed": rng.randrange(1000),
                    "return_acs": rng.random() < 0.3}
        else:
            name = rng.choice(["KtUniform", "KtGaussian1D"])
            shape = [rng.choice([2, 3]), rng.choice([8, 9]), rng.choice([8, 11, 16]), 2]
            spec = {"gen": name, "mode": "dynamic", "shape": shape, "acc": 4, "cf": rng.choice([1.0, 1.2, 1.5]),
                    "seed": rng.randrange(1000), "return_acs": rng.random() < 0.5}
        res = run(spec)
        ln = gen_lines(spec, res)
        if ln is None:
            continue
        a = answer(res)
        yield {"line": ln, "impl": (lambda a=a: a), "nontrivial": False, "bucket": f"malformed/{kind}"}


def _guard(fn):
    def run_():
        try:
            return fn()
        except (ValueError, TypeError, IndexError, RuntimeError, AssertionError, ZeroDivisionError) as e:
            return "err " + err_name(e)
    return run_


def kernel_cases(ctx: Ctx):
    """`_reshape_and_add_coil_axis`, `_broadcast_mask`, the Gaussian kernels, the bisection wrapper,
    `build_masking_function` — compared with the model on labelled / scripted inputs."""
    import torch
    from direct.common import subsample as S
    from direct.common._gaussian import gaussian_mask_1d
    from direct.types import MaskFuncMode

    rng = ctx.rng
    # ---- _reshape_and_add_coil_axis
    for _ in range(ctx.budget(60, 600)):
        mode = rng.choice(G.MODES)
        rank = rng.choice([3, 4, 5, 6] if mode == "static" else [4, 5, 6])
        shape = [rng.choice([1, 2, 3]) for _ in range(rank - 3)] + [rng.choice([1, 2, 3, 5]), rng.choice([1, 2, 4, 7]), 2]
        F = shape[-4] if mode != "static" else 1
        kind = rng.random()
        if kind < 0.6:
            mshape = ([F] if (mode != "static" or rng.random() < 0.3) else []) + [shape[-3], shape[-2]]
        elif kind < 0.8:
            mshape = [F * shape[-3] * shape[-2]]
        else:
            mshape = [rng.choice([1, 2, 3]), shape[-3], shape[-2] + rng.choice([0, 1])]
        data = [rng.choice([0, 0, 1, 1, 2, -1]) for _ in range(int(np.prod(mshape)))]
        f = S.FastMRIRandomMaskFunc([4], [0.1], mode=MaskFuncMode(mode))
        arr = np.array(data, dtype=np.int64).reshape(mshape)
        inp = arr if rng.random() < 0.5 else torch.from_numpy(arr)

        def impl(f=f, inp=inp, shape=shape):
            t = f._reshape_and_add_coil_axis(inp, tuple(shape))
            assert t.dtype == torch.bool
            return "ok " + ints(t.shape) + " | " + ints(t.reshape(-1).int().tolist())
        yield {"line": line("reshape", [mid(mode)], shape, mshape, data), "impl": _guard(impl),
               "nontrivial": len(data) > 1, "bucket": f"kernel/reshape/{mode}"}
    # ---- _broadcast_mask
    for _ in range(ctx.budget(40, 400)):
        nd = rng.choice([1, 1, 2, 2, 3])
        mshape = [rng.choice([1, 2, 3]) for _ in range(nd - 1)] + [rng.choice([1, 2, 5, 8])]
        rows = rng.choice([1, 2, 3, 4])
        data = list(range(1, int(np.prod(mshape)) + 1))
        arr = np.array(data, dtype=np.int64).reshape(mshape)

        def impl(arr=arr, rows=rows):
            t = S.CartesianVerticalMaskFunc._broadcast_mask(arr, rows)
            return "ok " + ints(t.shape) + " | " + ints(t.reshape(-1).tolist())
        yield {"line": line("broadcast", [rows], mshape, data), "impl": _guard(impl), "nontrivial": nd < 3 and rows > 1,
               "bucket": f"kernel/broadcast/{nd}d"}
    # ---- gaussian_mask_1d against the model loop on the reconstructed libc stream (feasible requests only)
    for _ in range(ctx.budget(40, 400)):
        n = rng.choice(G.SIZES)
        base = [rng.random() < 0.3 for _ in range(n)]
        free = base.count(False)
        need = rng.randint(0, max(0, free - (0 if rng.random() < 0.2 else free // 3)))
        seed = rng.randrange(100000)
        std = 6 * np.sqrt(n // 2)
        cands, done = G.libc_candidates_1d(seed, n // 2, std, n, base, need)
        if not done:
            continue

        def impl(n=n, base=base, need=need, seed=seed, std=std, k=len(cands)):
            m = np.array(base, dtype=np.int64)
            gaussian_mask_1d(need - 1, n, n // 2, std, m, seed)
            return "ok " + ints(m.tolist()) + " | " + ints([0, k])
        yield {"line": line("gauss", [need], [int(b) for b in base], cands), "impl": _guard(impl), "nontrivial": need > 0,
               "bucket": "kernel/gaussian_mask_1d"}
    # ---- bisection wrapper with a scripted rasteriser
    for _ in range(ctx.budget(24, 400)):
        kind = rng.random()
        if kind < 0.7:
            script = [rng.choice([1, 2]) for _ in range(rng.randint(0, 30))] + [0]
        elif kind < 0.85:
            script = [rng.choice([1, 2]) for _ in range(rng.randint(0, 30))] + [rng.choice([1, 2])] * 70
        else:
            script = [rng.choice([1, 2])] * 5
        n = rng.choice([8, 16])
        res = run({"op": "bisect_script", "n": n, "acc": 4, "script": script})
        if res.get("ok"):
            a = "ok " + ints([res["calls"], int(res["slope"] * 2 ** 40)])
        else:
            a = answer(res)
        yield {"line": line("bisect", [n * 2 ** 40, 4000], script), "impl": (lambda a=a: a), "nontrivial": len(script) > 1,
               "bucket": "kernel/bisection/" + ("returns" if res.get("ok") else "raises")}
    # ---- k-t grid helpers (KtBaseMaskFunc static methods) and the CIRCUS perimeter ordering
    KB = S.KtBaseMaskFunc
    for _ in range(ctx.budget(60, 600)):
        row = rng.choice([1, 2, 3, 5, 8, 9, 12])
        idx = rng.randint(-2 * row, 6 * row)

        def impl(idx=idx, row=row):
            x, y = KB.linear_indices_to_2d_coordinates(np.array([idx]), row)
            return "ok " + ints([x[0], y[0]])
        yield {"line": line("linear2d", [idx, row]), "impl": _guard(impl), "nontrivial": row > 1, "bucket": "kernel/kt/linear2d"}
    for _ in range(ctx.budget(60, 600)):
        row, nrows = rng.choice([2, 3, 5, 8, 9]), rng.choice([1, 2, 3, 4])
        empties = sorted(rng.sample(range(1, row * nrows + 1), rng.randint(0, row * nrows)))
        target = rng.randint(0, row * nrows + 1)

        def impl(target=target, empties=empties, row=row):
            return "ok " + ints([KB.find_nearest_empty_location(float(target), np.array(empties, dtype=int), row)])
        same_row = [e for e in empties if -(-e // row) == -(-target // row)]
        yield {"line": line("nearest", [target, row], empties), "impl": _guard(impl), "nontrivial": len(same_row) > 1,
               "bucket": "kernel/kt/find_nearest/" + ("none" if not empties else "same-row" if same_row else "other-row")}
    for _ in range(ctx.budget(60, 600)):
        ny, nt = rng.choice([4, 5, 8, 9, 12, 13]), rng.choice([1, 2, 3, 4, 5])
        k = rng.randint(1, max(1, (ny * nt * 2) // 3))
        lo_p, lo_t = -((ny + 1) // 2) if rng.random() < 0.5 else -(ny // 2), -((nt + 1) // 2) if rng.random() < 0.5 else -(nt // 2)
        ph = [rng.randint(lo_p, ny // 2 - 1) for _ in range(k)]
        ti = [rng.randint(lo_t, max(lo_t, nt // 2 - 1)) for _ in range(k)]
        if rng.random() < 0.3:      # no duplicates at all
            seen, ph2, ti2 = set(), [], []
            for a, b in zip(ph, ti):
                if (a, b) not in seen:
                    seen.add((a, b)); ph2.append(a); ti2.append(b)
            ph, ti = ph2, ti2
        ndup = len(ph) - len(set(zip(ph, ti)))

        def impl(ph=ph, ti=ti, ny=ny, nt=nt):
            p, t = KB.resolve_duplicates_on_kt_grid(np.array(ph), np.array(ti), ny, nt)
            return "ok " + ints(p.tolist()) + " | " + ints(t.tolist())
        yield {"line": line("resolve", [ny, nt], ph, ti), "impl": _guard(impl), "nontrivial": ndup > 0,
               "bucket": "kernel/kt/resolve_duplicates/" + ("dups" if ndup else "nodup")}
    for side in ([2, 4, 6, 8, 10, 16] if not ctx.thorough else list(range(2, 41, 2))):
        for sq in range(side // 2):
            def impl(side=side, sq=sq):
                return "ok " + ints([v for rc in S.CIRCUSMaskFunc.get_square_ordered_idxs(side, sq) for v in rc])
            yield {"line": line("square", [side, sq]), "impl": _guard(impl), "nontrivial": side - 2 * sq > 2,
                   "bucket": "kernel/circus/square_ordered"}
    # ---- uniform_range=True
    for name in G.GENERATORS:
        res = run({"gen": name, "mode": "dynamic", "shape": [2, 9, 12, 2], "acc": 4, "cf": 3 if G.takes_count(name) else 0.1,
                   "seed": 5, "return_acs": False, "via_build": True, "extra": {"uniform_range": True}})
        a = "ok" if res.get("ok") else answer(res)
        yield {"line": line("call_uniform", [gid(name)]), "impl": (lambda a=a: a), "nontrivial": False,
               "bucket": "kernel/uniform_range"}
    # ---- build_masking_function: name -> class, kwargs filtering
    for name in G.GENERATORS:
        for mode in G.MODES:
            def impl(name=name, mode=mode):
                cf = [3] if G.takes_count(name) else [0.1]
                f = S.build_masking_function(name, [4], cf, True, MaskFuncMode(mode), crop_corner=True)
                assert type(f).__name__ == name + "MaskFunc"
                return "ok " + ints([int(f.center_fractions == cf), int(f.uniform_range is True), int(f.mode == MaskFuncMode(mode)),
                                     G.MODES.index(f.mode.value), int(getattr(f, "crop_corner", False) is True)])
            yield {"line": line("build", [gid(name), mid(mode)]), "impl": _guard(impl), "nontrivial": True,
                   "bucket": "kernel/build_masking_function"}


# --------------------------------------------------------------------------------------------------
# `_poisson.pyx` against Model/C04Poisson.lean
KERNEL_SIZES = [(8, 8), (9, 12), (12, 9), (16, 16), (8, 24), (24, 8), (13, 21), (16, 12), (11, 11), (10, 17)]
# (nx, ny, max_attempts, slope, seed): run through the bounds-checked .pyx front-end; the first four overrun the active
# lists (the last two of them are the `decide`d witnesses `poisson_current_overruns_fresh/_stale` of Props/C04.lean)
KERNEL_FRONTEND_CORPUS = [(8, 8, 30, 0.0, 2), (4, 4, 30, 0.0, 0), (1, 2, 1, 0.0, 233), (2, 2, 10, 0.0, 272), (8, 8, 10, 2.0, 1),
                          (9, 12, 10, 0.0, 4)]


def kernel_case(nx, ny, ma, slope, seed, frontend: bool, tables=None):
    rx, ry = tables if tables is not None else P.radii(nx, ny, slope)
    tr = P.trace(nx, ny, ma, rx, ry, seed)
    if tr["halt"] == "Timeout":
        return None
    spec = {"nx": nx, "ny": ny, "max_attempts": ma, "seed": seed}
    if tables is not None:
        spec["rx"], spec["ry"] = rx.reshape(-1).tolist(), ry.reshape(-1).tolist()
    else:
        spec["slope"] = slope
    if tr["halt"] == "IndexError" and not frontend:
        return None                   # never hand an overrunning call to the compiled kernel
    real = kernel_worker(frontend).run(spec, 60.0)
    if real.get("hang"):
        a = "err Timeout"
    elif not real.get("ok"):
        a = "err " + real.get("err", "Unknown")
    else:
        st = list(tr["stats"])
        st[0] = P.consumed_by_real(seed, real["next"], len(tr["draws"]))
        a = "ok " + ints(real["rows"]) + " | " + ints(st)
        if real.get("values") not in ([0], [1], [0, 1]):
            a = "err NonBooleanMask"
    return {"line": P.kernel_line(nx, ny, ma, rx, ry, tr), "impl": (lambda a=a: a), "nontrivial": tr["stats"][3] > 0 or bool(tr["halt"]),
            "bucket": "kernel/_poisson/" + ("frontend" if frontend else "compiled") + ("/tables" if tables is not None else "")
                      + ("/overrun" if tr["halt"] else "/stale" if tr["stats"][5] else "")}


def poisson_kernel_cases(ctx: Ctx):
    import math
    from fractions import Fraction

    rng = ctx.rng
    f32, f64 = np.float32, np.float64

    def rand_double():
        k = rng.random()
        if k < 0.2:
            return float(rng.randint(-4000, 4000))
        if k < 0.4:
            return math.ldexp(rng.randrange(1, 2 ** 53), rng.randint(-80, 10)) * rng.choice([1, -1])
        if k < 0.6:      # a float32 value plus / minus exactly half a float32 ulp: a tie for `round f32`
            b = float(f32(rng.uniform(0.001, 900)))
            return b + math.ldexp(1, math.frexp(b)[1] - 25) * rng.choice([1, -1])
        return rng.uniform(-100, 100) * 10 ** rng.randint(-12, 3)

    # ---- the IEEE operations of the model against numpy (correct rounding, ties to even)
    for _ in range(ctx.budget(80, 1200)):
        code, fmt = rng.choice([0, 1, 2, 3, 4]), rng.choice([32, 64])
        ty = f32 if fmt == 32 else f64
        if code == 0 and fmt == 64:
            m, e = rng.randrange(1, 2 ** rng.randint(54, 90)) * rng.choice([1, -1]), rng.randint(-120, 10)
            want = float(Fraction(m) * Fraction(2) ** e)
            x = y = None
            ln = line("fop", [0, 64], [m, e], [0, 0])
        else:
            x = rand_double() if (code == 0) else float(ty(rand_double()))
            y = float(ty(rand_double())) or 1.0
            with np.errstate(all="ignore"):
                want = float({0: lambda: ty(x), 1: lambda: ty(x) + ty(y), 2: lambda: ty(x) - ty(y), 3: lambda: ty(x) * ty(y),
                              4: lambda: ty(x) / ty(y)}[code]())
            ln = line("fop", [code, fmt], P.dy(x), P.dy(y))
        if not math.isfinite(want) or (want != 0 and abs(want) < 1e-30):
            continue
        a = "ok " + ints(P.dy(want))
        yield {"line": ln, "impl": (lambda a=a: a), "nontrivial": True, "bucket": f"kernel/ieee/{['round', 'add', 'sub', 'mul', 'div'][code]}{fmt}"}
    for _ in range(ctx.budget(20, 300)):
        x, y, n = rand_double(), rand_double(), rng.randint(0, 90)
        if rng.random() < 0.3:
            y = x
        a = "ok " + ints([int(x < y), int(x == y), int(x >= 0), int(x < n), int(x)])
        yield {"line": line("fcmp", P.dy(x), P.dy(y), [n]), "impl": (lambda a=a: a), "nontrivial": True, "bucket": "kernel/ieee/compare-trunc"}
    # ---- `random_uniform`, `randint`, `v`, `t` for one `rand()` value
    for r in [0, 1, 2, P.RAND_MAX - 1, P.RAND_MAX // 2] + [rng.randrange(P.RAND_MAX) for _ in range(ctx.budget(25, 400))]:
        upper = rng.choice([1, 2, 8, 64, 144, rng.randint(1, 6400)])
        u = float(r) / float(P.RAND_MAX)
        a = "ok " + " | ".join([ints(P.dy(u)), ints([int(u * upper)]), ints(P.dy(float(f32(u + 1.0)))),
                                ints(P.dy(float(f32((2.0 * math.pi) * u))))])
        yield {"line": line("prand", [r, upper]), "impl": (lambda a=a: a), "nontrivial": True, "bucket": "kernel/_poisson/randint-v-t"}
    # ---- whole kernel calls: compiled kernel on sampled inputs …
    n = 0
    want = ctx.budget(10, 150)
    while n < want:
        nx, ny = rng.choice(KERNEL_SIZES)
        slope = 0.0 if rng.random() < 0.25 else rng.uniform(0, max(nx, ny))
        ma = rng.choice([0, 1, 3, 5, 10, 10])
        tables = None
        if rng.random() < 0.25:      # arbitrary (anisotropic) radius tables >= 1
            tables = (np.array([[rng.uniform(1, 4) for _ in range(ny)] for _ in range(nx)]),
                      np.array([[rng.uniform(1, 4) for _ in range(ny)] for _ in range(nx)]))
        c = kernel_case(nx, ny, ma, slope, rng.randrange(100000), False, tables)
        n += 1
        if c is not None:
            yield c
    # ---- … and the fixed corpus through the bounds-checked front-end (active-list overruns included)
    for nx, ny, ma, slope, seed in KERNEL_FRONTEND_CORPUS:
        c = kernel_case(nx, ny, ma, slope, seed, True)
        if c is not None:
            yield c


# --------------------------------------------------------------------------------------------------
# axis-length coincidences: shapes in which two axes that play different roles have the same length
COINCIDENCES = ["frames==rows", "frames==cols", "rows==cols", "lead==rows", "all-equal"]


def coincidence_spec(rng, name: str, mode: str, cls: str):
    """a feasible case whose shape has the named coincidence (small sizes; the frame axis is shape[-4] in every mode,
    in static mode it is just another broadcast axis)"""
    small = name in ("VariableDensityPoisson", "KtRadial")
    a, b = rng.sample([8, 9, 10, 12] if small else [8, 9, 10, 12, 13, 16], 2)
    f = rng.choice([2, 3, 5])
    shape = {"frames==rows": [a, a, b, 2], "frames==cols": [b, a, b, 2], "rows==cols": [f, a, a, 2],
             "lead==rows": [a, f, a, b, 2], "all-equal": [a, a, a, a, 2] if rng.random() < 0.5 else [a, a, a, 2]}[cls]
    if rng.random() < 0.3 and cls in ("frames==rows", "frames==cols"):
        shape = [rng.choice([1, 2])] + shape                  # the same under a leading (batch / coil-like) axis
    pr = G.sample_params(rng, name, shape[-3], shape[-2], True)
    if pr is None:
        return None
    return {"gen": name, "mode": mode, "shape": shape, "acc": pr[0], "cf": pr[1], "seed": rng.randrange(2 ** 31),
            "return_acs": False}


def coincidence_cases(ctx: Ctx):
    """correspondence on coincidence shapes: the model builds every frame from its own recorded draws, so a pattern that
    is tiled along the wrong axis or shared between frames disagrees bit for bit"""
    rng = ctx.rng
    k = ctx.seed
    for name in G.GENERATORS:
        for mode in G.modes_of(name):
            classes = COINCIDENCES if ctx.thorough else [COINCIDENCES[(k + j) % len(COINCIDENCES)] for j in (0, 2)]
            k += 1
            for cls in classes:
                spec = coincidence_spec(rng, name, mode, cls)
                if spec is None:
                    continue
                res = run(spec)
                ln = gen_lines(spec, res)
                if ln is None:
                    continue
                a = answer(res)
                _SPEC_BY_LINE[ln] = spec
                yield {"line": ln, "impl": (lambda a=a: a), "nontrivial": res.get("ok", False),
                       "bucket": f"coincidence/{cls}/{name}/{mode}"}


_SPEC_BY_LINE: dict[str, dict] = {}      # protocol line of a generator case -> the real call it came from


def _describe_difference(spec: dict, impl: str, model: str) -> str:
    """which clause of the property the real mask departs from, given the model's mask for the same recorded draws"""
    if impl.startswith("err") or model.startswith("err"):
        return f"the real call gives `{impl[:60]}`, the recorded draws determine `{model[:60]}`"
    try:
        (ish, irows), (msh, mrows) = [[list(map(int, g.split())) for g in x[3:].split("|")] for x in (impl, model)]
    except ValueError:
        return "real mask and model mask differ"
    if ish != msh:
        return f"the real mask has shape {ish}, the documented geometry is {msh}"
    rows = spec["shape"][-3]
    bad = sorted({k // rows for k, (a, b) in enumerate(zip(irows, mrows)) if a != b})
    return (f"frame(s) {bad[:6]} of the real mask are not the pattern that the draws recorded for that frame determine "
            f"(pattern of frame t OR ACS, tiled over the rows): each frame must get its own pattern")


def search(ctx: Ctx, dis: list, lean):
    """failing-input search seeded with the correspondence disagreements: a real generator call whose mask is not the one the
    recorded draws determine (the model's theorems: frame t = pattern t OR acs, rows identical, documented shape) IS a
    concrete failing input — report it with the call as the replay"""
    seen = set()
    for d in dis:
        spec = _SPEC_BY_LINE.get(d.get("line"))
        if spec is None:
            continue
        key = f"mask-not-determined-by-its-draws-{spec['gen']}-" + ("acs" if spec.get("return_acs") else "mask")
        if key in seen:
            continue
        seen.add(key)
        yield Violation(key, f"{spec['gen']} ({spec['mode']}) shape {spec['shape']} seed {spec.get('seed')}: "
                        + _describe_difference(spec, d["impl"], d["model"]),
                        {"op": "model", "spec": spec, "observed": d["impl"][:400], "expected": d["model"][:400]})


def coincidence_oracle(ctx: Ctx, seen: set, deep: bool):
    """the documented geometry (shape, dtype, broadcast, identical rows of line masks) on every coincidence class, for every
    generator and mode, mask and ACS"""
    rng = ctx.rng
    for name in G.GENERATORS:
        for mode in G.modes_of(name):
            for cls in COINCIDENCES:
                for _ in range(3 if deep else 1):
                    spec = coincidence_spec(rng, name, mode, cls)
                    if spec is None:
                        continue
                    for racs in (False, True):
                        s = dict(spec, return_acs=racs)
                        res = run(s)
                        ctx.count(("coincidence", json.dumps(s, sort_keys=True)), bool(res.get("ok")),
                                  bucket=f"oracle/coincidence/{cls}/" + ("returned" if res.get("ok") else "hang" if res.get("hang")
                                                                          else "raised-" + str(res.get("err"))))
                        for key, what in check_geometry(s, res):
                            if key not in seen:
                                seen.add(key)
                                yield Violation(key, what + f" [shape {s['shape']}: {cls}]",
                                                {"op": "generator", "spec": s, "observed": {k2: res.get(k2) for k2 in
                                                                                             ("ok", "shape", "dtype", "err", "msg", "hang")}})
                        if not res.get("ok") and not res.get("hang") and not res.get("crash") and res.get("err") != "SkippedAfterHang":
                            documented = (name == "VariableDensityPoisson" and res.get("err") == "ValueError"
                                          and "Cannot generate mask" in res.get("msg", ""))
                            if not documented:
                                key = f"raises-{name}-{res.get('err')}"
                                if key not in seen:
                                    seen.add(key)
                                    yield Violation(key, f"{name} raises {res.get('err')}: {res.get('msg')} for a feasible pair "
                                                    f"[shape {s['shape']}: {cls}]",
                                                    {"op": "generator", "spec": s, "observed": res.get("err"), "msg": res.get("msg")})


def correspondence(ctx: Ctx):
    _kernel_budget["left"] = ctx.budget(5, 120)
    yield from kernel_cases(ctx)
    yield from poisson_kernel_cases(ctx)
    yield from generator_cases(ctx, ctx.budget(9, 240), acs=False)
    yield from malformed_cases(ctx, ctx.budget(40, 800))
    yield from coincidence_cases(ctx)


# --------------------------------------------------------------------------------------------------
def expected_shape(mode: str, shape) -> list[int]:
    s = [1] * len(shape)
    s[-2], s[-3] = shape[-2], shape[-3]
    if mode != "static":
        s[-4] = shape[-4]
    return [1] + s


def check_geometry(spec: dict, res: dict):
    """C04 stated on one real result; yields (key, what)"""
    name, mode, shape = spec["gen"], spec["mode"], spec["shape"]
    tag = "acs" if spec.get("return_acs") else "mask"
    if res.get("hang"):
        yield f"hang-{name}", f"{name} ({mode}) did not return within {res['timeout']} s"
        return
    if not res.get("ok"):
        return
    if res["dtype"] != "torch.bool":
        yield f"dtype-{name}-{tag}", f"{name} returns dtype {res['dtype']}, not torch.bool"
    exp = expected_shape(mode, shape)
    if res["shape"] != exp:
        yield f"shape-{name}-{tag}", f"{name} ({mode}) returns shape {res['shape']}, documented geometry is {exp}"
        return
    try:
        import torch

        ok = list(torch.broadcast_shapes(tuple(res["shape"]), (5, *shape))) == [5, *shape]
    except RuntimeError:
        ok = False
    if not ok:
        yield f"broadcast-{name}-{tag}", f"{name} mask of shape {res['shape']} does not broadcast against (coil, *{shape})"
    rows = shape[-3]
    F = frames_of(mode, shape)
    packed = res["rows"]
    if packed is None or len(packed) != F * rows:
        yield f"shape-{name}-{tag}", f"{name} returns {res['shape']}: not frames x rows x cols"
        return
    if G.FAMILY[name] in ("line", "ktline"):
        for f in range(F):
            fr = packed[f * rows:(f + 1) * rows]
            if any(r != fr[0] for r in fr):
                yield f"rows-differ-{name}-{tag}", f"{name} ({mode}) frame {f}: rows of a line mask differ"
                break


# --------------------------------------------------------------------------------------------------
# argument forms, call histories on one instance, the real call sites
_sites_worker: G.Worker | None = None


def sites_worker() -> G.Worker:
    global _sites_worker
    if _sites_worker is None:
        _sites_worker = G.Worker("props.c04_sites", "run")
        atexit.register(_sites_worker.close)
    return _sites_worker


def _same(a: dict, b: dict) -> bool:
    if not a.get("ok") or not b.get("ok"):
        return a.get("ok") == b.get("ok") and a.get("err") == b.get("err")
    return (a["shape"], a["dtype"], a["sha"]) == (b["shape"], b["dtype"], b["sha"])


def small_spec(rng, name: str, one_frame: bool = False):
    mode = rng.choice(G.modes_of(name))
    spec = G.sample_case(rng, name, mode=mode, small=True, options=0.3)
    if spec is None:
        return None
    if name in ("VariableDensityPoisson", "KtRadial"):
        spec.get("extra", {}).pop("max_attempts", None)
    if one_frame and mode != "static" and len(spec["shape"]) >= 4:
        spec["shape"][-4] = 1                      # a single frame / slice: the `.squeeze()` paths
    return spec


def history_calls(rng, spec: dict) -> list[dict]:
    """a call sequence for one object in which consecutive calls share some but not all of
    (seed, rank, rows, cols, frames, return_acs)"""
    shape, seed = list(spec["shape"]), spec["seed"]
    other_seed = rng.randrange(2 ** 31) if isinstance(seed, list) else [rng.randrange(256) for _ in range(3)]

    def frames(sh, d):
        t = list(sh)
        t[-4] = max(1, t[-4] + d) if max(1, t[-4] + d) != t[-4] else t[-4] + 1
        return t

    swapped = list(shape)
    swapped[-3], swapped[-2] = shape[-2], shape[-3]
    longer = [2] + shape if len(shape) == 4 else shape[1:]
    seq = [
        (shape, seed, False, "first call"),
        (frames(shape, +2), seed, False, "same seed, rank, rows, cols - two more frames / slices"),
        (shape, seed, True, "same shape and seed - return_acs toggled"),
        (frames(shape, -1), seed, True, "same seed, rank, rows, cols - one frame / slice fewer, ACS"),
        (swapped, seed, False, "same seed, rank, frames - rows and cols swapped"),
        (longer, seed, False, "same seed, rows, cols, frames - other rank"),
        (shape, other_seed, False, "same shape - other seed"),
        (frames(shape, +1), other_seed, rng.random() < 0.5, "other seed, one more frame"),
        (shape, seed, False, "exact repeat of the first call"),
        (frames(shape, +2), seed, False, "exact repeat of the second call"),
    ]
    return [{"shape": sh, "seed": sd, "return_acs": ra, "why": why} for sh, sd, ra, why in seq]


def forms_sites_oracle(ctx: Ctx, seen: set, deep: bool):
    """every accepted argument form gives the same mask; a reused instance gives the mask of a fresh one whatever
    shapes it served before; the real callers (CreateSamplingMask, apply_mask, config-driven construction) obtain the
    mask of the documented geometry"""
    rng = ctx.rng
    reps = ctx.budget(1, 6) * (2 if deep else 1)
    for name in G.GENERATORS:
        for k in range(reps):
            spec = small_spec(rng, name, one_frame=(k % 2 == 1) or rng.random() < 0.3)
            if spec is None:
                continue
            spec["return_acs"] = rng.random() < 0.3
            # ---- forms
            r = sites_worker().run(dict(spec, kind="forms"), 90.0)
            if r.get("hang") or not r.get("ok"):
                ctx.count(("forms", name, k), False, bucket="oracle/forms/" + ("hang" if r.get("hang") else "harness-error"))
                if r.get("hang"):
                    key = f"hang-{name}"
                    if key not in seen:
                        seen.add(key)
                        yield Violation(key, f"{name}: a call in one of the argument forms did not return",
                                        {"op": "forms", "spec": spec, "observed": "hang"})
                continue
            base = r["forms"]["tuple/pos"]
            ctx.count(("forms", json.dumps(spec, sort_keys=True)), bool(base.get("ok")),
                      bucket=f"oracle/forms/{name}/" + ("returned" if base.get("ok") else "raised-" + str(base.get("err"))))
            if base.get("ok") and base["shape"] != expected_shape(spec["mode"], spec["shape"]):
                key = f"shape-{name}-" + ("acs" if spec["return_acs"] else "mask")
                if key not in seen:
                    seen.add(key)
                    yield Violation(key, f"{name} ({spec['mode']}) returns shape {base['shape']} for {spec['shape']}",
                                    {"op": "forms", "spec": spec, "form": "tuple/pos", "observed": base})
            for form, d in r["forms"].items():
                if form == "circus-unknown-scheme":
                    key = f"unknown-scheme-accepted-{name}"
                    if key not in seen:
                        seen.add(key)
                        yield Violation(key, "CIRCUSMaskFunc(subsampling_scheme='circus-zigzag') does not raise the documented "
                                        f"NotImplementedError: {d}", {"op": "forms", "spec": spec, "form": form, "observed": d})
                    continue
                if not _same(d, base):
                    key = f"argument-form-{name}-{form.split('/')[0]}"
                    if key not in seen:
                        seen.add(key)
                        yield Violation(key, f"{name}: called with {form} gives {d.get('shape') or d.get('err')}, "
                                        f"with a tuple {base.get('shape') or base.get('err')} (same seed)",
                                        {"op": "forms", "spec": spec, "form": form, "observed": d, "expected": base})
        # ---- histories on one instance (every mode): consecutive calls share some but not all of
        #      (seed, rank, rows, cols, frames, return_acs); each answer must be the answer of a fresh instance
        for mode in G.modes_of(name):
            spec = None
            for _ in range(4):
                spec = G.sample_case(rng, name, mode=mode, small=True, rank=rng.choice([4, 5]))
                if spec is not None and spec["shape"][-3] != spec["shape"][-2]:
                    break
            if spec is None:
                continue
            calls = history_calls(rng, spec)
            r = sites_worker().run(dict(spec, kind="history", calls=calls), 180.0)
            ctx.count(("history", json.dumps([spec, calls], sort_keys=True)), bool(r.get("ok")),
                      bucket=f"oracle/history/{name}/{mode}" + ("" if r.get("ok") else "/hang" if r.get("hang") else "/error"))
            if not r.get("ok"):
                continue
            for k, (c, pair) in enumerate(zip(calls, r["calls"])):
                exp = expected_shape(mode, c["shape"])
                bad_hist = not _same(pair["fresh"], pair["reused"])
                bad_shape = pair["reused"].get("ok") and pair["reused"]["shape"] != exp
                if bad_hist or bad_shape:
                    key = f"history-dependent-{name}" if bad_hist else f"shape-{name}-" + ("acs" if c["return_acs"] else "mask")
                    if key not in seen:
                        seen.add(key)
                        yield Violation(key, f"{name} ({mode}): call {k} of a history on one object, shape {c['shape']} seed {c['seed']} "
                                        f"return_acs={c['return_acs']} ({c['why']}), returns {pair['reused'].get('shape') or pair['reused'].get('err')}"
                                        f" (count {pair['reused'].get('count')}); a fresh object returns "
                                        f"{pair['fresh'].get('shape') or pair['fresh'].get('err')} (count {pair['fresh'].get('count')}); "
                                        f"documented geometry {exp}",
                                        {"op": "history", "spec": spec, "calls": calls[:k + 1], "observed": pair["reused"],
                                         "expected": pair["fresh"]})
                    break
        # ---- edge seeds (every mode): 0, 1, around 2**31 and 2**32, numpy integers, tuples / lists with large entries, for the
        #      mask and the ACS request: a mask of the contract shape, or ValueError for a seed the generator rejects — never
        #      another exception
        for mode in G.modes_of(name):
            spec = None
            for _ in range(20):
                c = G.sample_case(rng, name, mode=mode, small=True, rank=4)
                if c is not None and c["shape"][-4] >= 2 and (name not in ("VariableDensityPoisson", "KtRadial")
                                                               or max(c["shape"][-3:-1]) <= 13):
                    spec = c
                    break
            if spec is None:
                continue
            spec.pop("extra", None)
            r = sites_worker().run(dict(spec, kind="seeds"), 240.0)
            ctx.count(("seeds", json.dumps(spec, sort_keys=True)), bool(r.get("ok")),
                      bucket=f"oracle/edge-seeds/{name}/{mode}" + ("" if r.get("ok") else "/hang" if r.get("hang") else "/error"))
            if r.get("hang"):
                key = f"hang-{name}"
                if key not in seen:
                    seen.add(key)
                    yield Violation(key, f"{name} ({mode}): a call with an edge seed did not return",
                                    {"op": "seeds", "spec": spec, "observed": "hang"})
                continue
            if not r.get("ok"):
                continue
            exp = expected_shape(mode, spec["shape"])
            for item in r["seeds"]:
                res = item["res"]
                good = (res.get("ok") and res["shape"] == exp and res["dtype"] == "torch.bool") or \
                       (not res.get("ok") and res.get("err") == "ValueError")
                if not good:
                    key = f"edge-seed-{name}-" + (res.get("err") or "shape")
                    if key not in seen:
                        seen.add(key)
                        yield Violation(key, f"{name} ({mode}) shape {spec['shape']} seed {item['seed']} return_acs={item['return_acs']}: "
                                        f"{res.get('err') or res.get('shape')}: {res.get('msg', '')} — expected a mask of shape {exp} "
                                        "or ValueError for a rejected seed",
                                        {"op": "seeds", "spec": spec, "seed": item["seed"], "return_acs": item["return_acs"],
                                         "observed": res})
        # ---- call sites
        spec = small_spec(rng, name, one_frame=rng.random() < 0.3)
        if spec is not None:
            r = sites_worker().run(dict(spec, kind="site"), 120.0)
            ctx.count(("site", json.dumps(spec, sort_keys=True)), bool(r.get("ok")), bucket=f"oracle/call-sites/{name}")
            if r.get("ok"):
                st = r["sites"]
                d0 = st["direct"]
                for site in ("create/sampling_mask", "create-partial-shape", "apply_mask/mask", "config-build"):
                    if site in st and not _same(st[site], d0):
                        key = f"call-site-{name}-{site.split('/')[0]}"
                        if key not in seen:
                            seen.add(key)
                            yield Violation(key, f"{name}: through {site} the mask is {st[site].get('shape') or st[site].get('err')}, "
                                            f"called directly {d0.get('shape') or d0.get('err')}",
                                            {"op": "site", "spec": spec, "site": site, "observed": st[site], "expected": d0})
                if "class-no-mode" in st and not _same(st["config-build-no-mode"], st["class-no-mode"]):
                    key = f"call-site-{name}-config-build-no-mode"
                    if key not in seen:
                        seen.add(key)
                        a, b = st["config-build-no-mode"], st["class-no-mode"]
                        yield Violation(key, f"{name}: build_masking_function('{name}', …) without a mode gives "
                                        f"{a.get('shape') or (a.get('err'), a.get('msg'))}, {name}MaskFunc(…) without a mode "
                                        f"{b.get('shape') or b.get('err')} for shape {spec['shape']}",
                                        {"op": "site", "spec": spec, "site": "config-build-no-mode", "observed": a, "expected": b})
                acs = st.get("create/acs_mask")
                if d0.get("ok") and acs is not None and (not acs.get("ok") or acs["shape"] != d0["shape"] or acs["dtype"] != "torch.bool"
                                                          or st.get("create/broadcasts") is False or st.get("apply_mask/masked-ok") is False):
                    key = f"call-site-{name}-acs"
                    if key not in seen:
                        seen.add(key)
                        yield Violation(key, f"{name}: CreateSamplingMask(return_acs=True) gives acs_mask {acs}, mask {d0}",
                                        {"op": "site", "spec": spec, "site": "create/acs_mask", "observed": acs, "expected": d0})


def oracle(ctx: Ctx, deep: bool = False):
    """The property stated directly on the implementation (independent of the model)."""
    rng = ctx.rng
    per_gen = ctx.budget(12, 300) * (3 if deep else 1)
    seen = set()
    for name in G.GENERATORS:
        modes = G.modes_of(name)
        for k in range(per_gen):
            mode = modes[k % len(modes)]
            feas = rng.random() < 0.85
            spec = G.sample_case(rng, name, mode=mode, feasible_only=feas, multi=0.25, options=0.4)
            if spec is None:
                continue
            if name in ("Radial", "Spiral") and rng.random() < 0.3 and not isinstance(spec["acc"], list):
                spec["cf"] = None
            for racs in (False, True):
                s = dict(spec, return_acs=racs)
                res = run(s)
                ctx.count(("oracle", json.dumps(s, sort_keys=True)), bool(res.get("ok")),
                          bucket=f"oracle/{name}/" + ("feasible" if feas else "infeasible") + "/"
                                 + ("returned" if res.get("ok") else "hang" if res.get("hang") else "crash" if res.get("crash")
                                    else "raised-" + res.get("err", "?")))
                for key, what in check_geometry(s, res):
                    if key not in seen:
                        seen.add(key)
                        yield Violation(key, what, {"op": "generator", "spec": s, "observed": {k2: res.get(k2) for k2 in
                                                                                              ("ok", "shape", "dtype", "err", "msg", "hang")}})
                if feas and not res.get("ok") and not res.get("hang") and not res.get("crash") and res.get("err") != "SkippedAfterHang":
                    documented = (name == "VariableDensityPoisson" and res.get("err") == "ValueError"
                                  and "Cannot generate mask" in res.get("msg", ""))
                    if not documented:
                        key = f"raises-{name}-{res.get('err')}"
                        if key not in seen:
                            seen.add(key)
                            yield Violation(key, f"{name} raises {res.get('err')}: {res.get('msg')} for a feasible pair",
                                            {"op": "generator", "spec": s, "observed": res.get("err"), "msg": res.get("msg")})
    # uniform_range=True is documented as not implemented: NotImplementedError wherever the option exists
    for name in G.GENERATORS:
        for via in (False, True):
            if name == "VariableDensityPoisson" and not via:
                continue          # the constructor has no such parameter; build_masking_function filters it out
            mode = "dynamic" if G.is_kt(name) else rng.choice(G.MODES)
            s = {"gen": name, "mode": mode, "shape": [2, 9, 12, 2], "acc": 4, "cf": 3 if G.takes_count(name) else 0.1, "seed": 5,
                 "return_acs": False, "via_build": via, "extra": {"uniform_range": True}}
            res = run(s)
            want = "ok" if name == "VariableDensityPoisson" else "NotImplementedError"
            got = "ok" if res.get("ok") else res.get("err")
            ctx.count(("uniform_range", name, via), False, bucket=f"oracle/uniform_range/{got}")
            if got != want and not res.get("hang"):
                key = f"uniform-range-{name}"
                if key not in seen:
                    seen.add(key)
                    yield Violation(key, f"{name}(uniform_range=True{', via build_masking_function' if via else ''}): {got}, "
                                    f"documented: {want}", {"op": "generator", "spec": s, "observed": got})
    # `_poisson` kernel memory safety (bounds-checked front-end): the corpus case of the known active-list overrun
    # (12x12, max_attempts=30) and whatever the sampled option cases hit
    run({"gen": "VariableDensityPoisson", "mode": "static", "shape": [12, 12, 2], "acc": 2, "cf": 0.1, "seed": 2,
         "return_acs": False, "extra": {"max_attempts": 30}})
    ctx.count(("poisson-overrun-corpus",), True, bucket="oracle/poisson-kernel/bounds-checked")
    # default options on clearly non-square k-spaces, both orders, bounds-checked and compiled: must return (or raise
    # the documented ValueError), never overrun the active lists
    for shape, mode in (([16, 48, 2], "static"), ([48, 16, 2], "static"), ([24, 8, 2], "static"), ([2, 24, 64, 2], "dynamic")):
        for fe in (True, False):
            s = {"gen": "VariableDensityPoisson", "mode": mode, "shape": shape, "acc": 4, "cf": 0.08, "seed": 3, "return_acs": False}
            if fe:
                s["frontend"] = True
            res = run(s)
            ctx.count(("poisson-nonsquare", tuple(shape), fe), True, bucket="oracle/poisson-kernel/non-square/" +
                      ("crash" if res.get("crash") else "returned" if res.get("ok") else str(res.get("err"))))
            if not fe:
                for key, what in check_geometry(s, res):
                    if key not in seen:
                        seen.add(key)
                        yield Violation(key, what, {"op": "generator", "spec": s})
    # the bisection wrapper driven by a rasteriser whose acceleration crosses the target at a slope that is
    # not a float: the tolerance band is never met, the documented ValueError must be raised (no hang)
    for thr in (16 / 3, 0.1, 7.3):
        res = run({"op": "bisect_script", "n": 8, "acc": 4, "script": [], "threshold": thr})
        ctx.count(("bisect-threshold", thr), True, bucket="oracle/bisection-unreachable/" +
                  ("hang" if res.get("hang") else res.get("err", "returned")))
        if res.get("err") == "SkippedAfterHang":
            continue
        if res.get("hang") or res.get("ok") or res.get("err") != "ValueError":
            key = "hang-bisection-wrapper" if res.get("hang") else "bisection-wrapper-no-error"
            if key not in seen:
                seen.add(key)
                yield Violation(key, "VariableDensityPoissonMaskFunc.poisson with an unreachable tolerance: "
                                + ("did not return" if res.get("hang") else f"{res.get('err', 'returned a mask')}"),
                                {"op": "bisect-threshold", "threshold": thr, "observed": "hang" if res.get("hang") else res.get("err", "returned")})
    # rank errors: documented ValueError
    for name in G.GENERATORS:
        for mode in G.modes_of(name):
            for shape in ([12, 2], [9, 12, 2], [1, 2, 3, 9, 12, 2]):
                s = {"gen": name, "mode": mode, "shape": shape, "acc": 4, "cf": 3 if G.takes_count(name) else 0.1, "seed": 1,
                     "return_acs": False}
                must_raise = len(shape) < 3 or (mode != "static" and len(shape) < 4) or (G.is_kt(name) and len(shape) not in (4, 5))
                res = run(s)
                if res.get("err") == "SkippedAfterHang":
                    continue
                ctx.count(("rank", name, mode, len(shape)), False, bucket="oracle/rank-" + ("reject" if must_raise else "accept"))
                if must_raise and (res.get("ok") or res.get("err") != "ValueError"):
                    key = f"rank-check-{name}"
                    if key not in seen:
                        seen.add(key)
                        yield Violation(key, f"{name} ({mode}) accepts / mis-rejects a shape of rank {len(shape)}: "
                                        f"{'returned' if res.get('ok') else res.get('err')}",
                                        {"op": "generator", "spec": s, "observed": res.get("err", "returned")})
                if not must_raise:
                    for key, what in check_geometry(s, res):
                        if key not in seen:
                            seen.add(key)
                            yield Violation(key, what, {"op": "generator", "spec": s})
    yield from forms_sites_oracle(ctx, seen, deep)
    yield from coincidence_oracle(ctx, seen, deep)
    yield from hang_violations(seen)
    if _worker is not None:
        ctx.notes.append(f"watchdog worker: spawned {_worker.spawned}x, hangs {_worker.hangs}")


def replay(rep: dict) -> bool:
    """Re-run a recorded failing case on the implementation; True when it still fails."""
    if rep.get("op") == "crash":
        s = rep["spec"]
        w_, to_, _ = route(s)
        r = w_.run(s, to_)
        return bool(r.get("died") or (r.get("err") == "IndexError" and "out of bounds" in r.get("msg", "")))
    if rep.get("op") == "hang":
        return bool(worker().run(rep["spec"], TIMEOUT).get("hang"))
    if rep.get("op") == "bisect-threshold":
        res = worker().run({"op": "bisect_script", "n": 8, "acc": 4, "script": [], "threshold": rep["threshold"]}, TIMEOUT)
        return bool(res.get("hang") or res.get("ok") or res.get("err") != "ValueError")
    if rep.get("op") == "forms":
        r = sites_worker().run(dict(rep["spec"], kind="forms"), 90.0)
        if not r.get("ok"):
            return True
        d, base = r["forms"].get(rep["form"], {}), r["forms"]["tuple/pos"]
        return (not _same(d, base)) or (base.get("ok") and base["shape"] != expected_shape(rep["spec"]["mode"], rep["spec"]["shape"]))
    if rep.get("op") == "model":
        import core

        s = rep["spec"]
        w_, to_, _ = route(s)
        res = w_.run(s, to_)
        _kernel_budget["left"] = 1
        ln = gen_lines(s, res)
        if ln is None:
            return True
        return core.run_driver(PROP, [ln])[0].strip() != answer(res).strip()
    if rep.get("op") == "seeds":
        r = sites_worker().run(dict(rep["spec"], kind="seeds", ladder=[rep["seed"]] if "seed" in rep else None), 240.0) \
            if "seed" in rep else sites_worker().run(dict(rep["spec"], kind="seeds"), 240.0)
        if not r.get("ok"):
            return True
        exp = expected_shape(rep["spec"]["mode"], rep["spec"]["shape"])
        for item in r["seeds"]:
            res = item["res"]
            if "return_acs" in rep and item["return_acs"] != rep["return_acs"]:
                continue
            if not ((res.get("ok") and res["shape"] == exp) or (not res.get("ok") and res.get("err") == "ValueError")):
                return True
        return False
    if rep.get("op") == "history":
        r = sites_worker().run(dict(rep["spec"], kind="history", calls=rep["calls"]), 180.0)
        if not r.get("ok"):
            return True
        last, c = r["calls"][-1], rep["calls"][-1]
        return (not _same(last["fresh"], last["reused"])) or bool(
            last["reused"].get("ok") and last["reused"]["shape"] != expected_shape(rep["spec"]["mode"], c["shape"]))
    if rep.get("op") == "site":
        r = sites_worker().run(dict(rep["spec"], kind="site"), 120.0)
        if not r.get("ok"):
            return True
        st = r["sites"]
        if rep["site"] == "create/acs_mask":
            a, d0 = st.get("create/acs_mask", {}), st["direct"]
            return bool(d0.get("ok") and (not a.get("ok") or a["shape"] != d0["shape"] or a["dtype"] != "torch.bool"))
        if rep["site"] == "config-build-no-mode":
            return not _same(st.get("config-build-no-mode", {}), st.get("class-no-mode", {}))
        return not _same(st.get(rep["site"], {}), st["direct"])
    if rep.get("op") == "generator":
        s = rep["spec"]
        res = worker().run(s, TIMEOUT)
        if list(check_geometry(s, res)):
            return True
        obs = rep.get("observed")
        if isinstance(obs, str):
            return (res.get("err", "returned") == obs)
        return False
    return True
