"""C01 — Fourier operators are exact inverse pairs and equal the reference DFT; shift helpers are mutual inverses."""
from __future__ import annotations

import itertools
import math

import boot  # noqa: F401
import numpy as np
import torch

import core
from core import Ctx, Violation, err_name, line, ok_tensor, tensor_groups

PROP = "C01"
MANIFEST = {
    "text": "Lean 4 theorems for every axis length and element type: roll_one_dim has the index form x[(i - s) mod n], equals the "
            "numpy roll, composes additively; fftshift/ifftshift are mutual inverses and are numpy's shifts for odd and even "
            "lengths, on one axis and (lifted through the Tensor.alongAxis the driver runs) on every duplicate-free axis tuple "
            "of a well-formed tensor; fft2/ifft2 (the interpreted, translator-regenerated call plan ifftshift -> (i)fftn(norm) -> "
            "fftshift with its centered/normalized/complex_input guards) are mutual inverses for all 8 flag combinations on one "
            "axis, over abstract per-axis operators, and on the tensor backend the driver runs; they preserve energy when "
            "normalised; with Mathlib's ZMod.dft as the per-axis transform the pair is an inverse pair and an isometry without "
            "further hypotheses and the centred transform is the textbook shifted DFT scale * sum_j x_j w^(-(k-c)(j-c)), c = n div 2; "
            "liftings of linear per-fibre maps along different axes commute (alongAxis_comm_linear), so for the concrete n-D "
            "transform (per-axis ZMod DFT lifted through the alongAxis the driver runs) ifft2(fft2 x) = x = fft2(ifft2 x) and the "
            "Parseval identity hold on every well-formed complex tensor, every duplicate-free axis tuple, all flags, with no "
            "hypothesis left (ifft2_fft2_id_tensor_dft, fft2_energy_tensor_dft). "
            "Tied to the code by translated shift amounts / narrow offsets / cat order / call plan (bridge lemmas) and by "
            "differential correspondence (exact on labelled tensors for the shifts; symbolic root-of-unity answers vs torch "
            "under 1e-5 for fft2/ifft2 on basis tensors).",
    "note": "Trusted: Lean kernel (+propext, Classical.choice, Quot.sound), the AST translator, and ONE assumption about the external "
            "transform: torch.fft.fftn/ifftn(x, dim=dims, norm) is the composition of the 1-D DFTs along the axes of dims with the "
            "per-axis scale of the norm (checked on every run by the oracle against sequential 1-D ffts and the explicit DFT "
            "matrix for all four norm values, and on every basis-vector class by the correspondence). Everything else about the "
            "transform (inverse pair, isometry, commutation across axes) is proved for the Mathlib DFT. Call sites: operators are "
            "also exercised as the engines obtain them (str_to_class / build_operators on every operator string of the shipped "
            "YAMLs and DefaultConfig, dim literals of the model classes, tuple and list) and on strided / permuted / offset / "
            "expanded views (same result, input untouched, no aliasing). Float32 rounding is outside the theorems (tolerances "
            "1e-5/1e-4). The multi-index sum is proved for an axis pair (fft2_two_axes_sum: entry (k,l) = sum_x sum_y W_a(k,x) "
            "W_b(l,y) t(x,y), W the centred DFT matrix); for three axes it is the per-axis composition (alongAxis_comm_linear), "
            "not restated as a triple sum.",
    "technique": "Lean 4 proof (list/index arithmetic, plan interpretation, alongAxis lifting, Mathlib ZMod.dft) + AST translation "
                 "bridge + differential correspondence + property oracle",
}
TRUSTED = [
    "Lean 4.33 kernel; axioms ⊆ {propext, Classical.choice, Quot.sound}",
    "harness/translate (Python AST -> Lean): shift amounts, roll_one_dim `%`/narrow windows/cat order, fft2/ifft2 call plan",
    "Tensor.alongAxis (row-major lifting of 1-D list functions to one axis) — validated by correspondence, not proved",
    "torch.fft.fftn/ifftn = per-axis DFT / inverse DFT with norm in {ortho, backward}: assumed (hypotheses `inv_fwd`, "
    "`fwd_inv`, isometry); probed by basis tensors against the exact symbolic answer and against numpy",
    "torch narrow/cat/view_as_complex/view_as_real index semantics as encoded by drop/take/++ and the identity view",
]
ASSUMPTIONS = [
    "shift correspondence uses integer labels (exact); fft2/ifft2 correspondence compares the model's exact monomial "
    "sqrt(num/den)*exp(-2*pi*i*E/L) with torch under atol 1e-5 on unit impulses",
    "oracle tolerances: inverse pair atol 1e-4 on integer-valued tensors in [-8, 8]; energy rtol 1e-4; numpy reference atol 1e-4",
    "empty axes (length 0) are outside the property (the code raises ZeroDivisionError when centred)",
]
RULE = ("shift cases: arange-labelled tensors of rank 1-6, lengths from {1,2,3,4,5,6,7,9,12}, every axis subset; non-trivial = "
        "some shifted axis has length >= 2 (bucket says whether an odd length >= 3 is shifted). fft cases: unit impulses "
        "(real or imaginary component) in tensors of rank 2-6, every axis pair/triple, all 8 flag combinations, both "
        "directions; non-trivial = at least one transformed axis of length >= 2; error cases counted in bucket fft/err-*. "
        "distinct = distinct protocol line / oracle case key")
PENDING_FINDINGS: list[str] = []
# n-D corollaries (lifting of the 1-D theorems through Tensor.alongAxis) are obligations of this check too
EXTRA_LEAN_MODULES = ["DirectVerif.Lemmas.TensorLiftC01", "DirectVerif.Lemmas.C01Dft", "DirectVerif.Lemmas.C01Linear",
                      "DirectVerif.Lemmas.C01DftND", "DirectVerif.Lemmas.C01Validate", "DirectVerif.Lemmas.C01Sum"]

LENS = [1, 2, 3, 4, 5, 6, 7, 9, 12]


def _prod(s):
    p = 1
    for v in s:
        p *= v
    return p


def _shape(rng, rank, cap, need_odd_even=True):
    """axis lengths from LENS, product <= cap, with (when possible) an odd length >= 3 and an even one"""
    best = None
    for _ in range(400):
        s = [rng.choice(LENS) for _ in range(rank)]
        if _prod(s) > cap:
            continue
        has_odd = any(v % 2 == 1 and v >= 3 for v in s)
        has_even = any(v % 2 == 0 for v in s)
        if not need_odd_even or rank == 1 or (has_odd and has_even):
            return s
        best = s
    if best is not None:
        return best
    s = [rng.choice([1, 2, 3]) for _ in range(rank)]
    while _prod(s) > cap:
        s[s.index(max(s))] = 1
    return s


def _arange(shape):
    return torch.arange(_prod(shape), dtype=torch.float32).reshape(shape) + 1


def _impl_t(fn):
    def run():
        try:
            return ok_tensor(fn())
        except (ValueError, TypeError, IndexError, RuntimeError, AssertionError, ZeroDivisionError) as e:
            return "err " + err_name(e)
    return run


# --------------------------------------------------------------------------------------------------
def correspondence(ctx: Ctx):
    """roll / fftshift / ifftshift: exact, through the line protocol"""
    import direct.data.transforms as T

    rng = ctx.rng
    cap = 700
    reps = ctx.budget(2, 30)
    for _ in range(reps):
        for rank in range(1, 7):
            shape = _shape(rng, rank, cap)
            x = _arange(shape)
            sh, d = tensor_groups(x)
            axes = list(range(rank))
            subsets = [list(c) for k in range(0, rank + 1) for c in itertools.combinations(axes, k)]
            for dims in subsets:
                if rng.random() < 0.3:
                    dims = dims[:]
                    rng.shuffle(dims)
                odd = any(shape[a] % 2 == 1 and shape[a] >= 3 for a in dims)
                nt = any(shape[a] >= 2 for a in dims)
                for op, fn in (("fftshift", T.fftshift), ("ifftshift", T.ifftshift)):
                    yield {"line": line(op, sh, d, dims), "impl": _impl_t(lambda x=x, dims=dims, fn=fn: fn(x, dim=list(dims))),
                           "nontrivial": nt, "bucket": f"{op}/r{rank}/" + ("odd" if odd else "even" if nt else "trivial")}
            # dim=None means every axis
            for op, fn in (("fftshift", T.fftshift), ("ifftshift", T.ifftshift)):
                yield {"line": line(op, sh, d, axes), "impl": _impl_t(lambda x=x, fn=fn: fn(x)),
                       "nontrivial": max(shape) >= 2, "bucket": f"{op}/r{rank}/dim=None"}
    # roll with arbitrary (negative, > n, zero) shifts
    for _ in range(ctx.budget(90, 5000)):
        rank = rng.randint(1, 6)
        shape = _shape(rng, rank, 500, need_odd_even=False)
        x = _arange(shape)
        k = rng.randint(1, rank)
        dims = rng.sample(range(rank), k)
        if rng.random() < 0.15:
            dims.append(rng.choice(dims))        # the same axis twice: shifts add
        shifts = [rng.choice([0, 1, -1, 2, -3, shape[a], shape[a] + 1, -2 * shape[a] - 1, rng.randint(-15, 15)]) for a in dims]
        sh, d = tensor_groups(x)
        nt = any(shape[a] >= 2 and s % shape[a] != 0 for a, s in zip(dims, shifts))
        neg = any(s < 0 for s in shifts)
        yield {"line": line("roll", sh, d, shifts, dims),
               "impl": _impl_t(lambda x=x, s=shifts, dims=dims: T.roll(x, list(s), list(dims))),
               "nontrivial": nt, "bucket": "roll/" + ("negative" if neg else "nonneg")}
    # malformed stream: length mismatch, axis out of range, negative axes (Python indexing: allowed)
    for _ in range(ctx.budget(30, 300)):
        rank = rng.randint(1, 4)
        shape = _shape(rng, rank, 200, need_odd_even=False)
        x = _arange(shape)
        sh, d = tensor_groups(x)
        kind = rng.choice(["mismatch", "range", "negaxis"])
        if kind == "mismatch":
            dims = rng.sample(range(rank), rng.randint(1, rank))
            shifts = [1] * (len(dims) + rng.choice([-1, 1]))
            yield {"line": line("roll", sh, d, shifts, dims),
                   "impl": _impl_t(lambda x=x, s=shifts, dims=dims: T.roll(x, list(s), list(dims))),
                   "nontrivial": True, "bucket": "malformed/len-mismatch"}
        elif kind == "range":
            dims = [rng.choice([rank, rank + 1, -rank - 1])]
            op = rng.choice(["fftshift", "ifftshift"])
            fn = getattr(T, op)
            yield {"line": line(op, sh, d, dims), "impl": _impl_t(lambda x=x, dims=dims, fn=fn: fn(x, dim=list(dims))),
                   "nontrivial": True, "bucket": "malformed/axis-out-of-range"}
        else:
            dims = [-rng.randint(1, rank)]
            op = rng.choice(["fftshift", "ifftshift"])
            fn = getattr(T, op)
            yield {"line": line(op, sh, d, dims), "impl": _impl_t(lambda x=x, dims=dims, fn=fn: fn(x, dim=list(dims))),
                   "nontrivial": shape[dims[0]] >= 2, "bucket": "edge/negative-axis"}


# --------------------------------------------------------------------------------------------------
DT_CODE = {torch.float32: 0, torch.float64: 1, torch.float16: 2, torch.complex64: 3, torch.complex128: 4, torch.int64: 9}


def _axis_tuples(rank):
    ax = range(rank)
    return [list(c) for c in itertools.combinations(ax, 2)] + [list(c) for c in itertools.combinations(ax, 3)]



# --------------------------------------------------------------------------------------------------
# call sites: how the operators are obtained (operator strings of the shipped YAMLs / DefaultConfig parsed by
# direct.utils.str_to_class into functools.partial objects) and called (`dim=` literals of the model / transform classes)
import ast as _ast
import functools as _functools
import re as _re


@_functools.lru_cache(maxsize=None)
def _operator_strings():
    """-> sorted list of (forward_string, backward_string) pairs found under REPO (YAML `physics:` blocks + DefaultConfig)"""
    pairs = set()
    for y in list(core.REPO.rglob("*.yaml")) + list(core.REPO.rglob("*.yml")):
        try:
            txt = y.read_text()
        except OSError:
            continue
        f = _re.findall(r"^\s*forward_operator:\s*(.+?)\s*$", txt, _re.M)
        b = _re.findall(r"^\s*backward_operator:\s*(.+?)\s*$", txt, _re.M)
        for ff, bb in zip(f, b):
            pairs.add((ff.strip("'\""), bb.strip("'\"")))
    try:
        tree = _ast.parse((core.REPO / "direct/config/defaults.py").read_text())
        d = {}
        for n in _ast.walk(tree):
            if isinstance(n, _ast.AnnAssign) and isinstance(n.target, _ast.Name) and n.target.id in ("forward_operator", "backward_operator") \
                    and isinstance(n.value, _ast.Constant):
                d[n.target.id] = n.value.value
        if len(d) == 2:
            pairs.add((d["forward_operator"], d["backward_operator"]))
    except (OSError, SyntaxError):
        pass
    # forms the parser documents but no YAML uses
    pairs |= {("fft2(centered=False, normalized=False)", "ifft2(centered=False, normalized=False)"),
              ("fft2(normalized=False)", "ifft2(normalized=False)"), ("fft2(centered=True, normalized=True)", "ifft2(centered=True)")}
    return sorted(pairs)


@_functools.lru_cache(maxsize=None)
def _spatial_dim_literals():
    """literal `…spatial_dims… = (a, b)` / SpatialDims(TWO_D=…, THREE_D=…) tuples assigned anywhere under direct/"""
    found = set()
    for py in (core.REPO / "direct").rglob("*.py"):
        try:
            tree = _ast.parse(py.read_text())
        except (OSError, SyntaxError):
            continue
        for n in _ast.walk(tree):
            vals = []
            if isinstance(n, _ast.Assign) and any("spatial_dims" in _ast.unparse(t) for t in n.targets):
                vals = [n.value]
            if isinstance(n, _ast.Call) and _ast.unparse(n.func).endswith("SpatialDims"):
                vals = [k.value for k in n.keywords]
            for v in vals:
                try:
                    lit = _ast.literal_eval(v)
                except Exception:  # noqa: BLE001
                    continue
                if isinstance(lit, (tuple, list)) and 2 <= len(lit) <= 3 and all(isinstance(i, int) for i in lit):
                    found.add(tuple(lit))
    return sorted(found | {(1, 2), (2, 3)})


def _parse_flags(op_string):
    """independent reading of an operator string -> (name, centered, normalized, complex_input)"""
    name = op_string.split("(")[0].strip()
    flags = {"centered": True, "normalized": True, "complex_input": True}
    for k in flags:
        m = _re.search(rf"{k}\s*=\s*(True|False)", op_string)
        if m:
            flags[k] = m.group(1) == "True"
    return name, flags["centered"], flags["normalized"], flags["complex_input"]


def _as_view(rng, x):
    """a tensor equal to x that is not a plain contiguous allocation (last axis keeps stride 1): -> (view, kind)"""
    kind = rng.choice(["strided-slice", "permuted-memory", "offset-slice"])
    if kind == "strided-slice" and x.dim() >= 2:
        big = torch.zeros([2 * s for s in x.shape[:-1]] + [x.shape[-1]], dtype=x.dtype)
        v = big[tuple(slice(None, None, 2) for _ in x.shape[:-1]) + (slice(None),)]
        v.copy_(x)
        return v, kind
    if kind == "permuted-memory" and x.dim() >= 3:
        perm = list(range(x.dim() - 1))
        rng.shuffle(perm)
        perm = perm + [x.dim() - 1]
        inv = [perm.index(i) for i in range(x.dim())]
        base = x.permute(perm).contiguous()
        return base.permute(inv), kind
    big = torch.zeros([x.shape[0] + 2] + list(x.shape[1:]), dtype=x.dtype)
    v = big[1:-1]
    v.copy_(x)
    return v, "offset-slice"


def _reimpl_functions():
    """numpy re-implementations of the centred transform under direct/ -> (name, fn, inverse, shape/dims maker)"""
    from direct.data import fake
    from direct.data.datasets import SheppLoganDataset

    def last2(rng, rep):
        rank = rng.randint(2, 4)
        cshape = _shape(rng, rank, 200, need_odd_even=False)
        cshape[-1 - (rep % 2)] = [3, 5, 7, 9][rep % 4] if rep % 3 else cshape[-1 - (rep % 2)]
        return cshape, [rank - 2, rank - 1]

    def axes12(rng, rep):
        cshape = _shape(rng, 3, 200, need_odd_even=False)
        cshape[1 + (rep % 2)] = [3, 5, 7, 9][rep % 4] if rep % 3 else cshape[1 + (rep % 2)]
        return cshape, [1, 2]

    return [("fake.fft", fake.fft, 0, last2), ("fake.ifft", fake.ifft, 1, last2),
            ("SheppLoganDataset.fft", SheppLoganDataset.fft, 0, axes12)]


def _fftn_probe_shapes(ctx):
    """(shape, dims) whose every unit impulse is sent through torch.fft.fftn / ifftn (quick: a fixed handful incl. odd,
    even, 1, non-square, a triple, unsorted dims; thorough: every 2-D shape up to 6x6 embedded at two positions, every
    3-axis shape up to 3x3x4)"""
    if not ctx.thorough:
        return [([3, 4], [0, 1]), ([2, 5, 3], [1, 2]), ([4, 2, 3], [2, 0]), ([1, 6], [0, 1]), ([2, 3, 2], [0, 1, 2]), ([5, 1, 2], [0, 2])]
    out = []
    for n in range(1, 7):
        for m in range(1, 7):
            out.append(([n, m], [0, 1]))
            out.append(([2, n, m], [2, 1] if (n + m) % 2 else [1, 2]))
    for a in range(1, 4):
        for b in range(1, 4):
            for c in range(1, 5):
                out.append(([a, b, c], [0, 1, 2] if (a + b + c) % 2 else [2, 0, 1]))
    return out


def _fft_cases(ctx: Ctx):
    """-> dicts {line, run (-> ('err', name) | ('ok', complex ndarray)), key, nontrivial, bucket}"""
    import direct.data.transforms as T

    rng = ctx.rng
    per_tuple = ctx.budget(8, 16)
    combos = [(c, n, ci, inv) for c in (1, 0) for n in (1, 0) for ci in (1, 0) for inv in (0, 1)]
    k = 0
    for rank in range(2, 7):
        for dims in _axis_tuples(rank):
            chosen = combos if per_tuple >= 16 else [combos[(k + 5 * i) % 16] for i in range(per_tuple)]
            k += 1
            for (c, n, ci, inv) in chosen:
                cshape = _shape(rng, rank, 260)
                d = dims[:]
                if rng.random() < 0.3:
                    rng.shuffle(d)
                pos = [rng.randrange(s) for s in cshape]
                comp = rng.choice([0, 1])
                fn = T.ifft2 if inv else T.fft2
                if ci:
                    x = torch.zeros(cshape + [2], dtype=torch.float32)
                    x[tuple(pos) + (comp,)] = 1.0
                    shape = cshape + [2]
                else:
                    x = torch.zeros(cshape, dtype=torch.complex64)
                    x[tuple(pos)] = 1j if comp else 1.0
                    shape = cshape

                def run(x=x, d=tuple(d), c=c, n=n, ci=ci, fn=fn, comp=comp):
                    out = fn(x, dim=d, centered=bool(c), normalized=bool(n), complex_input=bool(ci))
                    if ci:
                        out = torch.view_as_complex(out.contiguous())
                    out = out.numpy().astype(np.complex128)
                    return out / 1j if comp else out
                odd = any(cshape[a] % 2 == 1 and cshape[a] >= 3 for a in d)
                yield {"line": line("fft", shape, pos, d, [c, n, ci, inv], [DT_CODE[x.dtype]]), "run": run,
                       "nontrivial": any(cshape[a] >= 2 for a in d),
                       "bucket": f"fft/r{rank}/{len(d)}ax/c{c}n{n}ci{ci}" + ("/inv" if inv else "/fwd") + ("/odd" if odd else "/even")}
    # call sites: operators obtained from the YAML / DefaultConfig strings through str_to_class, called with the `dim=`
    # literals of the model classes (as tuple or list), on contiguous tensors and on views
    from direct.utils import str_to_class

    for (fs, bs) in _operator_strings():
        for op_string in (fs, bs):
            name, c, n, ci = _parse_flags(op_string)
            inv = 1 if name == "ifft2" else 0
            for dims in _spatial_dim_literals():
                for rep in range(ctx.budget(1, 4)):
                    rank = max(dims) + 1 + rng.choice([0, 0, 1])
                    cshape = _shape(rng, rank, 260)
                    pos = [rng.randrange(sz) for sz in cshape]
                    x = torch.zeros(cshape + [2], dtype=torch.float32) if ci else torch.zeros(cshape, dtype=torch.complex64)
                    if ci:
                        x[tuple(pos) + (0,)] = 1.0
                    else:
                        x[tuple(pos)] = 1.0
                    view = "contiguous"
                    if rng.random() < 0.5:
                        x, view = _as_view(rng, x)
                    dform = rng.choice(["tuple", "list"])

                    def run(x=x, d=dims, op_string=op_string, ci=ci, dform=dform):
                        op = str_to_class("direct.data.transforms", op_string)
                        out = op(x, dim=tuple(d) if dform == "tuple" else list(d))
                        if ci:
                            out = torch.view_as_complex(out.contiguous())
                        return out.numpy().astype(np.complex128)
                    yield {"line": line("fft", cshape + ([2] if ci else []), pos, list(dims), [int(c), int(n), int(ci), inv],
                                        [DT_CODE[x.dtype]]), "run": run,
                           "nontrivial": any(cshape[a] >= 2 for a in dims),
                           "bucket": f"fft/callsite/{op_string}/dim={dims}/{dform}/{view}"}
    # views of the impulse tensor for the direct calls
    for _ in range(ctx.budget(40, 400)):
        rank = rng.randint(2, 5)
        dims = rng.choice(_axis_tuples(rank))
        c, n, ci, inv = (rng.randint(0, 1) for _ in range(4))
        cshape = _shape(rng, rank, 200)
        pos = [rng.randrange(sz) for sz in cshape]
        x = torch.zeros(cshape + [2], dtype=torch.float32) if ci else torch.zeros(cshape, dtype=torch.complex64)
        x[tuple(pos) + ((0,) if ci else ())] = 1.0
        x, view = _as_view(rng, x)
        fn = T.ifft2 if inv else T.fft2

        def run(x=x, d=tuple(dims), c=c, n=n, ci=ci, fn=fn):
            out = fn(x, dim=d, centered=bool(c), normalized=bool(n), complex_input=bool(ci))
            if ci:
                out = torch.view_as_complex(out.contiguous())
            return out.numpy().astype(np.complex128)
        yield {"line": line("fft", cshape + ([2] if ci else []), pos, dims, [c, n, ci, inv], [DT_CODE[x.dtype]]), "run": run,
               "nontrivial": any(cshape[a] >= 2 for a in dims), "bucket": f"fft/view/{view}"}
    # real float32 input with complex_input=False is accepted when every transformed length is a power of two
    for _ in range(ctx.budget(12, 100)):
        rank = rng.randint(2, 4)
        cshape = [rng.choice([1, 2, 4, 8]) for _ in range(rank)]
        d = rng.sample(range(rank), 2)
        pos = [rng.randrange(s) for s in cshape]
        c, n, inv = rng.randint(0, 1), rng.randint(0, 1), rng.randint(0, 1)
        x = torch.zeros(cshape, dtype=torch.float32)
        x[tuple(pos)] = 1.0
        fn = T.ifft2 if inv else T.fft2
        yield {"line": line("fft", cshape, pos, d, [c, n, 0, inv], [0]),
               "run": lambda x=x, d=tuple(d), c=c, n=n, fn=fn: fn(x, dim=d, centered=bool(c), normalized=bool(n),
                                                                  complex_input=False).numpy().astype(np.complex128),
               "nontrivial": any(cshape[a] >= 2 for a in d), "bucket": "fft/real-float32-pow2"}
    # re-implementations of the centred transform with numpy outside transforms.py (fake.fft / fake.ifft /
    # SheppLoganDataset.fft): the same protocol line as fft2 / ifft2 with centered=normalized=1 on a complex array
    for name, fn, inv, mk in _reimpl_functions():
        for rep in range(ctx.budget(6, 40)):
            cshape, dims = mk(rng, rep)
            pos = [rng.randrange(sz) for sz in cshape]
            x = np.zeros(cshape, dtype=np.complex128)
            x[tuple(pos)] = 1.0
            odd = any(cshape[a] % 2 == 1 and cshape[a] >= 3 for a in dims)
            yield {"line": line("fft", cshape, pos, dims, [1, 1, 0, inv], [3]),
                   "run": lambda x=x, fn=fn: np.asarray(fn(x)).astype(np.complex128),
                   "nontrivial": any(cshape[a] >= 2 for a in dims), "bucket": f"fft/reimpl/{name}/" + ("odd" if odd else "even")}
    # the ONE assumption about the external transform, probed systematically and exactly: torch.fft.fftn / ifftn over a
    # tuple of axes of every unit impulse of small tensors equals the per-axis DFT monomial (all norms incl. "forward")
    for cshape, dims in _fftn_probe_shapes(ctx):
        for pos in itertools.product(*[range(n) for n in cshape]):
            if any(p for a, p in enumerate(pos) if a not in dims):
                continue                      # untransformed axes: one representative
            for inv in (0, 1):
                for nmc, nm in ((0, "ortho"), (1, "backward"), (2, "forward")):
                    x = torch.zeros(cshape, dtype=torch.complex64)
                    x[tuple(pos)] = 1.0
                    f = torch.fft.ifftn if inv else torch.fft.fftn
                    yield {"line": line("fftn", cshape, list(pos), list(dims), [inv, nmc]),
                           "run": lambda x=x, f=f, d=tuple(dims), nm=nm: f(x, dim=d, norm=nm).numpy().astype(np.complex128),
                           "nontrivial": any(cshape[a] >= 2 for a in dims),
                           "bucket": f"assumption/fftn-basis/{len(dims)}ax/" + nm}
    # malformed stream: the code must reject these, and the model must name the same exception
    for _ in range(ctx.budget(60, 600)):
        rank = rng.randint(2, 4)
        cshape = _shape(rng, rank, 120, need_odd_even=False)
        d = rng.sample(range(rank), 2)
        pos = [0] * rank
        c, n, ci, inv = (rng.randint(0, 1) for _ in range(4))
        kind = rng.choice(["negdim", "negdim", "float64", "float16", "complex128", "real-nonpow2", "last-not-2", "dupdim",
                           "dim-range", "int64", "empty-axis", "real-mixed-pow2", "combo", "combo", "combo"])
        kinds = [kind]
        if kind == "combo":      # two faults at once: the order of the checks decides which exception wins
            kinds = rng.sample(["negdim", "float64", "float16", "last-not-2", "dupdim", "dim-range", "int64", "empty-axis"], 2)
            if "last-not-2" in kinds or "int64" in kinds:
                ci = 1
        kind = "+".join(sorted(kinds)) if len(kinds) > 1 else kind
        dt = torch.float32 if ci else torch.complex64
        last = [2] if ci else []
        for k1 in kinds:
            if k1 == "negdim":
                d[rng.randrange(2)] = -rng.randint(1, rank)
            elif k1 == "float64":
                dt = torch.float64
            elif k1 == "float16":
                dt = torch.float16
            elif k1 == "complex128":
                ci, dt, last = 0, torch.complex128, []
            elif k1 == "real-nonpow2":
                ci, dt, last = 0, torch.float32, []
                cshape[d[0]] = rng.choice([3, 5, 6, 7])
            elif k1 == "real-mixed-pow2":      # one transformed length a power of two, the other not
                ci, dt, last = 0, torch.float32, []
                cshape[d[0]] = rng.choice([2, 4, 8])
                cshape[d[1]] = rng.choice([3, 5, 6])
            elif k1 == "last-not-2":
                ci, dt = 1, (dt if dt in (torch.float32, torch.float64, torch.float16) else torch.float32)
                last = [rng.choice([1, 3])]
            elif k1 == "dupdim":
                d[1] = d[0]
            elif k1 == "dim-range":
                d[rng.randrange(2)] = rank + rng.randint(0, 1)
            elif k1 == "int64":
                ci, dt = 1, torch.int64
                last = last or [2]
            elif k1 == "empty-axis":
                dd = [a for a in d if 0 <= a < rank]
                if dd:
                    cshape[rng.choice(dd)] = 0
        shape = cshape + last
        x = torch.zeros(shape, dtype=dt)
        fn = T.ifft2 if inv else T.fft2

        def run(x=x, d=tuple(d), c=c, n=n, ci=ci, fn=fn):
            out = fn(x, dim=d, centered=bool(c), normalized=bool(n), complex_input=bool(ci))
            if ci:
                out = torch.view_as_complex(out.contiguous())
            return out.numpy().astype(np.complex128)
        yield {"line": line("fft", shape, pos[:len(shape) - (1 if ci else 0)], d, [c, n, ci, inv], [DT_CODE[dt]]), "run": run,
               "nontrivial": True, "bucket": "fft/err-" + kind, "expect_err": True}


def custom_correspondence(ctx: Ctx):
    """fft2 / ifft2 on unit impulses: the model's exact symbolic answer (scale^2 = num/den, exponent E of the L-th root of
    unity per entry) is evaluated and compared with torch under atol 1e-5; exceptions are compared by class name."""
    cases = list(_fft_cases(ctx))
    impl = []
    for c in cases:
        try:
            impl.append(("ok", c["run"]()))
        except Exception as e:  # noqa: BLE001
            impl.append(("err", err_name(e)))
    model = core.run_driver(ctx.prop, [c["line"] for c in cases])
    dis = []
    for c, (kind, val), m in zip(cases, impl, model):
        ctx.traces += 1
        m = m.strip()
        agree = True
        shown = ""
        if m.startswith("err "):
            agree = kind == "err" and val == m[4:]
            shown = f"err {val}" if kind == "err" else "ok <tensor>"
        elif kind == "err":
            agree = False
            shown = f"err {val}"
        else:
            gs = [[int(v) for v in g.split()] for g in m[3:].split("|")]
            shp, (L, num, den), es = gs[0], gs[1], np.array(gs[2], dtype=np.int64)
            exp = np.where(es < 0, 0.0, math.sqrt(num / den) * np.exp(-2j * np.pi * np.maximum(es, 0) / L)).reshape(shp)
            if list(val.shape) != shp:
                agree = False
                shown = f"shape {list(val.shape)}"
            else:
                err = float(np.max(np.abs(val - exp))) if val.size else 0.0
                agree = err < 1e-5
                shown = f"max|impl-model|={err:.2e}"
        ctx.count(c["line"], c["nontrivial"], sample={"op": c["line"][:160], "impl": shown, "model": m[:120]}, bucket=c["bucket"])
        if c.get("expect_err") and not m.startswith("err "):
            ctx.hist["fft/err-accepted-by-both"] = ctx.hist.get("fft/err-accepted-by-both", 0) + 1
        if not agree:
            dis.append({"line": c["line"], "impl": shown, "model": m[:300], "key": c["line"]})
    return dis


# --------------------------------------------------------------------------------------------------
def _rand_complex(rng, cshape, lo=-8, hi=8):
    g = torch.Generator().manual_seed(rng.randrange(2 ** 31))
    return torch.randint(lo, hi + 1, tuple(cshape) + (2,), generator=g).float()


def _np_ref(z, axes, centered, normalized, inverse):
    norm = "ortho" if normalized else None
    f = np.fft.ifftn if inverse else np.fft.fftn
    if centered:
        return np.fft.fftshift(f(np.fft.ifftshift(z, axes=axes), axes=axes, norm=norm), axes=axes)
    return f(z, axes=axes, norm=norm)


def _textbook(z, axes, centered, normalized, inverse):
    """sum_j x_j w^{(k-c)(j-c)} per axis, c = n // 2 when centred else 0 — no library FFT / shift involved"""
    out = z.astype(np.complex128)
    for a in axes:
        n = out.shape[a]
        c = n // 2 if centered else 0
        idx = np.arange(n) - c
        W = np.exp((2j if inverse else -2j) * np.pi * np.outer(idx, idx) / n)
        scale = (1 / math.sqrt(n)) if normalized else ((1 / n) if inverse else 1.0)
        out = np.moveaxis(np.tensordot(W * scale, np.moveaxis(out, a, 0), axes=(1, 0)), 0, a)
    return out


def _call(T, name, x, dims, c, n, ci):
    return getattr(T, name)(x, dim=tuple(dims), centered=bool(c), normalized=bool(n), complex_input=bool(ci))


def _as_np(out, ci):
    if ci:
        out = torch.view_as_complex(out.contiguous())
    return out.numpy().astype(np.complex128)


def _fft_oracle_case(T, shape_c, dims, c, n, ci, seed):
    """-> list of (key, what, observed) for the failing laws on this input"""
    r = __import__("random").Random(seed)
    xr = _rand_complex(r, shape_c)
    x = xr if ci else torch.view_as_complex(xr)
    z = torch.view_as_complex(xr).numpy().astype(np.complex128)
    bad = []
    odd = any(shape_c[a] % 2 == 1 and shape_c[a] >= 3 for a in dims)
    tag = ("centered" if c else "uncentered") + ("-odd" if odd else "-even")
    x0 = x.clone()
    try:
        fwd = _call(T, "fft2", x, dims, c, n, ci)
        bwd = _call(T, "ifft2", x, dims, c, n, ci)
        fwd0 = fwd.clone()
        back1 = _call(T, "ifft2", fwd, dims, c, n, ci)
        back2 = _call(T, "fft2", bwd, dims, c, n, ci)
        again = _call(T, "fft2", x, dims, c, n, ci)
    except Exception as e:  # noqa: BLE001
        return [("fft-raises-on-valid-input", f"fft2/ifft2 raise {err_name(e)} on a valid float32/complex64 input", repr(e))]
    rl = lambda t: torch.view_as_real(t) if t.is_complex() else t  # noqa: E731
    if not torch.equal(rl(x), rl(x0)) or not torch.equal(rl(fwd), rl(fwd0)):
        bad.append((f"history/input-modified/{tag}", "fft2 / ifft2 modify their input tensor in place", "input differs after the call"))
    if again.shape != fwd.shape or not torch.equal(rl(again), rl(fwd)):
        bad.append((f"history/repeated-call-differs/{tag}", "fft2 called twice on the same input (with ifft2 calls in between) returns "
                    "different tensors", float((rl(again) - rl(fwd)).abs().max()) if again.shape == fwd.shape else "shape"))
    for nm, back in (("ifft2(fft2(x))", back1), ("fft2(ifft2(x))", back2)):
        if back.shape != x.shape or not np.allclose(_as_np(back, ci), z, atol=1e-4):
            bad.append((f"inverse-pair/{tag}", f"{nm} != x", float(np.max(np.abs(_as_np(back, ci) - z))) if back.shape == x.shape else "shape"))
    if n:
        e0 = float(np.sum(np.abs(z) ** 2))
        for nm, y in (("fft2", fwd), ("ifft2", bwd)):
            e1 = float(np.sum(np.abs(_as_np(y, ci)) ** 2))
            if abs(e1 - e0) > 1e-4 * max(1.0, e0):
                bad.append((f"energy/{nm}/{tag}", f"normalized {nm} does not preserve energy", [e0, e1]))
    for nm, y, inv in (("fft2", fwd, False), ("ifft2", bwd, True)):
        ref = _np_ref(z, tuple(dims), c, n, inv)
        scale = max(1.0, float(np.max(np.abs(ref))))
        if not np.allclose(_as_np(y, ci), ref, atol=1e-4 * scale):
            bad.append((f"reference/{nm}/{tag}", f"{nm} differs from the numpy reference (optionally shifted) DFT",
                        float(np.max(np.abs(_as_np(y, ci) - ref)))))
        if _prod(shape_c) <= 400:
            tb = _textbook(z, tuple(dims), c, n, inv)
            if not np.allclose(_as_np(y, ci), tb, atol=1e-4 * scale):
                bad.append((f"textbook/{nm}/{tag}", f"{nm} differs from sum_j x_j w^((k-c)(j-c))",
                            float(np.max(np.abs(_as_np(y, ci) - tb)))))
    return bad


def _reimpl_case(T, name, cshape, dims, seed):
    """numpy re-implementation `name` on random integer-valued complex data -> failing laws"""
    fns = {n: (f, inv) for n, f, inv, _ in _reimpl_functions()}
    fn, inv = fns[name]
    r = __import__("random").Random(seed)
    xr = _rand_complex(r, cshape)
    z = torch.view_as_complex(xr).numpy().astype(np.complex128)
    odd = any(cshape[a] % 2 == 1 and cshape[a] >= 3 for a in dims)
    tag = "odd" if odd else "even"
    slug = {"fake.fft": "fake-fft", "fake.ifft": "fake-ifft", "SheppLoganDataset.fft": "shepp-logan-fft"}[name]
    bad = []
    try:
        z0 = z.copy()
        got = np.asarray(fn(z))
        ours = _as_np(_call(T, "ifft2" if inv else "fft2", xr, dims, 1, 1, 1), 1)
    except Exception as e:  # noqa: BLE001
        return [(f"reimplementation/{slug}-raises", f"{name} raises {err_name(e)}", repr(e)[:200])]
    scale = max(1.0, float(np.max(np.abs(ours))))
    if got.shape != ours.shape or not np.allclose(got, ours, atol=1e-4 * scale):
        bad.append((f"reimplementation/{slug}-{tag}", f"{name} differs from transforms.{'ifft2' if inv else 'fft2'} (centred, normalised) "
                    "on the same axes", float(np.max(np.abs(got - ours))) if got.shape == ours.shape else "shape"))
    if _prod(cshape) <= 400:
        tb = _textbook(z, tuple(dims), 1, 1, bool(inv))
        if got.shape != tb.shape or not np.allclose(got, tb, atol=1e-6 * scale):
            bad.append((f"reimplementation/{slug}-textbook-{tag}", f"{name} differs from sum_j x_j w^((k-c)(j-c)), c = n // 2",
                        float(np.max(np.abs(got - tb))) if got.shape == tb.shape else "shape"))
    if not np.array_equal(z, z0):
        bad.append((f"reimplementation/{slug}-modifies-input", f"{name} modifies its input", ""))
    if name.startswith("fake."):
        other = fns["fake.ifft" if name == "fake.fft" else "fake.fft"][0]
        back = np.asarray(other(got))
        if back.shape != z.shape or not np.allclose(back, z, atol=1e-8 * max(1.0, float(np.max(np.abs(z))))):
            bad.append((f"reimplementation/fake-inverse-pair-{tag}", "fake.ifft(fake.fft(x)) != x (or the converse)",
                        float(np.max(np.abs(back - z))) if back.shape == z.shape else "shape"))
    return bad


def _site_case(T, dims, overrides, seed):
    """call fft2 / ifft2 the way a call site does -> '' or what went wrong"""
    flags = {"centered": True, "normalized": True, "complex_input": True}
    for k, v in overrides:
        if k < 3:
            flags[("centered", "normalized", "complex_input")[k]] = bool(v)
        else:
            return "keyword the operators do not have"
    r = __import__("random").Random(seed)
    rank = max([a for a in dims if a >= 0] + [1]) + 2
    cshape = _shape(r, rank, 400)
    xr = _rand_complex(r, cshape)
    x = xr if flags["complex_input"] else torch.view_as_complex(xr)
    z = torch.view_as_complex(xr).numpy().astype(np.complex128)
    for nm in ("fft2", "ifft2"):
        for dform in (tuple(dims), list(dims)):
            try:
                y = getattr(T, nm)(x, dim=dform, **flags)
            except Exception as e:  # noqa: BLE001
                return f"{nm} raises {err_name(e)}: {e}"[:160]
            ref = _np_ref(z, tuple(dims), flags["centered"], flags["normalized"], nm == "ifft2")
            if not np.allclose(_as_np(y, flags["complex_input"]), ref, atol=1e-4 * max(1.0, float(np.max(np.abs(ref))))):
                return f"{nm} differs from the reference transform over axes {tuple(dims)}"
    return ""


def _history_case(T, seed):
    """a history of calls through shared operator / dim objects -> failing laws"""
    from direct.utils import str_to_class

    r = __import__("random").Random(seed)
    pairs = _operator_strings()
    fs, bs = r.choice(pairs)
    ops = {s_: str_to_class("direct.data.transforms", s_) for s_ in (fs, bs)}
    dim_objs = [list(r.choice(_spatial_dim_literals())) for _ in range(2)] + [tuple(r.choice(_spatial_dim_literals()))]
    frozen = [list(d) for d in dim_objs]
    bad = []
    log = []
    for step in range(r.randint(6, 10)):
        s_ = r.choice([fs, bs])
        _, c, n, ci = _parse_flags(s_)
        dobj = r.choice(dim_objs)
        rank = max(dobj) + 1 + r.choice([0, 1])
        cshape = _shape(r, rank, 300)
        xr = _rand_complex(r, cshape)
        x = xr if ci else torch.view_as_complex(xr)
        x0 = x.clone()
        try:
            got = ops[s_](x, dim=dobj)
            kind = r.choice(["fftshift", "ifftshift", "roll", "none"])
            if kind in ("fftshift", "ifftshift"):                       # interleave the shift helpers on the same dim object
                getattr(T, kind)(xr, dim=dobj)
            elif kind == "roll":
                T.roll(xr, [r.randint(-3, 3) for _ in dobj], dobj)
            fresh = str_to_class("direct.data.transforms", s_)(x0.clone(), dim=tuple(dobj))
        except Exception as e:  # noqa: BLE001
            return [("history/raises", f"step {step}: {s_} with the shared dim object {dobj!r} raises {err_name(e)}", repr(e)[:200])]
        rl = lambda t: torch.view_as_real(t) if t.is_complex() else t  # noqa: E731
        log.append((s_, list(dobj), cshape))
        if got.shape != fresh.shape or not torch.equal(rl(got), rl(fresh)):
            bad.append(("history/result-depends-on-earlier-calls", f"step {step} of {log}: the shared operator object returns a tensor "
                        "that differs from a fresh call on the same input", ""))
        if not torch.equal(rl(x), rl(x0)):
            bad.append(("history/input-modified", f"step {step} of {log}: the input tensor was modified", ""))
        if [list(d) for d in dim_objs] != frozen:
            bad.append(("history/dim-object-modified", f"step {step} of {log}: the caller's `dim` object was modified: {dim_objs}", ""))
        if bad:
            break
    return bad


def oracle(ctx: Ctx, deep: bool = False):
    """The property stated directly on the implementation."""
    import direct.data.transforms as T

    rng = ctx.rng
    big = deep or ctx.thorough
    # (1) shift helpers vs numpy, and mutual inverses — every axis subset of small tensors, odd and even lengths
    for rank in range(1, 5 if big else 4):
        for _ in range(ctx.budget(3, 12) * (2 if deep else 1)):
            shape = _shape(rng, rank, 300)
            x = _arange(shape)
            for k in range(1, rank + 1):
                for dims in itertools.combinations(range(rank), k):
                    odd = any(shape[a] % 2 == 1 and shape[a] >= 3 for a in dims)
                    tag = "odd" if odd else "even"
                    ctx.count(("shift", tuple(shape), dims), any(shape[a] >= 2 for a in dims), bucket=f"oracle/shift-{tag}")
                    for nm, fn, ref in (("fftshift", T.fftshift, np.fft.fftshift), ("ifftshift", T.ifftshift, np.fft.ifftshift)):
                        exp = ref(x.numpy(), axes=dims)
                        try:
                            got = fn(x, dim=list(dims)).numpy()
                            ok, obs = got.shape == exp.shape and np.array_equal(got, exp), got.tolist()
                        except Exception as e:  # noqa: BLE001
                            ok, obs = False, f"raises {err_name(e)}"
                        if not ok:
                            yield Violation(f"shift-numpy/{nm}-{tag}", f"{nm} differs from numpy.fft.{nm}",
                                            {"op": nm, "shape": shape, "dims": list(dims), "expected": exp.tolist(), "observed": obs})
                    for nm, a, b in (("fftshift(ifftshift(x))", T.ifftshift, T.fftshift), ("ifftshift(fftshift(x))", T.fftshift, T.ifftshift)):
                        try:
                            back = b(a(x, dim=list(dims)), dim=list(dims))
                            ok, obs = torch.equal(back, x), back.tolist()
                        except Exception as e:  # noqa: BLE001
                            ok, obs = False, f"raises {err_name(e)}"
                        if not ok:
                            yield Violation(f"shift-inverse-{tag}", f"{nm} != x",
                                            {"op": "shift-inverse", "which": nm, "shape": shape, "dims": list(dims),
                                             "expected": x.tolist(), "observed": obs})
    # argument forms the correspondence also generates: negative axes, shuffled axis order, roll with arbitrary shifts
    for _ in range(ctx.budget(60, 600) * (2 if deep else 1)):
        rank = rng.randint(1, 5)
        shape = _shape(rng, rank, 300, need_odd_even=False)
        x = _arange(shape)
        dims = rng.sample(range(rank), rng.randint(1, rank))
        dpass = [d - rank if rng.random() < 0.5 else d for d in dims]
        odd = any(shape[a] % 2 == 1 and shape[a] >= 3 for a in dims)
        tag = ("odd" if odd else "even") + ("/negative-axis" if any(d < 0 for d in dpass) else "/shuffled")
        ctx.count(("shift-forms", tuple(shape), tuple(dpass)), any(shape[a] >= 2 for a in dims), bucket="oracle/shift-forms-" + tag)
        for nm, fn, ref in (("fftshift", T.fftshift, np.fft.fftshift), ("ifftshift", T.ifftshift, np.fft.ifftshift)):
            exp = ref(x.numpy(), axes=tuple(dims))
            try:
                got = fn(x, dim=list(dpass)).numpy()
                ok, obs = got.shape == exp.shape and np.array_equal(got, exp), got.tolist()
            except Exception as e:  # noqa: BLE001
                ok, obs = False, f"raises {err_name(e)}"
            if not ok:
                yield Violation(f"shift-numpy/{nm}-{tag}", f"{nm}(dim={dpass}) differs from numpy.fft.{nm}",
                                {"op": nm, "shape": shape, "dims": list(dpass), "expected": exp.tolist(), "observed": obs})
        if rng.random() < 0.3:
            dims = dims + [rng.choice(dims)]
        shifts = [rng.choice([0, 1, -1, shape[a], -shape[a] - 1, rng.randint(-15, 15)]) for a in dims]
        ctx.count(("roll", tuple(shape), tuple(dims), tuple(shifts)), True, bucket="oracle/roll-vs-numpy")
        exp = np.roll(x.numpy(), shifts, axis=tuple(dims))
        try:
            got = T.roll(x, list(shifts), list(dims)).numpy()
            ok, obs = np.array_equal(got, exp), got.tolist()
        except Exception as e:  # noqa: BLE001
            ok, obs = False, f"raises {err_name(e)}"
        if not ok:
            yield Violation("roll-numpy", f"roll(shift={shifts}, dim={dims}) differs from numpy.roll",
                            {"op": "roll", "shape": shape, "dims": list(dims), "shifts": list(shifts), "expected": exp.tolist(),
                             "observed": obs})
    # real float32 input (complex_input=False) with power-of-two lengths against numpy
    for _ in range(ctx.budget(10, 100)):
        rank = rng.randint(2, 4)
        shape = [rng.choice([1, 2, 4, 8]) for _ in range(rank)]
        d = rng.sample(range(rank), 2)
        c, n = rng.randint(0, 1), rng.randint(0, 1)
        g = torch.Generator().manual_seed(rng.randrange(2 ** 31))
        x = torch.randint(-8, 9, tuple(shape), generator=g).float()
        ctx.count(("fft-real", tuple(shape), tuple(d), c, n), True, bucket="oracle/fft-real-float32-pow2")
        for nm, inv in (("fft2", False), ("ifft2", True)):
            ref = _np_ref(x.numpy().astype(np.complex128), tuple(d), c, n, inv)
            try:
                got = getattr(T, nm)(x, dim=tuple(d), centered=bool(c), normalized=bool(n), complex_input=False).numpy()
                ok = got.shape == ref.shape and np.allclose(got, ref, atol=1e-4 * max(1.0, float(np.max(np.abs(ref)))))
                obs = float(np.max(np.abs(got - ref))) if got.shape == ref.shape else "shape"
            except Exception as e:  # noqa: BLE001
                ok, obs = False, f"raises {err_name(e)}"
            if not ok:
                yield Violation(f"reference/{nm}/real-input", f"{nm} on real float32 input differs from the numpy reference",
                                {"op": "fft-real", "fn": nm, "shape": shape, "dims": d, "centered": c, "normalized": n,
                                 "data": x.tolist(), "observed": obs})
    # 1-D exhaustive: lengths 1..16 (1..40 deep)
    for n in range(1, 41 if big else 17):
        x = _arange([n])
        ctx.count(("shift1d", n), n >= 2, bucket="oracle/shift-1d-" + ("odd" if n % 2 else "even"))
        for nm, fn, ref in (("fftshift", T.fftshift, np.fft.fftshift), ("ifftshift", T.ifftshift, np.fft.ifftshift)):
            try:
                got = fn(x).numpy()
            except Exception as e:  # noqa: BLE001
                got = np.array([f"raises {err_name(e)}"])
            if not np.array_equal(got, ref(x.numpy())):
                yield Violation(f"shift-numpy/{nm}-" + ("odd" if n % 2 else "even"), f"{nm} differs from numpy.fft.{nm}",
                                {"op": nm, "shape": [n], "dims": [0], "expected": ref(x.numpy()).tolist(), "observed": got.tolist()})
    # (2) inverse pair, energy, numpy reference, textbook formula — all flag combinations, every axis pair / triple
    combos = [(c, n, ci) for c in (1, 0) for n in (1, 0) for ci in (1, 0)]
    k = 0
    for rank in range(2, 7):
        for dims in _axis_tuples(rank):
            picks = combos if big else [combos[(k + 3 * i) % 8] for i in range(2)]
            k += 1
            for (c, n, ci) in picks:
                shape_c = _shape(rng, rank, 1500 if big else 500)
                d = list(dims)
                if rng.random() < 0.3:
                    rng.shuffle(d)
                seed = rng.randrange(2 ** 31)
                odd = any(shape_c[a] % 2 == 1 and shape_c[a] >= 3 for a in d)
                ctx.count(("fft", tuple(shape_c), tuple(d), c, n, ci, seed), any(shape_c[a] >= 2 for a in d),
                          bucket=f"oracle/fft-c{c}n{n}ci{ci}-" + ("odd" if odd else "even"))
                for key, what, obs in _fft_oracle_case(T, shape_c, d, c, n, ci, seed):
                    yield Violation(key, what, {"op": "fft-laws", "shape": shape_c, "dims": d, "centered": c, "normalized": n,
                                                "complex_input": ci, "seed": seed, "law": key, "observed": obs})
    # small sizes exhaustively in 2-D (every parity pair), centred and not
    lim = 9 if big else 6
    for h in range(1, lim):
        for w in range(1, lim):
            for c in (1, 0):
                seed = 1000 * h + 10 * w + c
                ctx.count(("fft2d", h, w, c), h >= 2 or w >= 2, bucket="oracle/fft-2d-small")
                for key, what, obs in _fft_oracle_case(T, [2, h, w], [1, 2], c, 1, 1, seed):
                    yield Violation(key, what, {"op": "fft-laws", "shape": [2, h, w], "dims": [1, 2], "centered": c,
                                                "normalized": 1, "complex_input": 1, "seed": seed, "law": key, "observed": obs})
    # (2b) the single assumption about torch.fft that the theorems do not discharge: fftn / ifftn over a tuple of axes is the
    #      composition of the 1-D DFTs along those axes (scale per axis), for every norm — checked against sequential 1-D
    #      torch ffts and against the explicit DFT matrix
    for _ in range(ctx.budget(40, 400)):
        rank = rng.randint(2, 5)
        shape_c = _shape(rng, rank, 600)
        dims = rng.choice(_axis_tuples(rank))
        if rng.random() < 0.3:
            rng.shuffle(dims)
        z = torch.view_as_complex(_rand_complex(rng, shape_c))
        for norm in ("ortho", None, "backward", "forward"):
            for nm, nd, one in (("fftn", torch.fft.fftn, torch.fft.fft), ("ifftn", torch.fft.ifftn, torch.fft.ifft)):
                ctx.count(("fftn-factor", tuple(shape_c), tuple(dims), norm, nm), True, bucket="oracle/assumption-fftn-per-axis")
                whole = nd(z, dim=tuple(dims), norm=norm)
                seq = z
                for a in dims:
                    seq = one(seq, dim=a, norm=norm)
                mat = z.numpy().astype(np.complex128)
                for a in dims:
                    nn_ = mat.shape[a]
                    idx = np.arange(nn_)
                    W = np.exp((2j if nm == "ifftn" else -2j) * np.pi * np.outer(idx, idx) / nn_)
                    sc = {"ortho": 1 / math.sqrt(nn_), None: (1 / nn_ if nm == "ifftn" else 1.0),
                          "backward": (1 / nn_ if nm == "ifftn" else 1.0), "forward": (1.0 if nm == "ifftn" else 1 / nn_)}[norm]
                    mat = np.moveaxis(np.tensordot(W * sc, np.moveaxis(mat, a, 0), axes=(1, 0)), 0, a)
                tol = 1e-4 * max(1.0, float(np.max(np.abs(mat))))
                if not torch.allclose(whole, seq, atol=tol) or not np.allclose(whole.numpy(), mat, atol=tol):
                    yield Violation("assumption/fftn-per-axis", f"torch.fft.{nm}(dim={dims}, norm={norm}) is not the composition of per-axis DFTs",
                                    {"op": "fftn-factor", "shape": shape_c, "dims": list(dims), "norm": norm, "fn": nm})
    # (2c) call sites: operators as the engines obtain them (str_to_class on the YAML / DefaultConfig strings, and
    #      direct.environment.build_operators), called with the `dim=` literals of the model classes, as tuple and as list:
    #      equal to the reference DFT with the flags written in the string, and each configured (forward, backward) pair is
    #      an inverse pair
    from direct.utils import str_to_class
    import types

    try:
        from direct.environment import build_operators
    except Exception as e:  # noqa: BLE001
        build_operators = None
        ctx.notes.append(f"direct.environment.build_operators not importable here: {err_name(e)}")
    for (fs, bs) in _operator_strings():
        for dims in _spatial_dim_literals():
            rank = max(dims) + 1 + rng.choice([0, 1])
            shape_c = _shape(rng, rank, 500)
            xr = _rand_complex(rng, shape_c)
            z = torch.view_as_complex(xr).numpy().astype(np.complex128)
            ctx.count(("callsite", fs, bs, dims, tuple(shape_c)), any(shape_c[a] >= 2 for a in dims), bucket=f"oracle/callsite/{fs}|{bs}")
            try:
                ops = {"str_to_class": (str_to_class("direct.data.transforms", fs), str_to_class("direct.data.transforms", bs))}
                if build_operators is not None:
                    ops["build_operators"] = build_operators(types.SimpleNamespace(forward_operator=fs, backward_operator=bs))
            except Exception as e:  # noqa: BLE001
                yield Violation("callsite/operator-string-unparseable", f"operator string {fs!r} / {bs!r} cannot be turned into an operator: {err_name(e)}",
                                {"op": "callsite", "forward": fs, "backward": bs, "dims": list(dims), "shape": shape_c, "seed": 0})
                continue
            for how, (F, B) in ops.items():
                for dform in (tuple(dims), list(dims)):
                    bad = []
                    try:
                        for s_, op, inv in ((fs, F, False), (bs, B, True)):
                            nm, c, n, ci = _parse_flags(s_)
                            x = xr if ci else torch.view_as_complex(xr)
                            y = op(x, dim=dform)
                            ref = _np_ref(z, tuple(dims), c, n, nm == "ifft2")
                            if not np.allclose(_as_np(y, ci), ref, atol=1e-4 * max(1.0, float(np.max(np.abs(ref))))):
                                bad.append(f"{s_} differs from the reference DFT with the flags of the string")
                        _, _, _, ci_f = _parse_flags(fs)
                        x = xr if ci_f else torch.view_as_complex(xr)
                        back = B(F(x, dim=dform), dim=dform)
                        if back.shape != x.shape or not np.allclose(_as_np(back, ci_f), z, atol=1e-4):
                            bad.append("backward(forward(x)) != x")
                    except Exception as e:  # noqa: BLE001
                        bad.append(f"raises {err_name(e)}: {e}"[:160])
                    for what in bad:
                        yield Violation("callsite/configured-operator", f"operators {fs!r}/{bs!r} obtained via {how}, dim={dform!r}: {what}",
                                        {"op": "callsite", "forward": fs, "backward": bs, "dims": list(dims), "shape": shape_c,
                                         "how": how, "list": isinstance(dform, list), "what": what})
    # (2d) views and aliasing: on strided / permuted / offset / expanded views the result equals the result on a contiguous
    #      copy, the input is not modified, and the output of fft2 / ifft2 shares no memory with the input
    alias_shift = 0
    for _ in range(ctx.budget(60, 600)):
        rank = rng.randint(2, 5)
        shape_c = _shape(rng, rank, 300)
        dims = rng.choice(_axis_tuples(rank))
        c, n, ci = rng.randint(0, 1), rng.randint(0, 1), rng.randint(0, 1)
        base = _rand_complex(rng, shape_c)
        base = base if ci else torch.view_as_complex(base)
        if rng.random() < 0.25:
            e_ax = rng.randrange(rank)
            small = base.narrow(e_ax, 0, 1)
            x, kind = small.expand(*base.shape), "expanded"
        else:
            x, kind = _as_view(rng, base)
        ref_in = x.clone()
        ctx.count(("view", kind, tuple(shape_c), tuple(dims), c, n, ci), True, bucket=f"oracle/views/{kind}")
        for nm in ("fft2", "ifft2", "fftshift", "ifftshift"):
            try:
                if nm in ("fft2", "ifft2"):
                    out = _call(T, nm, x, dims, c, n, ci)
                    exp = _call(T, nm, ref_in.contiguous(), dims, c, n, ci)
                else:
                    out = getattr(T, nm)(x, dim=list(dims))
                    exp = getattr(T, nm)(ref_in.contiguous(), dim=list(dims))
            except Exception as e:  # noqa: BLE001
                yield Violation(f"views/{nm}-raises", f"{nm} raises {err_name(e)} on a {kind} view of a valid tensor",
                                {"op": "view", "fn": nm, "kind": kind, "shape": shape_c, "dims": list(dims), "observed": repr(e)[:200]})
                continue
            o_r = torch.view_as_real(out) if out.is_complex() else out
            e_r = torch.view_as_real(exp) if exp.is_complex() else exp
            # shifts only move entries (exact); the FFT may take another code path for strided input (float32 rounding)
            same = out.shape == exp.shape and (torch.equal(o_r, e_r) if nm.endswith("shift")
                                               else torch.allclose(o_r, e_r, rtol=1e-5, atol=1e-4 * max(1.0, float(e_r.abs().max()))))
            if not same:
                yield Violation(f"views/{nm}-differs", f"{nm} on a {kind} view differs from {nm} on the contiguous copy",
                                {"op": "view", "fn": nm, "kind": kind, "shape": shape_c, "dims": list(dims)})
            if not torch.equal(torch.view_as_real(x) if x.is_complex() else x, torch.view_as_real(ref_in) if ref_in.is_complex() else ref_in):
                yield Violation(f"views/{nm}-modifies-input", f"{nm} modifies its input ({kind} view)",
                                {"op": "view", "fn": nm, "kind": kind, "shape": shape_c, "dims": list(dims)})
            shares = out.untyped_storage().data_ptr() == x.untyped_storage().data_ptr()
            if shares and nm in ("fft2", "ifft2"):
                yield Violation(f"views/{nm}-aliases-input", f"the output of {nm} shares memory with its input ({kind} view)",
                                {"op": "view", "fn": nm, "kind": kind, "shape": shape_c, "dims": list(dims)})
            elif shares:
                alias_shift += 1
    if alias_shift:
        ctx.notes.append(f"aliasing observation: {alias_shift} fftshift/ifftshift calls returned a tensor sharing memory with the input (every shifted "
                         "axis had length 1: roll_one_dim returns its argument when shift % n == 0); values are correct, the caller must not "
                         "mutate the result in place")
    # argument forms of `dim` that are rejected although they denote valid non-negative integer axes (observations)
    x = torch.zeros(2, 3, 4, 5, 2)
    for label, d in (("numpy integers", (np.int64(2), np.int64(3))), ("numpy array", np.array([2, 3])), ("torch tensor", torch.tensor([2, 3]))):
        ctx.count(("dimform", label), True, bucket="oracle/dim-forms")
        try:
            T.fft2(x, dim=d)
        except TypeError:
            ctx.notes.append(f"dim given as {label} is rejected with TypeError ('does not support negative indexing'): only Python ints pass "
                             "`isinstance(_, int)`")
        except Exception as e:  # noqa: BLE001
            ctx.notes.append(f"dim given as {label}: {err_name(e)}")
    ctx.count(("pair-axis-strided",), True, bucket="oracle/views/pair-axis-strided")
    try:
        T.fft2(torch.zeros(2, 3, 4, 4)[..., ::2], dim=(1, 2))
    except RuntimeError:
        ctx.notes.append("view observation: a (…, 2) tensor whose pair axis has stride != 1 (e.g. t[..., ::2]) is rejected by view_as_complex "
                         "with RuntimeError — fft2/ifft2 require the real/imaginary pair to be adjacent in memory")
    try:
        str_to_class("direct.data.transforms", "fft2()")
    except AttributeError:
        ctx.notes.append("str_to_class observation: 'fft2()' (empty argument list) raises AttributeError (looked up as attribute 'fft2()')")
    except Exception:  # noqa: BLE001
        pass
    # (2e) re-implementations of the centred transform outside transforms.py (numpy): equal to fft2 / ifft2 of transforms.py with
    #      centered = normalized = True on the same axes, equal to the textbook sum, and fake.ifft undoes fake.fft — odd and even
    for name, fn, inv, mk in _reimpl_functions():
        for rep in range(ctx.budget(8, 60) * (2 if deep else 1)):
            cshape, dims = mk(rng, rep)
            seed = rng.randrange(2 ** 31)
            odd = any(cshape[a] % 2 == 1 and cshape[a] >= 3 for a in dims)
            ctx.count(("reimpl", name, tuple(cshape), seed), any(cshape[a] >= 2 for a in dims),
                      bucket=f"oracle/reimpl/{name}/" + ("odd" if odd else "even"))
            for key, what, obs in _reimpl_case(T, name, cshape, dims, seed):
                yield Violation(key, what, {"op": "reimpl", "name": name, "shape": cshape, "dims": dims, "seed": seed, "law": key,
                                            "observed": obs})
    # (2f) every call site of the operators under direct/ (AST scan, the same one the translated `call_sites` table comes from):
    #      the `dim` forms it can pass and the flags it overrides are accepted by the real fft2 / ifft2 and give the reference
    #      transform
    try:
        from translate.recipes.c01 import scan_call_sites
        _, sites = scan_call_sites(core.REPO)
    except Exception as e:  # noqa: BLE001
        sites = []
        ctx.notes.append(f"call-site scan failed: {err_name(e)}: {e}"[:200])
    seen_forms = set()
    for st in sites:
        for d in st["dims"]:
            form = (tuple(d), tuple(st["overrides"]))
            if form in seen_forms:
                continue
            seen_forms.add(form)
            ctx.count(("site", form), True, bucket="oracle/callsite-forms")
            bad = _site_case(T, d, st["overrides"], rng.randrange(2 ** 31))
            if bad:
                yield Violation("callsite/dim-form-rejected", f"{st['path']}:{st['line']} `{st['text'][:80]}` passes dim={tuple(d)} "
                                f"{dict(st['overrides'])}: {bad}",
                                {"op": "site", "path": st["path"], "line": st["line"], "dims": list(d),
                                 "overrides": [list(o) for o in st["overrides"]], "what": bad})
    ctx.hist["oracle/callsites-scanned"] = len(sites)
    if any(not st["understood"] for st in sites):
        ctx.notes.append("call sites whose `dim` expression the scanner does not understand: " +
                         ", ".join(f"{st['path']}:{st['line']}" for st in sites if not st["understood"])[:300])
    # (2g) call histories: one operator object (functools.partial from str_to_class) and one `dim` object reused across tensors of
    #      different shapes / dtypes, interleaved with other operators — every result equals the result of a fresh call, the
    #      `dim` object and the inputs are left untouched
    for _ in range(ctx.budget(6, 60)):
        seed = rng.randrange(2 ** 31)
        ctx.count(("history", seed), True, bucket="oracle/histories")
        for key, what, obs in _history_case(T, seed):
            yield Violation(key, what, {"op": "history", "seed": seed, "law": key, "observed": obs})
    # (3) rejected inputs
    x = torch.zeros(2, 3, 4, 2)
    for nm in ("fft2", "ifft2"):
        fn = getattr(T, nm)
        for dims in ((1, -1), (-2, -1), (-3, 2), (0, 1, -1)):
            ctx.count(("negdim", nm, dims), True, bucket="oracle/negative-dim")
            try:
                fn(x, dim=dims)
                obs = "no exception"
            except TypeError:
                continue
            except Exception as e:  # noqa: BLE001
                obs = err_name(e)
            yield Violation(f"negative-dim-not-TypeError/{nm}", f"{nm} with a negative dim does not raise TypeError ({obs})",
                            {"op": "negdim", "fn": nm, "dims": list(dims), "observed": obs})
        for dims in ((1, 2.0), (1.0, 2)):
            ctx.count(("floatdim", nm, dims), True, bucket="oracle/non-int-dim")
            try:
                fn(x, dim=dims)
                obs = "no exception"
            except TypeError:
                continue
            except Exception as e:  # noqa: BLE001
                obs = err_name(e)
            yield Violation(f"non-int-dim-not-TypeError/{nm}", f"{nm} with a non-int dim does not raise TypeError ({obs})",
                            {"op": "negdim", "fn": nm, "dims": list(dims), "observed": obs})
        for dt, ci in ((torch.float64, True), (torch.float16, True), (torch.complex128, False)):
            for c in (True, False):
                y = torch.zeros(2, 3, 4, 2, dtype=dt) if ci else torch.zeros(2, 3, 4, dtype=dt)
                ctx.count(("dtype", nm, str(dt), c), True, bucket="oracle/non-single-dtype")
                try:
                    fn(y, dim=(1, 2), centered=c, complex_input=ci)
                    obs = "no exception"
                except ValueError:
                    continue
                except Exception as e:  # noqa: BLE001
                    obs = err_name(e)
                yield Violation(f"non-single-not-ValueError/{nm}", f"{nm} on {dt} does not raise ValueError ({obs})",
                                {"op": "dtype", "fn": nm, "dtype": str(dt), "centered": c, "complex_input": ci, "observed": obs})


def replay(rep: dict) -> bool:
    import direct.data.transforms as T

    op = rep.get("op")
    try:
        if op in ("fftshift", "ifftshift"):
            x = _arange(rep["shape"])
            return getattr(T, op)(x, dim=list(rep["dims"])).numpy().tolist() != rep["expected"]
        if op == "roll":
            x = _arange(rep["shape"])
            return T.roll(x, list(rep["shifts"]), list(rep["dims"])).numpy().tolist() != rep["expected"]
        if op == "fft-real":
            x = torch.tensor(rep["data"], dtype=torch.float32)
            ref = _np_ref(x.numpy().astype(np.complex128), tuple(rep["dims"]), rep["centered"], rep["normalized"], rep["fn"] == "ifft2")
            got = getattr(T, rep["fn"])(x, dim=tuple(rep["dims"]), centered=bool(rep["centered"]), normalized=bool(rep["normalized"]),
                                       complex_input=False).numpy()
            return not np.allclose(got, ref, atol=1e-4 * max(1.0, float(np.max(np.abs(ref)))))
        if op == "shift-inverse":
            x = _arange(rep["shape"])
            a, b = (T.ifftshift, T.fftshift) if rep["which"].startswith("fftshift") else (T.fftshift, T.ifftshift)
            return not torch.equal(b(a(x, dim=list(rep["dims"])), dim=list(rep["dims"])), x)
        if op == "fft-laws":
            bad = _fft_oracle_case(T, rep["shape"], rep["dims"], rep["centered"], rep["normalized"], rep["complex_input"], rep["seed"])
            return any(k == rep["law"] for k, _, _ in bad)
        if op == "reimpl":
            return any(k == rep["law"] for k, _, _ in _reimpl_case(T, rep["name"], rep["shape"], rep["dims"], rep["seed"]))
        if op == "site":
            return bool(_site_case(T, rep["dims"], [tuple(o) for o in rep["overrides"]], 0))
        if op == "history":
            return any(k == rep["law"] for k, _, _ in _history_case(T, rep["seed"]))
        if op == "negdim":
            try:
                getattr(T, rep["fn"])(torch.zeros(2, 3, 4, 2), dim=tuple(rep["dims"]))
            except TypeError:
                return False
            except Exception:  # noqa: BLE001
                return True
            return True
        if op == "dtype":
            dt = getattr(torch, rep["dtype"].split(".")[-1])
            ci = rep["complex_input"]
            y = torch.zeros(2, 3, 4, 2, dtype=dt) if ci else torch.zeros(2, 3, 4, dtype=dt)
            try:
                getattr(T, rep["fn"])(y, dim=(1, 2), centered=rep["centered"], complex_input=ci)
            except ValueError:
                return False
            except Exception:  # noqa: BLE001
                return True
            return True
    except Exception:  # noqa: BLE001
        return True
    return True
