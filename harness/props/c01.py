"""C01 — Fourier operators are exact inverse pairs and equal the reference DFT; shift helpers are mutual inverses."""
from __future__ import annotations

import itertools
import math

import boot  # noqa: F401
import numpy as np
import torch

import core
from core import Ctx, Violation, err_name, line, ok_tensor, tensor_groups

PROP = "C01"
MANIFEST = {
    "text": "Lean 4 theorems for every axis length and element type: roll_one_dim has the index form x[(i - s) mod n], equals the "
            "numpy roll, composes additively; fftshift/ifftshift are mutual inverses and are numpy's shifts for odd and even "
            "lengths, on one axis and (lifted through the Tensor.alongAxis the driver runs) on every duplicate-free axis tuple "
            "of a well-formed tensor; fft2/ifft2 (the interpreted, translator-regenerated call plan ifftshift -> (i)fftn(norm) -> "
            "fftshift with its centered/normalized/complex_input guards) are mutual inverses for all 8 flag combinations on one "
            "axis, over abstract per-axis operators, and on the tensor backend the driver runs; they preserve energy when "
            "normalised; with Mathlib's ZMod.dft as the per-axis transform the pair is an inverse pair and an isometry without "
            "further hypotheses (ifft2_fft2_id_tensor_dft, fft2_energy_tensor_dft: every well-formed complex tensor, every "
            "duplicate-free axis tuple, all flags). "
            "THE n-D CLOSED FORM is proved for any number of axes in any order, centred or not, both directions "
            "(fft2_nd_sum): entry idx of fft2/ifft2 over dims [d1..dr] = Sum_{jr}..Sum_{j1} Prod_i W_{n_i}(idx[d_i], j_i) * "
            "t[idx with idx[d_i] := j_i], W_n(k,j) = scale * exp(-/+ 2 pi i (j-c)(k-c)/n), c = n div 2 centred / 0 uncentred "
            "(cdftMat_eq_exp, dftMat_eq_exp), at the row-major offset Tensor.offset the driver uses; written out as explicit "
            "double and triple sums (fft2_two_axes_closed for dims [a,b] in either order, fft2_three_axes_closed); for that the "
            "plan is regrouped into one 1-D operator per axis (fft2_eq_applyAxes, applyAxes_fuse). "
            "EVERY ERROR BRANCH of the glue: the interpreted plan equals a flat priority list (validate_fft2_eq_spec, "
            "validate_ifft2_eq_spec: TypeError for a negative dim before AssertionError for a last axis != 2 before RuntimeError "
            "for a non-float view before IndexError / ZeroDivisionError of the centred shifts before IndexError / ValueError / "
            "RuntimeError of the dtype test and of torch), the exact acceptance condition (validate_ok_iff, "
            "validate_ok_iff_complex), fft2 and ifft2 reject exactly the same calls. "
            "CALL SITES AND RE-IMPLEMENTATIONS: every call of fft2 / ifft2 / forward_operator / backward_operator under direct/ (80 on "
            "the current tree) is scanned into a Lean table; for every table passing the decidable predicate (dim = distinct non-negative axis "
            "pairs/triples, only the three flags overridden) every call is accepted by the glue (site_accepted) and the inverse "
            "law and the closed form apply (callsite_laws); the numpy re-implementations (fake.fft, fake.ifft, "
            "SheppLoganDataset.fft) are translated into plans, and a plan passing Reimpl.ok computes exactly fft2/ifft2 "
            "(reimpl_eq_fft2, reimpl_inverse_pair); the pinned SheppLoganDataset.fft (shifts swapped) is refuted "
            "(shepp_fft_pinned_violates, shepp_fft_pinned_differs) and shown invisible on even sizes "
            "(shepp_fft_pinned_agrees_on_even); a translated table says that no function of the mechanism writes module / "
            "function state, updates an argument in place, reads an ambient torch mode (autocast / grad mode / default dtype / backend "
            "flags; private helpers of the module are followed), has mutable defaults / decorators or returns early (transforms_pure). "
            "Tied to the code by translated shift amounts / narrow offsets / cat order / call plan / dtype test / re-implementation "
            "plans / purity facts / call-site table (bridge lemmas) and by differential correspondence (exact on labelled tensors "
            "for the shifts; exact symbolic root-of-unity answers vs torch under 1e-5 for fft2/ifft2, for the numpy "
            "re-implementations and for torch.fft.fftn/ifftn alone on unit impulses; exception class names on single and double "
            "faults); a model/implementation disagreement on a protocol line is itself reported as the concrete failing input "
            "(search hook, replay re-runs the line).",
    "note": "Trusted: Lean kernel (+propext, Classical.choice, Quot.sound), the AST translator / scanners, and ONE assumption about "
            "the external transform: torch.fft.fftn/ifftn(x, dim=dims, norm) is the composition of the 1-D DFTs along the axes of "
            "dims with the per-axis scale of the norm. It is checked on every run (a) exactly: every unit impulse of a fixed set "
            "of small shapes (thorough: every 2-D shape up to 6x6 at two embeddings and every 3-axis shape up to 3x3x4), both "
            "directions, norms ortho / backward / forward, against the model's exact monomial in Q[w] (driver op fftn = the "
            "per-axis lifted DFT alone), and (b) on random integer data against sequential 1-D ffts and the explicit DFT matrix; "
            "linearity of fftn is part of the assumption. Everything else about the transform (inverse pair, isometry, commutation "
            "across axes, closed form) is proved for the Mathlib DFT. Float32 rounding is outside the theorems (tolerances "
            "1e-5/1e-4). Call-site table: `dim` given by name is resolved to the spatial-dims literals of the same file (or of "
            "direct/ when the file has none) — which literal a given object carries at run time is not modelled. The repaired "
            "finding of this phase: SheppLoganDataset.fft applied fftshift before / ifftshift after the transform (wrong for odd "
            "nx, ny; fixed in 6aa0ad9). Observations (not violations): numpy-int dims raise TypeError; fftshift/roll with shift = 0 "
            "return the input object itself (no caller of fftshift / ifftshift / roll exists outside transforms.py, and fft2/ifft2 "
            "never return a tensor sharing memory with their input); the 1-D mask fftshift in direct/common/subsample.py:1044 "
            "converts fftfreq layout to centred layout and is the correct direction.",
    "technique": "Lean 4 proof (list/index arithmetic, plan interpretation, alongAxis lifting, multi-index sums, Mathlib ZMod.dft) + "
                 "AST translation bridge (kernels, plans, structural tables) + differential correspondence + property oracle with "
                 "call histories and ambient torch modes (autocast bf16/fp16, no_grad, inference_mode, default dtype float64, "
                 "requires_grad inputs, deterministic algorithms; all 8 flag combinations)",
}
TRUSTED = [
    "Lean 4.33 kernel; axioms ⊆ {propext, Classical.choice, Quot.sound}",
    "harness/translate (Python AST -> Lean): shift amounts, roll_one_dim `%`/narrow windows/cat order, fft2/ifft2 call plan, "
    "verify_fft_dtype_possible / is_power_of_two, numpy re-implementation plans (dataflow order + axes), per-function purity "
    "counts, call-site scan (dim forms, flag overrides)",
    "torch.fft.fftn/ifftn(x, dim, norm) = composition of per-axis DFTs with the norm's per-axis scale (and linear): assumed; probed "
    "exactly on every unit impulse of small shapes for all three norms and on random data (key assumption/fftn-per-axis)",
    "numpy.fft.fft2/ifft2/fftshift/ifftshift used by the re-implementations = the same per-axis DFT / rolls (probed by the same "
    "unit-impulse correspondence)",
    "torch narrow/cat/view_as_complex/view_as_real index semantics as encoded by drop/take/++ and the identity view; "
    "Tensor.alongAxis = Tensor.alongAxisL is proved (Lemmas/TensorLift.lean), its agreement with torch's memory layout is "
    "validated by correspondence",
]
ASSUMPTIONS = [
    "shift correspondence uses integer labels (exact); fft2/ifft2, numpy re-implementation and fftn correspondence compare the "
    "model's exact monomial sqrt(num/den)*exp(-2*pi*i*E/L) with the implementation under atol 1e-5 on unit impulses",
    "oracle tolerances: inverse pair atol 1e-4 on integer-valued tensors in [-8, 8]; energy rtol 1e-4; numpy reference atol 1e-4; "
    "numpy re-implementations vs textbook sum atol 1e-6 (float64); histories and repeated calls bit-identical",
    "empty axes (length 0) are outside the property; the glue's answer for them (ZeroDivisionError centred, RuntimeError / "
    "ValueError otherwise) is modelled and compared",
    "a call site's `dim` name is resolved statically to the spatial-dims literals of its file",
]
RULE = ("shift cases: arange-labelled tensors of rank 1-6, lengths from {1,2,3,4,5,6,7,9,12}, every axis subset; non-trivial = "
        "some shifted axis has length >= 2 (bucket says whether an odd length >= 3 is shifted). fft cases: unit impulses "
        "(real or imaginary component) in tensors of rank 2-6, every axis pair/triple, all 8 flag combinations, both "
        "directions, operator strings of the YAMLs, views; numpy re-implementations on unit impulses (forced odd lengths); "
        "fftn cases: every unit impulse of the probe shapes x 2 directions x 3 norms; non-trivial = at least one transformed "
        "axis of length >= 2; error cases (single and double faults, empty axes, mixed power-of-two lengths) counted in bucket "
        "fft/err-*. oracle cases: one per (shape, dims, flags, seed) / re-implementation input / distinct call-site form / "
        "call history. distinct = distinct protocol line / oracle case key")
PENDING_FINDINGS: list[str] = []
# n-D corollaries (lifting of the 1-D theorems through Tensor.alongAxis) are obligations of this check too
EXTRA_LEAN_MODULES = ["DirectVerif.Lemmas.TensorLiftC01", "DirectVerif.Lemmas.C01Dft", "DirectVerif.Lemmas.C01Linear",
                      "DirectVerif.Lemmas.C01DftND", "DirectVerif.Lemmas.C01Validate", "DirectVerif.Lemmas.C01Sum"]

LENS = [1, 2, 3, 4, 5, 6, 7, 9, 12]


def _prod(s):
    p = 1
    for v in s:
        p *= v
    return p


def _shape(rng, rank, cap, need_odd_even=True):
    """axis lengths from LENS, product <= cap, with (when possible) an odd length >= 3 and an even one"""
    best = None
    for _ in range(400):
        s = [rng.choice(LENS) for _ in range(rank)]
        if _prod(s) > cap:
            continue
        has_odd = any(v % 2 == 1 and v >= 3 for v in s)
        has_even = any(v % 2 == 0 for v in s)
        if not need_odd_even or rank == 1 or (has_odd and has_even):
            return s
        best = s
    if best is not None:
        return best
    s = [rng.choice([1, 2, 3]) for _ in range(rank)]
    while _prod(s) > cap:
        s[s.index(max(s))] = 1
    return s


def _arange(shape):
    return torch.arange(_prod(shape), dtype=torch.float32).reshape(shape) + 1


def _impl_t(fn):
    def run():
        try:
            return ok_tensor(fn())
        except (ValueError, TypeError, IndexError, RuntimeError, AssertionError, ZeroDivisionError) as e:
            return "err " + err_name(e)
    return run



# --------------------------------------------------------------------------------------------------
# shape- and dtype-safe comparisons: a shape or dtype difference between the implementation's output and the expected
# value IS a difference (reported with the input), never an exception of the harness
class _BadOutput(Exception):
    """the implementation returned something of the wrong type / layout / dtype (message = what)"""


def _arr(a):
    if isinstance(a, torch.Tensor):
        a = a.detach()
        a = a.resolve_conj() if a.is_complex() else a
        return a.cpu().numpy()
    return np.asarray(a)


def _close(a, b, atol=0.0, rtol=0.0) -> bool:
    a, b = _arr(a), _arr(b)
    if a.shape != b.shape:
        return False
    try:
        return bool(np.allclose(a, b, atol=atol, rtol=rtol))
    except Exception:  # noqa: BLE001  (object arrays, …)
        return False


def _same(a, b) -> bool:
    """exact equality of shape, dtype kind and values (torch tensors or numpy arrays)"""
    a, b = _arr(a), _arr(b)
    return a.shape == b.shape and a.dtype.kind == b.dtype.kind and bool(np.array_equal(a, b))


def _diff(a, b):
    a, b = _arr(a), _arr(b)
    if a.shape != b.shape:
        return f"shape {list(a.shape)} instead of {list(b.shape)}"
    try:
        return float(np.max(np.abs(a - b))) if a.size else 0.0
    except Exception as e:  # noqa: BLE001
        return f"incomparable ({err_name(e)})"


def _absmax(a) -> float:
    a = _arr(a)
    try:
        return float(np.max(np.abs(a))) if a.size else 0.0
    except Exception:  # noqa: BLE001
        return 0.0


def _out_np(out, ci, want_cshape=None):
    """output of fft2 / ifft2 -> complex128 ndarray; raises _BadOutput on a wrong type / layout / dtype / shape"""
    if not isinstance(out, torch.Tensor):
        raise _BadOutput(f"returns {type(out).__name__}, not a tensor")
    want = torch.float32 if ci else torch.complex64
    if out.dtype != want:
        raise _BadOutput(f"dtype {out.dtype} instead of {want}")
    if ci:
        if out.dim() == 0 or out.shape[-1] != 2:
            raise _BadOutput(f"shape {list(out.shape)} has no trailing real/imaginary axis")
        out = torch.view_as_complex(out.contiguous())
    if want_cshape is not None and list(out.shape) != list(want_cshape):
        raise _BadOutput(f"shape {list(out.shape)} instead of {list(want_cshape)}")
    return out.detach().resolve_conj().numpy().astype(np.complex128)


# --------------------------------------------------------------------------------------------------
def correspondence(ctx: Ctx):
    """roll / fftshift / ifftshift: exact, through the line protocol"""
    import direct.data.transforms as T

    rng = ctx.rng
    cap = 700
    reps = ctx.budget(2, 30)
    for _ in range(reps):
        for rank in range(1, 7):
            shape = _shape(rng, rank, cap)
            x = _arange(shape)
            sh, d = tensor_groups(x)
            axes = list(range(rank))
            subsets = [list(c) for k in range(0, rank + 1) for c in itertools.combinations(axes, k)]
            for dims in subsets:
                if rng.random() < 0.3:
                    dims = dims[:]
                    rng.shuffle(dims)
                odd = any(shape[a] % 2 == 1 and shape[a] >= 3 for a in dims)
                nt = any(shape[a] >= 2 for a in dims)
                for op, fn in (("fftshift", T.fftshift), ("ifftshift", T.ifftshift)):
                    yield {"line": line(op, sh, d, dims), "impl": _impl_t(lambda x=x, dims=dims, fn=fn: fn(x, dim=list(dims))),
                           "nontrivial": nt, "bucket": f"{op}/r{rank}/" + ("odd" if odd else "even" if nt else "trivial")}
            # dim=None means every axis
            for op, fn in (("fftshift", T.fftshift), ("ifftshift", T.ifftshift)):
                yield {"line": line(op, sh, d, axes), "impl": _impl_t(lambda x=x, fn=fn: fn(x)),
                       "nontrivial": max(shape) >= 2, "bucket": f"{op}/r{rank}/dim=None"}
    # roll with arbitrary (negative, > n, zero) shifts
    for _ in range(ctx.budget(90, 5000)):
        rank = rng.randint(1, 6)
        shape = _shape(rng, rank, 500, need_odd_even=False)
        x = _arange(shape)
        k = rng.randint(1, rank)
        dims = rng.sample(range(rank), k)
        if rng.random() < 0.15:
            dims.append(rng.choice(dims))        # the same axis twice: shifts add
        shifts = [rng.choice([0, 1, -1, 2, -3, shape[a], shape[a] + 1, -2 * shape[a] - 1, rng.randint(-15, 15)]) for a in dims]
        sh, d = tensor_groups(x)
        nt = any(shape[a] >= 2 and s % shape[a] != 0 for a, s in zip(dims, shifts))
        neg = any(s < 0 for s in shifts)
        yield {"line": line("roll", sh, d, shifts, dims),
               "impl": _impl_t(lambda x=x, s=shifts, dims=dims: T.roll(x, list(s), list(dims))),
               "nontrivial": nt, "bucket": "roll/" + ("negative" if neg else "nonneg")}
    # malformed stream: length mismatch, axis out of range, negative axes (Python indexing: allowed)
    for _ in range(ctx.budget(30, 300)):
        rank = rng.randint(1, 4)
        shape = _shape(rng, rank, 200, need_odd_even=False)
        x = _arange(shape)
        sh, d = tensor_groups(x)
        kind = rng.choice(["mismatch", "range", "negaxis"])
        if kind == "mismatch":
            dims = rng.sample(range(rank), rng.randint(1, rank))
            shifts = [1] * (len(dims) + rng.choice([-1, 1]))
            yield {"line": line("roll", sh, d, shifts, dims),
                   "impl": _impl_t(lambda x=x, s=shifts, dims=dims: T.roll(x, list(s), list(dims))),
                   "nontrivial": True, "bucket": "malformed/len-mismatch"}
        elif kind == "range":
            dims = [rng.choice([rank, rank + 1, -rank - 1])]
            op = rng.choice(["fftshift", "ifftshift"])
            fn = getattr(T, op)
            yield {"line": line(op, sh, d, dims), "impl": _impl_t(lambda x=x, dims=dims, fn=fn: fn(x, dim=list(dims))),
                   "nontrivial": True, "bucket": "malformed/axis-out-of-range"}
        else:
            dims = [-rng.randint(1, rank)]
            op = rng.choice(["fftshift", "ifftshift"])
            fn = getattr(T, op)
            yield {"line": line(op, sh, d, dims), "impl": _impl_t(lambda x=x, dims=dims, fn=fn: fn(x, dim=list(dims))),
                   "nontrivial": shape[dims[0]] >= 2, "bucket": "edge/negative-axis"}


# --------------------------------------------------------------------------------------------------
DT_CODE = {torch.float32: 0, torch.float64: 1, torch.float16: 2, torch.complex64: 3, torch.complex128: 4, torch.int64: 9}


def _axis_tuples(rank):
    ax = range(rank)
    return [list(c) for c in itertools.combinations(ax, 2)] + [list(c) for c in itertools.combinations(ax, 3)]



# --------------------------------------------------------------------------------------------------
# call sites: how the operators are obtained (operator strings of the shipped YAMLs / DefaultConfig parsed by
# direct.utils.str_to_class into functools.partial objects) and called (`dim=` literals of the model / transform classes)
import ast as _ast
import functools as _functools
import re as _re


@_functools.lru_cache(maxsize=None)
def _operator_strings():
    """-> sorted list of (forward_string, backward_string) pairs found under REPO (YAML `physics:` blocks + DefaultConfig)"""
    pairs = set()
    for y in list(core.REPO.rglob("*.yaml")) + list(core.REPO.rglob("*.yml")):
        try:
            txt = y.read_text()
        except OSError:
            continue
        f = _re.findall(r"^\s*forward_operator:\s*(.+?)\s*$", txt, _re.M)
        b = _re.findall(r"^\s*backward_operator:\s*(.+?)\s*$", txt, _re.M)
        for ff, bb in zip(f, b):
            pairs.add((ff.strip("'\""), bb.strip("'\"")))
    try:
        tree = _ast.parse((core.REPO / "direct/config/defaults.py").read_text())
        d = {}
        for n in _ast.walk(tree):
            if isinstance(n, _ast.AnnAssign) and isinstance(n.target, _ast.Name) and n.target.id in ("forward_operator", "backward_operator") \
                    and isinstance(n.value, _ast.Constant):
                d[n.target.id] = n.value.value
        if len(d) == 2:
            pairs.add((d["forward_operator"], d["backward_operator"]))
    except (OSError, SyntaxError):
        pass
    # forms the parser documents but no YAML uses
    pairs |= {("fft2(centered=False, normalized=False)", "ifft2(centered=False, normalized=False)"),
              ("fft2(normalized=False)", "ifft2(normalized=False)"), ("fft2(centered=True, normalized=True)", "ifft2(centered=True)")}
    return sorted(pairs)


@_functools.lru_cache(maxsize=None)
def _spatial_dim_literals():
    """literal `…spatial_dims… = (a, b)` / SpatialDims(TWO_D=…, THREE_D=…) tuples assigned anywhere under direct/"""
    found = set()
    for py in (core.REPO / "direct").rglob("*.py"):
        try:
            tree = _ast.parse(py.read_text())
        except (OSError, SyntaxError):
            continue
        for n in _ast.walk(tree):
            vals = []
            if isinstance(n, _ast.Assign) and any("spatial_dims" in _ast.unparse(t) for t in n.targets):
                vals = [n.value]
            if isinstance(n, _ast.Call) and _ast.unparse(n.func).endswith("SpatialDims"):
                vals = [k.value for k in n.keywords]
            for v in vals:
                try:
                    lit = _ast.literal_eval(v)
                except Exception:  # noqa: BLE001
                    continue
                if isinstance(lit, (tuple, list)) and 2 <= len(lit) <= 3 and all(isinstance(i, int) for i in lit):
                    found.add(tuple(lit))
    return sorted(found | {(1, 2), (2, 3)})


def _parse_flags(op_string):
    """independent reading of an operator string -> (name, centered, normalized, complex_input)"""
    name = op_string.split("(")[0].strip()
    flags = {"centered": True, "normalized": True, "complex_input": True}
    for k in flags:
        m = _re.search(rf"{k}\s*=\s*(True|False)", op_string)
        if m:
            flags[k] = m.group(1) == "True"
    return name, flags["centered"], flags["normalized"], flags["complex_input"]


def _as_view(rng, x):
    """a tensor equal to x that is not a plain contiguous allocation (last axis keeps stride 1): -> (view, kind)"""
    kind = rng.choice(["strided-slice", "permuted-memory", "offset-slice"])
    if kind == "strided-slice" and x.dim() >= 2:
        big = torch.zeros([2 * s for s in x.shape[:-1]] + [x.shape[-1]], dtype=x.dtype)
        v = big[tuple(slice(None, None, 2) for _ in x.shape[:-1]) + (slice(None),)]
        v.copy_(x)
        return v, kind
    if kind == "permuted-memory" and x.dim() >= 3:
        perm = list(range(x.dim() - 1))
        rng.shuffle(perm)
        perm = perm + [x.dim() - 1]
        inv = [perm.index(i) for i in range(x.dim())]
        base = x.permute(perm).contiguous()
        return base.permute(inv), kind
    big = torch.zeros([x.shape[0] + 2] + list(x.shape[1:]), dtype=x.dtype)
    v = big[1:-1]
    v.copy_(x)
    return v, "offset-slice"


def _reimpl_out(out):
    out = np.asarray(out)
    if out.dtype.kind != "c":
        raise _BadOutput(f"dtype {out.dtype} is not complex")
    return out.astype(np.complex128)


def _reimpl_functions():
    """numpy re-implementations of the centred transform under direct/ -> (name, fn, inverse, shape/dims maker)"""
    from direct.data import fake
    from direct.data.datasets import SheppLoganDataset

    def last2(rng, rep):
        rank = rng.randint(2, 4)
        cshape = _shape(rng, rank, 200, need_odd_even=False)
        cshape[-1 - (rep % 2)] = [3, 5, 7, 9][rep % 4] if rep % 3 else cshape[-1 - (rep % 2)]
        return cshape, [rank - 2, rank - 1]

    def axes12(rng, rep):
        cshape = _shape(rng, 3, 200, need_odd_even=False)
        cshape[1 + (rep % 2)] = [3, 5, 7, 9][rep % 4] if rep % 3 else cshape[1 + (rep % 2)]
        return cshape, [1, 2]

    return [("fake.fft", fake.fft, 0, last2), ("fake.ifft", fake.ifft, 1, last2),
            ("SheppLoganDataset.fft", SheppLoganDataset.fft, 0, axes12)]


def _fftn_probe_shapes(ctx):
    """(shape, dims) whose every unit impulse is sent through torch.fft.fftn / ifftn (quick: a fixed handful incl. odd,
    even, 1, non-square, a triple, unsorted dims; thorough: every 2-D shape up to 6x6 embedded at two positions, every
    3-axis shape up to 3x3x4)"""
    if not ctx.thorough:
        return [([3, 4], [0, 1]), ([2, 5, 3], [1, 2]), ([4, 2, 3], [2, 0]), ([1, 6], [0, 1]), ([2, 3, 2], [0, 1, 2]), ([5, 1, 2], [0, 2])]
    out = []
    for n in range(1, 7):
        for m in range(1, 7):
            out.append(([n, m], [0, 1]))
            out.append(([2, n, m], [2, 1] if (n + m) % 2 else [1, 2]))
    for a in range(1, 4):
        for b in range(1, 4):
            for c in range(1, 5):
                out.append(([a, b, c], [0, 1, 2] if (a + b + c) % 2 else [2, 0, 1]))
    return out


def _fft_cases(ctx: Ctx):
    """-> dicts {line, run (-> ('err', name) | ('ok', complex ndarray)), key, nontrivial, bucket}"""
    import direct.data.transforms as T

    rng = ctx.rng
    per_tuple = ctx.budget(8, 16)
    combos = [(c, n, ci, inv) for c in (1, 0) for n in (1, 0) for ci in (1, 0) for inv in (0, 1)]
    k = 0
    for rank in range(2, 7):
        for dims in _axis_tuples(rank):
            chosen = combos if per_tuple >= 16 else [combos[(k + 5 * i) % 16] for i in range(per_tuple)]
            k += 1
            for (c, n, ci, inv) in chosen:
                cshape = _shape(rng, rank, 260)
                d = dims[:]
                if rng.random() < 0.3:
                    rng.shuffle(d)
                pos = [rng.randrange(s) for s in cshape]
                comp = rng.choice([0, 1])
                fn = T.ifft2 if inv else T.fft2
                if ci:
                    x = torch.zeros(cshape + [2], dtype=torch.float32)
                    x[tuple(pos) + (comp,)] = 1.0
                    shape = cshape + [2]
                else:
                    x = torch.zeros(cshape, dtype=torch.complex64)
                    x[tuple(pos)] = 1j if comp else 1.0
                    shape = cshape

                def run(x=x, d=tuple(d), c=c, n=n, ci=ci, fn=fn, comp=comp):
                    out = _out_np(fn(x, dim=d, centered=bool(c), normalized=bool(n), complex_input=bool(ci)), ci)
                    return out / 1j if comp else out
                odd = any(cshape[a] % 2 == 1 and cshape[a] >= 3 for a in d)
                yield {"line": line("fft", shape, pos, d, [c, n, ci, inv], [DT_CODE[x.dtype]]), "run": run,
                       "nontrivial": any(cshape[a] >= 2 for a in d),
                       "bucket": f"fft/r{rank}/{len(d)}ax/c{c}n{n}ci{ci}" + ("/inv" if inv else "/fwd") + ("/odd" if odd else "/even")}
    # call sites: operators obtained from the YAML / DefaultConfig strings through str_to_class, called with the `dim=`
    # literals of the model classes (as tuple or list), on contiguous tensors and on views
    from direct.utils import str_to_class

    for (fs, bs) in _operator_strings():
        for op_string in (fs, bs):
            name, c, n, ci = _parse_flags(op_string)
            inv = 1 if name == "ifft2" else 0
            for dims in _spatial_dim_literals():
                for rep in range(ctx.budget(1, 4)):
                    rank = max(dims) + 1 + rng.choice([0, 0, 1])
                    cshape = _shape(rng, rank, 260)
                    pos = [rng.randrange(sz) for sz in cshape]
                    x = torch.zeros(cshape + [2], dtype=torch.float32) if ci else torch.zeros(cshape, dtype=torch.complex64)
                    if ci:
                        x[tuple(pos) + (0,)] = 1.0
                    else:
                        x[tuple(pos)] = 1.0
                    view = "contiguous"
                    if rng.random() < 0.5:
                        x, view = _as_view(rng, x)
                    dform = rng.choice(["tuple", "list"])

                    def run(x=x, d=dims, op_string=op_string, ci=ci, dform=dform):
                        op = str_to_class("direct.data.transforms", op_string)
                        return _out_np(op(x, dim=tuple(d) if dform == "tuple" else list(d)), ci)
                    yield {"line": line("fft", cshape + ([2] if ci else []), pos, list(dims), [int(c), int(n), int(ci), inv],
                                        [DT_CODE[x.dtype]]), "run": run,
                           "nontrivial": any(cshape[a] >= 2 for a in dims),
                           "bucket": f"fft/callsite/{op_string}/dim={dims}/{dform}/{view}"}
    # views of the impulse tensor for the direct calls
    for _ in range(ctx.budget(40, 400)):
        rank = rng.randint(2, 5)
        dims = rng.choice(_axis_tuples(rank))
        c, n, ci, inv = (rng.randint(0, 1) for _ in range(4))
        cshape = _shape(rng, rank, 200)
        pos = [rng.randrange(sz) for sz in cshape]
        x = torch.zeros(cshape + [2], dtype=torch.float32) if ci else torch.zeros(cshape, dtype=torch.complex64)
        x[tuple(pos) + ((0,) if ci else ())] = 1.0
        x, view = _as_view(rng, x)
        fn = T.ifft2 if inv else T.fft2

        def run(x=x, d=tuple(dims), c=c, n=n, ci=ci, fn=fn):
            return _out_np(fn(x, dim=d, centered=bool(c), normalized=bool(n), complex_input=bool(ci)), ci)
        yield {"line": line("fft", cshape + ([2] if ci else []), pos, dims, [c, n, ci, inv], [DT_CODE[x.dtype]]), "run": run,
               "nontrivial": any(cshape[a] >= 2 for a in dims), "bucket": f"fft/view/{view}"}
    # real float32 input with complex_input=False is accepted when every transformed length is a power of two
    for _ in range(ctx.budget(12, 100)):
        rank = rng.randint(2, 4)
        cshape = [rng.choice([1, 2, 4, 8]) for _ in range(rank)]
        d = rng.sample(range(rank), 2)
        pos = [rng.randrange(s) for s in cshape]
        c, n, inv = rng.randint(0, 1), rng.randint(0, 1), rng.randint(0, 1)
        x = torch.zeros(cshape, dtype=torch.float32)
        x[tuple(pos)] = 1.0
        fn = T.ifft2 if inv else T.fft2
        yield {"line": line("fft", cshape, pos, d, [c, n, 0, inv], [0]),
               "run": lambda x=x, d=tuple(d), c=c, n=n, fn=fn: _out_np(fn(x, dim=d, centered=bool(c), normalized=bool(n),
                                                                          complex_input=False), 0),
               "nontrivial": any(cshape[a] >= 2 for a in d), "bucket": "fft/real-float32-pow2"}
    # re-implementations of the centred transform with numpy outside transforms.py (fake.fft / fake.ifft /
    # SheppLoganDataset.fft): the same protocol line as fft2 / ifft2 with centered=normalized=1 on a complex array
    for name, fn, inv, mk in _reimpl_functions():
        for rep in range(ctx.budget(6, 40)):
            cshape, dims = mk(rng, rep)
            pos = [rng.randrange(sz) for sz in cshape]
            x = np.zeros(cshape, dtype=np.complex128)
            x[tuple(pos)] = 1.0
            odd = any(cshape[a] % 2 == 1 and cshape[a] >= 3 for a in dims)
            yield {"line": line("fft", cshape, pos, dims, [1, 1, 0, inv], [3]),
                   "run": lambda x=x, fn=fn: _reimpl_out(fn(x)),
                   "nontrivial": any(cshape[a] >= 2 for a in dims), "bucket": f"fft/reimpl/{name}/" + ("odd" if odd else "even")}
    # the ONE assumption about the external transform, probed systematically and exactly: torch.fft.fftn / ifftn over a
    # tuple of axes of every unit impulse of small tensors equals the per-axis DFT monomial (all norms incl. "forward")
    for cshape, dims in _fftn_probe_shapes(ctx):
        for pos in itertools.product(*[range(n) for n in cshape]):
            if any(p for a, p in enumerate(pos) if a not in dims):
                continue                      # untransformed axes: one representative
            for inv in (0, 1):
                for nmc, nm in ((0, "ortho"), (1, "backward"), (2, "forward")):
                    x = torch.zeros(cshape, dtype=torch.complex64)
                    x[tuple(pos)] = 1.0
                    f = torch.fft.ifftn if inv else torch.fft.fftn
                    yield {"line": line("fftn", cshape, list(pos), list(dims), [inv, nmc]),
                           "run": lambda x=x, f=f, d=tuple(dims), nm=nm: _out_np(f(x, dim=d, norm=nm), 0),
                           "nontrivial": any(cshape[a] >= 2 for a in dims),
                           "bucket": f"assumption/fftn-basis/{len(dims)}ax/" + nm}
    # fixed double-fault / order-sensitive calls, both functions, centred and not: which exception wins is decided by the
    # statement order of the glue (dim check, assert_complex, view_as_complex, shifts, dtype test, torch)
    fixed = [("negdim+last-not-2", [3, 4, 3], torch.float32, 1, (0, -1)), ("negdim+float64", [3, 4, 2], torch.float64, 1, (-2, 1)),
             ("negdim+complex128", [3, 4], torch.complex128, 0, (-1, 0)), ("last-not-2+int64", [3, 4, 3], torch.int64, 1, (0, 1)),
             ("last-not-2+float64", [3, 4, 1], torch.float64, 1, (0, 1)), ("dim-range+float16", [3, 4, 2], torch.float16, 1, (0, 2)),
             ("dim-range+float32", [3, 4, 2], torch.float32, 1, (1, 3)), ("dim-range+real", [4, 8], torch.float32, 0, (0, 2)),
             ("dupdim+float64", [3, 4, 2], torch.float64, 1, (1, 1)), ("dupdim", [3, 4, 2], torch.float32, 1, (1, 1)),
             ("empty-axis", [3, 0, 2], torch.float32, 1, (0, 1)), ("empty-axis+float64", [0, 4, 2], torch.float64, 1, (0, 1)),
             ("real-mixed-pow2", [8, 6], torch.float32, 0, (0, 1)), ("real-mixed-pow2-b", [2, 6, 4], torch.float32, 0, (2, 1)),
             ("int64-complex-layout", [3, 4, 2], torch.int64, 1, (0, 1)), ("bool-not-complex", [3, 4], torch.int64, 0, (0, 1))]
    for kind, shape, dt, ci, d in fixed:
        for inv in (0, 1):
            for c in (0, 1):
                x = torch.zeros(shape, dtype=dt)
                fn = T.ifft2 if inv else T.fft2

                def run(x=x, d=tuple(d), c=c, ci=ci, fn=fn):
                    return _out_np(fn(x, dim=d, centered=bool(c), normalized=True, complex_input=bool(ci)), ci)
                yield {"line": line("fft", shape, [0] * (len(shape) - (1 if ci else 0)), list(d), [c, 1, ci, inv], [DT_CODE[dt]]),
                       "run": run, "nontrivial": True, "bucket": "fft/err-fixed/" + kind, "expect_err": True}
    # malformed stream: the code must reject these, and the model must name the same exception
    for _ in range(ctx.budget(60, 600)):
        rank = rng.randint(2, 4)
        cshape = _shape(rng, rank, 120, need_odd_even=False)
        d = rng.sample(range(rank), 2)
        pos = [0] * rank
        c, n, ci, inv = (rng.randint(0, 1) for _ in range(4))
        kind = rng.choice(["negdim", "negdim", "float64", "float16", "complex128", "real-nonpow2", "last-not-2", "dupdim",
                           "dim-range", "int64", "empty-axis", "real-mixed-pow2", "combo", "combo", "combo"])
        kinds = [kind]
        if kind == "combo":      # two faults at once: the order of the checks decides which exception wins
            kinds = rng.sample(["negdim", "float64", "float16", "last-not-2", "dupdim", "dim-range", "int64", "empty-axis"], 2)
            if "last-not-2" in kinds or "int64" in kinds:
                ci = 1
        kind = "+".join(sorted(kinds)) if len(kinds) > 1 else kind
        dt = torch.float32 if ci else torch.complex64
        last = [2] if ci else []
        for k1 in kinds:
            if k1 == "negdim":
                d[rng.randrange(2)] = -rng.randint(1, rank)
            elif k1 == "float64":
                dt = torch.float64
            elif k1 == "float16":
                dt = torch.float16
            elif k1 == "complex128":
                ci, dt, last = 0, torch.complex128, []
            elif k1 == "real-nonpow2":
                ci, dt, last = 0, torch.float32, []
                cshape[d[0]] = rng.choice([3, 5, 6, 7])
            elif k1 == "real-mixed-pow2":      # one transformed length a power of two, the other not
                ci, dt, last = 0, torch.float32, []
                cshape[d[0]] = rng.choice([2, 4, 8])
                cshape[d[1]] = rng.choice([3, 5, 6])
            elif k1 == "last-not-2":
                ci, dt = 1, (dt if dt in (torch.float32, torch.float64, torch.float16) else torch.float32)
                last = [rng.choice([1, 3])]
            elif k1 == "dupdim":
                d[1] = d[0]
            elif k1 == "dim-range":
                d[rng.randrange(2)] = rank + rng.randint(0, 1)
            elif k1 == "int64":
                ci, dt = 1, torch.int64
                last = last or [2]
            elif k1 == "empty-axis":
                dd = [a for a in d if 0 <= a < rank]
                if dd:
                    cshape[rng.choice(dd)] = 0
        shape = cshape + last
        x = torch.zeros(shape, dtype=dt)
        fn = T.ifft2 if inv else T.fft2

        def run(x=x, d=tuple(d), c=c, n=n, ci=ci, fn=fn):
            return _out_np(fn(x, dim=d, centered=bool(c), normalized=bool(n), complex_input=bool(ci)), ci)
        yield {"line": line("fft", shape, pos[:len(shape) - (1 if ci else 0)], d, [c, n, ci, inv], [DT_CODE[dt]]), "run": run,
               "nontrivial": True, "bucket": "fft/err-" + kind, "expect_err": True}


def custom_correspondence(ctx: Ctx):
    """fft2 / ifft2 on unit impulses: the model's exact symbolic answer (scale^2 = num/den, exponent E of the L-th root of
    unity per entry) is evaluated and compared with torch under atol 1e-5; exceptions are compared by class name."""
    cases = list(_fft_cases(ctx))
    impl = []
    for c in cases:
        try:
            impl.append(("ok", c["run"]()))
        except _BadOutput as e:
            impl.append(("bad", str(e)))
        except Exception as e:  # noqa: BLE001
            impl.append(("err", err_name(e)))
    model = core.run_driver(ctx.prop, [c["line"] for c in cases])
    dis = []
    for c, (kind, val), m in zip(cases, impl, model):
        ctx.traces += 1
        m = m.strip()
        agree = True
        shown = ""
        if kind == "bad":
            agree, shown = False, f"bad output: {val}"
        elif m.startswith("err "):
            agree = kind == "err" and val == m[4:]
            shown = f"err {val}" if kind == "err" else "ok <tensor>"
        elif kind == "err":
            agree = False
            shown = f"err {val}"
        else:
            gs = [[int(v) for v in g.split()] for g in m[3:].split("|")]
            shp, (L, num, den), es = gs[0], gs[1], np.array(gs[2], dtype=np.int64)
            exp = np.where(es < 0, 0.0, math.sqrt(num / den) * np.exp(-2j * np.pi * np.maximum(es, 0) / L)).reshape(shp)
            if list(val.shape) != shp:
                agree = False
                shown = f"shape {list(val.shape)}"
            else:
                err = float(np.max(np.abs(val - exp))) if val.size else 0.0
                agree = err < 1e-5
                shown = f"max|impl-model|={err:.2e}"
        ctx.count(c["line"], c["nontrivial"], sample={"op": c["line"][:160], "impl": shown, "model": m[:120]}, bucket=c["bucket"])
        if c.get("expect_err") and not m.startswith("err "):
            ctx.hist["fft/err-accepted-by-both"] = ctx.hist.get("fft/err-accepted-by-both", 0) + 1
        if not agree:
            dis.append({"line": c["line"], "impl": shown, "model": m, "key": c["line"], "bucket": c["bucket"]})
    return dis


# --------------------------------------------------------------------------------------------------
def _rand_complex(rng, cshape, lo=-8, hi=8):
    g = torch.Generator().manual_seed(rng.randrange(2 ** 31))
    return torch.randint(lo, hi + 1, tuple(cshape) + (2,), generator=g).float()


def _np_ref(z, axes, centered, normalized, inverse):
    norm = "ortho" if normalized else None
    f = np.fft.ifftn if inverse else np.fft.fftn
    if centered:
        return np.fft.fftshift(f(np.fft.ifftshift(z, axes=axes), axes=axes, norm=norm), axes=axes)
    return f(z, axes=axes, norm=norm)


def _textbook(z, axes, centered, normalized, inverse):
    """sum_j x_j w^{(k-c)(j-c)} per axis, c = n // 2 when centred else 0 — no library FFT / shift involved"""
    out = z.astype(np.complex128)
    for a in axes:
        n = out.shape[a]
        c = n // 2 if centered else 0
        idx = np.arange(n) - c
        W = np.exp((2j if inverse else -2j) * np.pi * np.outer(idx, idx) / n)
        scale = (1 / math.sqrt(n)) if normalized else ((1 / n) if inverse else 1.0)
        out = np.moveaxis(np.tensordot(W * scale, np.moveaxis(out, a, 0), axes=(1, 0)), 0, a)
    return out


def _call(T, name, x, dims, c, n, ci):
    return getattr(T, name)(x, dim=tuple(dims), centered=bool(c), normalized=bool(n), complex_input=bool(ci))


def _as_np(out, ci):
    """complex128 ndarray of an fft2 / ifft2 output; a wrong layout / dtype gives an array no expected value compares equal to"""
    try:
        return _out_np(out, ci)
    except _BadOutput as e:
        return np.array([f"bad output: {e}"], dtype=object)


def _ambient_modes():
    """ambient torch modes the operators must not depend on: name -> (context-manager factory, requires_grad input)"""
    import contextlib

    @contextlib.contextmanager
    def default_dtype(dt):
        old = torch.get_default_dtype()
        torch.set_default_dtype(dt)
        try:
            yield
        finally:
            torch.set_default_dtype(old)

    @contextlib.contextmanager
    def deterministic():
        old = torch.are_deterministic_algorithms_enabled()
        warn = torch.is_deterministic_algorithms_warn_only_enabled()
        torch.use_deterministic_algorithms(True)
        try:
            yield
        finally:
            torch.use_deterministic_algorithms(old, warn_only=warn)

    return {
        "autocast-cpu-bfloat16": (lambda: torch.autocast("cpu", dtype=torch.bfloat16), False),
        "autocast-cpu-float16": (lambda: torch.autocast("cpu", dtype=torch.float16), False),
        "no_grad": (torch.no_grad, False),
        "inference_mode": (torch.inference_mode, False),
        "default-dtype-float64": (lambda: default_dtype(torch.float64), False),
        "requires_grad": (contextlib.nullcontext, True),
        "deterministic-algorithms": (deterministic, False),
    }


def _fft_oracle_case(T, shape_c, dims, c, n, ci, seed, mode=None):
    """-> list of (key, what, observed) for the failing laws on this input (optionally inside an ambient torch mode)"""
    if mode is None:
        return _fft_oracle_case0(T, shape_c, dims, c, n, ci, seed, False)
    import warnings

    factory, rg = _ambient_modes()[mode]
    with warnings.catch_warnings():
        warnings.simplefilter("ignore")
        with factory():
            bad = _fft_oracle_case0(T, shape_c, dims, c, n, ci, seed, rg)
    return [(f"ambient-mode/{mode}/{k}", f"inside {mode}: {w}", o) for k, w, o in bad]


def _fft_oracle_case0(T, shape_c, dims, c, n, ci, seed, requires_grad):
    r = __import__("random").Random(seed)
    xr = _rand_complex(r, shape_c)
    x = xr if ci else torch.view_as_complex(xr)
    z = torch.view_as_complex(xr).numpy().astype(np.complex128)
    if requires_grad:
        x = x.clone().requires_grad_(True)
    bad = []
    odd = any(shape_c[a] % 2 == 1 and shape_c[a] >= 3 for a in dims)
    tag = ("centered" if c else "uncentered") + ("-odd" if odd else "-even")
    x0 = x.detach().clone()
    outs = {}
    try:
        outs["fft2(x)"] = fwd = _call(T, "fft2", x, dims, c, n, ci)
        outs["ifft2(x)"] = bwd = _call(T, "ifft2", x, dims, c, n, ci)
    except Exception as e:  # noqa: BLE001
        return [("fft-raises-on-valid-input", f"fft2/ifft2 raise {err_name(e)} on a valid float32/complex64 input", repr(e))]
    # shape / dtype / layout of the outputs come first: every later law needs them
    for nm, y in outs.items():
        try:
            _out_np(y, ci, want_cshape=shape_c)
        except _BadOutput as e:
            bad.append((f"output-shape-or-dtype/{nm.split('(')[0]}/{tag}", f"{nm}: {e} (input complex shape {list(shape_c)}, dim={tuple(dims)})",
                        str(e)))
    if bad:
        return bad
    try:
        fwd0 = fwd.detach().clone()
        back1 = _call(T, "ifft2", fwd, dims, c, n, ci)
        back2 = _call(T, "fft2", bwd, dims, c, n, ci)
        again = _call(T, "fft2", x, dims, c, n, ci)
    except Exception as e:  # noqa: BLE001
        return [("fft-raises-on-valid-input", f"fft2/ifft2 raise {err_name(e)} on the output of the other transform", repr(e))]
    if not _same(x, x0) or not _same(fwd, fwd0):
        bad.append((f"history/input-modified/{tag}", "fft2 / ifft2 modify their input tensor in place", "input differs after the call"))
    if not _same(again, fwd):
        bad.append((f"history/repeated-call-differs/{tag}", "fft2 called twice on the same input (with ifft2 calls in between) returns "
                    "different tensors", _diff(again, fwd)))
    for nm, back in (("ifft2(fft2(x))", back1), ("fft2(ifft2(x))", back2)):
        if not _close(_as_np(back, ci), z, atol=1e-4):
            bad.append((f"inverse-pair/{tag}", f"{nm} != x", _diff(_as_np(back, ci), z)))
    if n:
        e0 = float(np.sum(np.abs(z) ** 2))
        for nm, y in (("fft2", fwd), ("ifft2", bwd)):
            e1 = float(np.sum(np.abs(_as_np(y, ci)) ** 2))
            if abs(e1 - e0) > 1e-4 * max(1.0, e0):
                bad.append((f"energy/{nm}/{tag}", f"normalized {nm} does not preserve energy", [e0, e1]))
    for nm, y, inv in (("fft2", fwd, False), ("ifft2", bwd, True)):
        ref = _np_ref(z, tuple(dims), c, n, inv)
        scale = max(1.0, _absmax(ref))
        if not _close(_as_np(y, ci), ref, atol=1e-4 * scale):
            bad.append((f"reference/{nm}/{tag}", f"{nm} differs from the numpy reference (optionally shifted) DFT", _diff(_as_np(y, ci), ref)))
        if _prod(shape_c) <= 400:
            tb = _textbook(z, tuple(dims), c, n, inv)
            if not _close(_as_np(y, ci), tb, atol=1e-4 * scale):
                bad.append((f"textbook/{nm}/{tag}", f"{nm} differs from sum_j x_j w^((k-c)(j-c))", _diff(_as_np(y, ci), tb)))
    return bad


def _reimpl_case(T, name, cshape, dims, seed):
    """numpy re-implementation `name` on random integer-valued complex data -> failing laws"""
    fns = {n: (f, inv) for n, f, inv, _ in _reimpl_functions()}
    fn, inv = fns[name]
    r = __import__("random").Random(seed)
    xr = _rand_complex(r, cshape)
    z = torch.view_as_complex(xr).numpy().astype(np.complex128)
    odd = any(cshape[a] % 2 == 1 and cshape[a] >= 3 for a in dims)
    tag = "odd" if odd else "even"
    slug = {"fake.fft": "fake-fft", "fake.ifft": "fake-ifft", "SheppLoganDataset.fft": "shepp-logan-fft"}[name]
    bad = []
    try:
        z0 = z.copy()
        got = np.asarray(fn(z))
        ours = _as_np(_call(T, "ifft2" if inv else "fft2", xr, dims, 1, 1, 1), 1)
    except Exception as e:  # noqa: BLE001
        return [(f"reimplementation/{slug}-raises", f"{name} raises {err_name(e)}", repr(e)[:200])]
    scale = max(1.0, _absmax(ours))
    if not _close(got, ours, atol=1e-4 * scale):
        bad.append((f"reimplementation/{slug}-{tag}", f"{name} differs from transforms.{'ifft2' if inv else 'fft2'} (centred, normalised) "
                    "on the same axes", _diff(got, ours)))
    if _prod(cshape) <= 400:
        tb = _textbook(z, tuple(dims), 1, 1, bool(inv))
        if not _close(got, tb, atol=1e-6 * scale):
            bad.append((f"reimplementation/{slug}-textbook-{tag}", f"{name} differs from sum_j x_j w^((k-c)(j-c)), c = n // 2",
                        _diff(got, tb)))
    if not _same(z, z0):
        bad.append((f"reimplementation/{slug}-modifies-input", f"{name} modifies its input", ""))
    if name.startswith("fake."):
        other = fns["fake.ifft" if name == "fake.fft" else "fake.fft"][0]
        try:
            back = np.asarray(other(got))
        except Exception as e:  # noqa: BLE001
            back = np.array([f"raises {err_name(e)}"], dtype=object)
        if not _close(back, z, atol=1e-8 * max(1.0, _absmax(z))):
            bad.append((f"reimplementation/fake-inverse-pair-{tag}", "fake.ifft(fake.fft(x)) != x (or the converse)", _diff(back, z)))
    return bad


def _site_case(T, dims, overrides, seed):
    """call fft2 / ifft2 the way a call site does -> '' or what went wrong"""
    flags = {"centered": True, "normalized": True, "complex_input": True}
    for k, v in overrides:
        if k < 3:
            flags[("centered", "normalized", "complex_input")[k]] = bool(v)
        else:
            return "keyword the operators do not have"
    r = __import__("random").Random(seed)
    rank = max([a for a in dims if a >= 0] + [1]) + 2
    cshape = _shape(r, rank, 400)
    xr = _rand_complex(r, cshape)
    x = xr if flags["complex_input"] else torch.view_as_complex(xr)
    z = torch.view_as_complex(xr).numpy().astype(np.complex128)
    for nm in ("fft2", "ifft2"):
        for dform in (tuple(dims), list(dims)):
            try:
                y = getattr(T, nm)(x, dim=dform, **flags)
            except Exception as e:  # noqa: BLE001
                return f"{nm} raises {err_name(e)}: {e}"[:160]
            ref = _np_ref(z, tuple(dims), flags["centered"], flags["normalized"], nm == "ifft2")
            if not _close(_as_np(y, flags["complex_input"]), ref, atol=1e-4 * max(1.0, _absmax(ref))):
                return f"{nm} differs from the reference transform over axes {tuple(dims)} ({_diff(_as_np(y, flags['complex_input']), ref)})"
    return ""


def _history_steps(seed):
    """a call history as plain data: operator strings (-> functools.partial objects shared by all steps), three shared `dim`
    objects, and per step which operator / helper is called on a tensor of which shape (data from the step's own seed)"""
    r = __import__("random").Random(seed)
    fs, bs = r.choice(_operator_strings())
    lits = _spatial_dim_literals()
    dim_objs = [list(r.choice(lits)), list(r.choice(lits)), tuple(r.choice(lits))]
    steps = []
    for _ in range(r.randint(7, 11)):
        what = r.choice([fs, bs, fs, bs, "fftshift", "ifftshift", "roll"])
        k = r.randrange(3)
        rank = max(dim_objs[k]) + 1 + r.choice([0, 1])
        steps.append({"what": what, "dim": k, "cshape": _shape(r, rank, 300), "seed": r.randrange(2 ** 31),
                      "shifts": [r.randint(-3, 3) for _ in dim_objs[k]]})
    return {"ops": [fs, bs], "dims": dim_objs, "steps": steps}


def _history_run(T, seed, only=None):
    """run the history (or only step `only` of it, in an otherwise untouched process) -> (index, what, observed) of the first step
    whose result differs from the state-free reference (numpy), or whose input / `dim` object was modified; None if all fine"""
    from direct.utils import str_to_class

    h = _history_steps(seed)
    ops = {s_: str_to_class("direct.data.transforms", s_) for s_ in h["ops"]}
    dim_objs = h["dims"]
    frozen = [list(d) for d in dim_objs]
    for i, st in enumerate(h["steps"]):
        if only is not None and i != only:
            continue
        dobj = dim_objs[st["dim"]]
        xr = _rand_complex(__import__("random").Random(st["seed"]), st["cshape"])
        z = torch.view_as_complex(xr).numpy().astype(np.complex128)
        desc = f"step {i}: {st['what']} on complex shape {st['cshape']} with the shared dim object {dobj!r}"
        try:
            if st["what"] in ops:
                nm, c, n, ci = _parse_flags(st["what"])
                x = xr if ci else torch.view_as_complex(xr)
                x0 = x.clone()
                got = _as_np(ops[st["what"]](x, dim=dobj), ci)
                ref = _np_ref(z, tuple(dobj), c, n, nm == "ifft2")
                ok = _close(got, ref, atol=1e-4 * max(1.0, _absmax(ref)))
            else:
                x = xr
                x0 = x.clone()
                axes = tuple(dobj)
                if st["what"] == "roll":
                    got = T.roll(x, list(st["shifts"]), dobj)
                    ref = np.roll(xr.numpy(), st["shifts"], axis=axes)
                else:
                    got = getattr(T, st["what"])(x, dim=dobj)
                    ref = getattr(np.fft, st["what"])(xr.numpy(), axes=axes)
                ok = _same(got, ref)
        except Exception as e:  # noqa: BLE001
            return i, f"{desc} raises {err_name(e)}", repr(e)[:200]
        if not ok:
            return i, f"{desc} differs from the reference", _diff(got, ref)
        if not _same(x, x0):
            return i, f"{desc} modified its input", ""
        if [list(d) for d in dim_objs] != frozen:
            return i, f"{desc} modified the caller's `dim` object: {dim_objs}", ""
    return None


def _history_case(T, seed):
    """-> failing laws.  A step that fails inside the history but passes when it is the only call of a fresh process depends on
    earlier calls (state kept across calls); a step that also fails alone is a plain defect that the other sections report"""
    import subprocess
    import sys

    bad = _history_run(T, seed)
    if bad is None:
        return []
    i, what, obs = bad
    code = ("import sys; sys.path.insert(0, %r); import boot; import direct.data.transforms as T; import props.c01 as m; "
            "r = m._history_run(T, %d, only=%d); print('HISTORY-STEP-ALONE', 'fails' if r else 'passes')" %
            (str(core.VERIF / "harness"), seed, i))
    try:
        r = subprocess.run([sys.executable, "-c", code], capture_output=True, text=True, timeout=300)
        alone = "passes" if "HISTORY-STEP-ALONE passes" in r.stdout else ("fails" if "HISTORY-STEP-ALONE fails" in r.stdout else "unknown")
    except Exception:  # noqa: BLE001
        alone = "unknown"
    if alone == "passes":
        return [("history/result-depends-on-earlier-calls", what + " — but the same call is correct as the only call of a fresh process: "
                 "state is kept across calls", obs)]
    if alone == "unknown":
        return [("history/step-fails", what, obs)]
    return []


def oracle(ctx: Ctx, deep: bool = False):
    """The property stated directly on the implementation."""
    import direct.data.transforms as T

    rng = ctx.rng
    big = deep or ctx.thorough
    # (0) call histories first (a violation found here replays as a whole history in a fresh process): one operator object
    #     (functools.partial from str_to_class) and shared `dim` objects reused across tensors of different shapes, interleaved with
    #     the shift helpers — every step equals the state-free numpy reference, inputs and `dim` objects untouched; a failing step is
    #     re-run alone in a fresh process to tell state kept across calls from a plain defect
    for _ in range(ctx.budget(6, 60)):
        seed = rng.randrange(2 ** 31)
        ctx.count(("history", seed), True, bucket="oracle/histories")
        for key, what, obs in _history_case(T, seed):
            yield Violation(key, what, {"op": "history", "seed": seed, "law": key, "observed": obs})
    # (1) shift helpers vs numpy, and mutual inverses — every axis subset of small tensors, odd and even lengths
    for rank in range(1, 5 if big else 4):
        for _ in range(ctx.budget(3, 12) * (2 if deep else 1)):
            shape = _shape(rng, rank, 300)
            x = _arange(shape)
            for k in range(1, rank + 1):
                for dims in itertools.combinations(range(rank), k):
                    odd = any(shape[a] % 2 == 1 and shape[a] >= 3 for a in dims)
                    tag = "odd" if odd else "even"
                    ctx.count(("shift", tuple(shape), dims), any(shape[a] >= 2 for a in dims), bucket=f"oracle/shift-{tag}")
                    for nm, fn, ref in (("fftshift", T.fftshift, np.fft.fftshift), ("ifftshift", T.ifftshift, np.fft.ifftshift)):
                        exp = ref(x.numpy(), axes=dims)
                        try:
                            got = fn(x, dim=list(dims)).numpy()
                            ok, obs = got.shape == exp.shape and np.array_equal(got, exp), got.tolist()
                        except Exception as e:  # noqa: BLE001
                            ok, obs = False, f"raises {err_name(e)}"
                        if not ok:
                            yield Violation(f"shift-numpy/{nm}-{tag}", f"{nm} differs from numpy.fft.{nm}",
                                            {"op": nm, "shape": shape, "dims": list(dims), "expected": exp.tolist(), "observed": obs})
                    for nm, a, b in (("fftshift(ifftshift(x))", T.ifftshift, T.fftshift), ("ifftshift(fftshift(x))", T.fftshift, T.ifftshift)):
                        try:
                            back = b(a(x, dim=list(dims)), dim=list(dims))
                            ok, obs = torch.equal(back, x), back.tolist()
                        except Exception as e:  # noqa: BLE001
                            ok, obs = False, f"raises {err_name(e)}"
                        if not ok:
                            yield Violation(f"shift-inverse-{tag}", f"{nm} != x",
                                            {"op": "shift-inverse", "which": nm, "shape": shape, "dims": list(dims),
                                             "expected": x.tolist(), "observed": obs})
    # argument forms the correspondence also generates: negative axes, shuffled axis order, roll with arbitrary shifts
    for _ in range(ctx.budget(60, 600) * (2 if deep else 1)):
        rank = rng.randint(1, 5)
        shape = _shape(rng, rank, 300, need_odd_even=False)
        x = _arange(shape)
        dims = rng.sample(range(rank), rng.randint(1, rank))
        dpass = [d - rank if rng.random() < 0.5 else d for d in dims]
        odd = any(shape[a] % 2 == 1 and shape[a] >= 3 for a in dims)
        tag = ("odd" if odd else "even") + ("/negative-axis" if any(d < 0 for d in dpass) else "/shuffled")
        ctx.count(("shift-forms", tuple(shape), tuple(dpass)), any(shape[a] >= 2 for a in dims), bucket="oracle/shift-forms-" + tag)
        for nm, fn, ref in (("fftshift", T.fftshift, np.fft.fftshift), ("ifftshift", T.ifftshift, np.fft.ifftshift)):
            exp = ref(x.numpy(), axes=tuple(dims))
            try:
                got = fn(x, dim=list(dpass)).numpy()
                ok, obs = got.shape == exp.shape and np.array_equal(got, exp), got.tolist()
            except Exception as e:  # noqa: BLE001
                ok, obs = False, f"raises {err_name(e)}"
            if not ok:
                yield Violation(f"shift-numpy/{nm}-{tag}", f"{nm}(dim={dpass}) differs from numpy.fft.{nm}",
                                {"op": nm, "shape": shape, "dims": list(dpass), "expected": exp.tolist(), "observed": obs})
        if rng.random() < 0.3:
            dims = dims + [rng.choice(dims)]
        shifts = [rng.choice([0, 1, -1, shape[a], -shape[a] - 1, rng.randint(-15, 15)]) for a in dims]
        ctx.count(("roll", tuple(shape), tuple(dims), tuple(shifts)), True, bucket="oracle/roll-vs-numpy")
        exp = np.roll(x.numpy(), shifts, axis=tuple(dims))
        try:
            got = T.roll(x, list(shifts), list(dims)).numpy()
            ok, obs = np.array_equal(got, exp), got.tolist()
        except Exception as e:  # noqa: BLE001
            ok, obs = False, f"raises {err_name(e)}"
        if not ok:
            yield Violation("roll-numpy", f"roll(shift={shifts}, dim={dims}) differs from numpy.roll",
                            {"op": "roll", "shape": shape, "dims": list(dims), "shifts": list(shifts), "expected": exp.tolist(),
                             "observed": obs})
    # real float32 input (complex_input=False) with power-of-two lengths against numpy
    for _ in range(ctx.budget(10, 100)):
        rank = rng.randint(2, 4)
        shape = [rng.choice([1, 2, 4, 8]) for _ in range(rank)]
        d = rng.sample(range(rank), 2)
        c, n = rng.randint(0, 1), rng.randint(0, 1)
        g = torch.Generator().manual_seed(rng.randrange(2 ** 31))
        x = torch.randint(-8, 9, tuple(shape), generator=g).float()
        ctx.count(("fft-real", tuple(shape), tuple(d), c, n), True, bucket="oracle/fft-real-float32-pow2")
        for nm, inv in (("fft2", False), ("ifft2", True)):
            ref = _np_ref(x.numpy().astype(np.complex128), tuple(d), c, n, inv)
            try:
                got = getattr(T, nm)(x, dim=tuple(d), centered=bool(c), normalized=bool(n), complex_input=False).numpy()
                ok = got.shape == ref.shape and np.allclose(got, ref, atol=1e-4 * max(1.0, float(np.max(np.abs(ref)))))
                obs = float(np.max(np.abs(got - ref))) if got.shape == ref.shape else "shape"
            except Exception as e:  # noqa: BLE001
                ok, obs = False, f"raises {err_name(e)}"
            if not ok:
                yield Violation(f"reference/{nm}/real-input", f"{nm} on real float32 input differs from the numpy reference",
                                {"op": "fft-real", "fn": nm, "shape": shape, "dims": d, "centered": c, "normalized": n,
                                 "data": x.tolist(), "observed": obs})
    # 1-D exhaustive: lengths 1..16 (1..40 deep)
    for n in range(1, 41 if big else 17):
        x = _arange([n])
        ctx.count(("shift1d", n), n >= 2, bucket="oracle/shift-1d-" + ("odd" if n % 2 else "even"))
        for nm, fn, ref in (("fftshift", T.fftshift, np.fft.fftshift), ("ifftshift", T.ifftshift, np.fft.ifftshift)):
            try:
                got = fn(x).numpy()
            except Exception as e:  # noqa: BLE001
                got = np.array([f"raises {err_name(e)}"])
            if not np.array_equal(got, ref(x.numpy())):
                yield Violation(f"shift-numpy/{nm}-" + ("odd" if n % 2 else "even"), f"{nm} differs from numpy.fft.{nm}",
                                {"op": nm, "shape": [n], "dims": [0], "expected": ref(x.numpy()).tolist(), "observed": got.tolist()})
    # (2) inverse pair, energy, numpy reference, textbook formula — all flag combinations, every axis pair / triple
    combos = [(c, n, ci) for c in (1, 0) for n in (1, 0) for ci in (1, 0)]
    k = 0
    for rank in range(2, 7):
        for dims in _axis_tuples(rank):
            picks = combos if big else [combos[(k + 3 * i) % 8] for i in range(2)]
            k += 1
            for (c, n, ci) in picks:
                shape_c = _shape(rng, rank, 1500 if big else 500)
                d = list(dims)
                if rng.random() < 0.3:
                    rng.shuffle(d)
                seed = rng.randrange(2 ** 31)
                odd = any(shape_c[a] % 2 == 1 and shape_c[a] >= 3 for a in d)
                ctx.count(("fft", tuple(shape_c), tuple(d), c, n, ci, seed), any(shape_c[a] >= 2 for a in d),
                          bucket=f"oracle/fft-c{c}n{n}ci{ci}-" + ("odd" if odd else "even"))
                for key, what, obs in _fft_oracle_case(T, shape_c, d, c, n, ci, seed):
                    yield Violation(key, what, {"op": "fft-laws", "shape": shape_c, "dims": d, "centered": c, "normalized": n,
                                                "complex_input": ci, "seed": seed, "law": key, "observed": obs})
    # small sizes exhaustively in 2-D (every parity pair), centred and not
    lim = 9 if big else 6
    for h in range(1, lim):
        for w in range(1, lim):
            for c in (1, 0):
                seed = 1000 * h + 10 * w + c
                ctx.count(("fft2d", h, w, c), h >= 2 or w >= 2, bucket="oracle/fft-2d-small")
                for key, what, obs in _fft_oracle_case(T, [2, h, w], [1, 2], c, 1, 1, seed):
                    yield Violation(key, what, {"op": "fft-laws", "shape": [2, h, w], "dims": [1, 2], "centered": c,
                                                "normalized": 1, "complex_input": 1, "seed": seed, "law": key, "observed": obs})
    # (2a') ambient torch modes: the same laws (inverse pair, energy, reference DFT, textbook sum, output dtype / shape, input
    #       untouched) inside autocast (cpu, bfloat16 / float16), no_grad, inference_mode, default dtype float64, deterministic
    #       algorithms, and on inputs that require grad — every flag combination incl. complex_input=False, a power-of-two and an
    #       odd / non-trailing shape
    for mode in _ambient_modes():
        for (c, n, ci) in combos:
            for shape_c, d in (([2, 4, 8], [1, 2]), ([3, 5, 6], [2, 0])) + ((([4, 2, 3, 5], [3, 1, 2]),) if big else ()):
                seed = rng.randrange(2 ** 31)
                ctx.count(("mode", mode, c, n, ci, tuple(shape_c)), True, bucket=f"oracle/ambient-mode/{mode}/ci{ci}")
                for key, what, obs in _fft_oracle_case(T, shape_c, d, c, n, ci, seed, mode=mode):
                    yield Violation(key, what, {"op": "fft-laws", "shape": shape_c, "dims": d, "centered": c, "normalized": n,
                                                "complex_input": ci, "seed": seed, "law": key, "observed": obs, "mode": mode})
    # (2b) the single assumption about torch.fft that the theorems do not discharge: fftn / ifftn over a tuple of axes is the
    #      composition of the 1-D DFTs along those axes (scale per axis), for every norm — checked against sequential 1-D
    #      torch ffts and against the explicit DFT matrix
    for _ in range(ctx.budget(40, 400)):
        rank = rng.randint(2, 5)
        shape_c = _shape(rng, rank, 600)
        dims = rng.choice(_axis_tuples(rank))
        if rng.random() < 0.3:
            rng.shuffle(dims)
        z = torch.view_as_complex(_rand_complex(rng, shape_c))
        for norm in ("ortho", None, "backward", "forward"):
            for nm, nd, one in (("fftn", torch.fft.fftn, torch.fft.fft), ("ifftn", torch.fft.ifftn, torch.fft.ifft)):
                ctx.count(("fftn-factor", tuple(shape_c), tuple(dims), norm, nm), True, bucket="oracle/assumption-fftn-per-axis")
                whole = nd(z, dim=tuple(dims), norm=norm)
                seq = z
                for a in dims:
                    seq = one(seq, dim=a, norm=norm)
                mat = z.numpy().astype(np.complex128)
                for a in dims:
                    nn_ = mat.shape[a]
                    idx = np.arange(nn_)
                    W = np.exp((2j if nm == "ifftn" else -2j) * np.pi * np.outer(idx, idx) / nn_)
                    sc = {"ortho": 1 / math.sqrt(nn_), None: (1 / nn_ if nm == "ifftn" else 1.0),
                          "backward": (1 / nn_ if nm == "ifftn" else 1.0), "forward": (1.0 if nm == "ifftn" else 1 / nn_)}[norm]
                    mat = np.moveaxis(np.tensordot(W * sc, np.moveaxis(mat, a, 0), axes=(1, 0)), 0, a)
                tol = 1e-4 * max(1.0, float(np.max(np.abs(mat))))
                if not torch.allclose(whole, seq, atol=tol) or not np.allclose(whole.numpy(), mat, atol=tol):
                    yield Violation("assumption/fftn-per-axis", f"torch.fft.{nm}(dim={dims}, norm={norm}) is not the composition of per-axis DFTs",
                                    {"op": "fftn-factor", "shape": shape_c, "dims": list(dims), "norm": norm, "fn": nm})
    # (2c) call sites: operators as the engines obtain them (str_to_class on the YAML / DefaultConfig strings, and
    #      direct.environment.build_operators), called with the `dim=` literals of the model classes, as tuple and as list:
    #      equal to the reference DFT with the flags written in the string, and each configured (forward, backward) pair is
    #      an inverse pair
    from direct.utils import str_to_class
    import types

    try:
        from direct.environment import build_operators
    except Exception as e:  # noqa: BLE001
        build_operators = None
        ctx.notes.append(f"direct.environment.build_operators not importable here: {err_name(e)}")
    for (fs, bs) in _operator_strings():
        for dims in _spatial_dim_literals():
            rank = max(dims) + 1 + rng.choice([0, 1])
            shape_c = _shape(rng, rank, 500)
            xr = _rand_complex(rng, shape_c)
            z = torch.view_as_complex(xr).numpy().astype(np.complex128)
            ctx.count(("callsite", fs, bs, dims, tuple(shape_c)), any(shape_c[a] >= 2 for a in dims), bucket=f"oracle/callsite/{fs}|{bs}")
            try:
                ops = {"str_to_class": (str_to_class("direct.data.transforms", fs), str_to_class("direct.data.transforms", bs))}
                if build_operators is not None:
                    ops["build_operators"] = build_operators(types.SimpleNamespace(forward_operator=fs, backward_operator=bs))
            except Exception as e:  # noqa: BLE001
                yield Violation("callsite/operator-string-unparseable", f"operator string {fs!r} / {bs!r} cannot be turned into an operator: {err_name(e)}",
                                {"op": "callsite", "forward": fs, "backward": bs, "dims": list(dims), "shape": shape_c, "seed": 0})
                continue
            for how, (F, B) in ops.items():
                for dform in (tuple(dims), list(dims)):
                    bad = []
                    try:
                        for s_, op, inv in ((fs, F, False), (bs, B, True)):
                            nm, c, n, ci = _parse_flags(s_)
                            x = xr if ci else torch.view_as_complex(xr)
                            y = op(x, dim=dform)
                            ref = _np_ref(z, tuple(dims), c, n, nm == "ifft2")
                            if not _close(_as_np(y, ci), ref, atol=1e-4 * max(1.0, _absmax(ref))):
                                bad.append(f"{s_} differs from the reference DFT with the flags of the string ({_diff(_as_np(y, ci), ref)})")
                        _, _, _, ci_f = _parse_flags(fs)
                        x = xr if ci_f else torch.view_as_complex(xr)
                        back = B(F(x, dim=dform), dim=dform)
                        if not _close(_as_np(back, ci_f), z, atol=1e-4):
                            bad.append(f"backward(forward(x)) != x ({_diff(_as_np(back, ci_f), z)})")
                    except Exception as e:  # noqa: BLE001
                        bad.append(f"raises {err_name(e)}: {e}"[:160])
                    for what in bad:
                        yield Violation("callsite/configured-operator", f"operators {fs!r}/{bs!r} obtained via {how}, dim={dform!r}: {what}",
                                        {"op": "callsite", "forward": fs, "backward": bs, "dims": list(dims), "shape": shape_c,
                                         "how": how, "list": isinstance(dform, list), "what": what})
    # (2d) views and aliasing: on strided / permuted / offset / expanded views the result equals the result on a contiguous
    #      copy, the input is not modified, and the output of fft2 / ifft2 shares no memory with the input
    alias_shift = 0
    for _ in range(ctx.budget(60, 600)):
        rank = rng.randint(2, 5)
        shape_c = _shape(rng, rank, 300)
        dims = rng.choice(_axis_tuples(rank))
        c, n, ci = rng.randint(0, 1), rng.randint(0, 1), rng.randint(0, 1)
        base = _rand_complex(rng, shape_c)
        base = base if ci else torch.view_as_complex(base)
        if rng.random() < 0.25:
            e_ax = rng.randrange(rank)
            small = base.narrow(e_ax, 0, 1)
            x, kind = small.expand(*base.shape), "expanded"
        else:
            x, kind = _as_view(rng, base)
        ref_in = x.clone()
        ctx.count(("view", kind, tuple(shape_c), tuple(dims), c, n, ci), True, bucket=f"oracle/views/{kind}")
        for nm in ("fft2", "ifft2", "fftshift", "ifftshift"):
            try:
                if nm in ("fft2", "ifft2"):
                    out = _call(T, nm, x, dims, c, n, ci)
                    exp = _call(T, nm, ref_in.contiguous(), dims, c, n, ci)
                else:
                    out = getattr(T, nm)(x, dim=list(dims))
                    exp = getattr(T, nm)(ref_in.contiguous(), dim=list(dims))
            except Exception as e:  # noqa: BLE001
                yield Violation(f"views/{nm}-raises", f"{nm} raises {err_name(e)} on a {kind} view of a valid tensor",
                                {"op": "view", "fn": nm, "kind": kind, "shape": shape_c, "dims": list(dims), "observed": repr(e)[:200]})
                continue
            o_r, e_r = out, exp
            # shifts only move entries (exact); the FFT may take another code path for strided input (float32 rounding)
            same = _same(o_r, e_r) if nm.endswith("shift") else _close(o_r, e_r, rtol=1e-5, atol=1e-4 * max(1.0, _absmax(e_r)))
            if not same:
                yield Violation(f"views/{nm}-differs", f"{nm} on a {kind} view differs from {nm} on the contiguous copy",
                                {"op": "view", "fn": nm, "kind": kind, "shape": shape_c, "dims": list(dims)})
            if not _same(x, ref_in):
                yield Violation(f"views/{nm}-modifies-input", f"{nm} modifies its input ({kind} view)",
                                {"op": "view", "fn": nm, "kind": kind, "shape": shape_c, "dims": list(dims)})
            shares = isinstance(out, torch.Tensor) and out.untyped_storage().data_ptr() == x.untyped_storage().data_ptr()
            if shares and nm in ("fft2", "ifft2"):
                yield Violation(f"views/{nm}-aliases-input", f"the output of {nm} shares memory with its input ({kind} view)",
                                {"op": "view", "fn": nm, "kind": kind, "shape": shape_c, "dims": list(dims)})
            elif shares:
                alias_shift += 1
    if alias_shift:
        ctx.notes.append(f"aliasing observation: {alias_shift} fftshift/ifftshift calls returned a tensor sharing memory with the input (every shifted "
                         "axis had length 1: roll_one_dim returns its argument when shift % n == 0); values are correct, the caller must not "
                         "mutate the result in place")
    # argument forms of `dim` that are rejected although they denote valid non-negative integer axes (observations)
    x = torch.zeros(2, 3, 4, 5, 2)
    for label, d in (("numpy integers", (np.int64(2), np.int64(3))), ("numpy array", np.array([2, 3])), ("torch tensor", torch.tensor([2, 3]))):
        ctx.count(("dimform", label), True, bucket="oracle/dim-forms")
        try:
            T.fft2(x, dim=d)
        except TypeError:
            ctx.notes.append(f"dim given as {label} is rejected with TypeError ('does not support negative indexing'): only Python ints pass "
                             "`isinstance(_, int)`")
        except Exception as e:  # noqa: BLE001
            ctx.notes.append(f"dim given as {label}: {err_name(e)}")
    ctx.count(("pair-axis-strided",), True, bucket="oracle/views/pair-axis-strided")
    try:
        T.fft2(torch.zeros(2, 3, 4, 4)[..., ::2], dim=(1, 2))
    except RuntimeError:
        ctx.notes.append("view observation: a (…, 2) tensor whose pair axis has stride != 1 (e.g. t[..., ::2]) is rejected by view_as_complex "
                         "with RuntimeError — fft2/ifft2 require the real/imaginary pair to be adjacent in memory")
    try:
        str_to_class("direct.data.transforms", "fft2()")
    except AttributeError:
        ctx.notes.append("str_to_class observation: 'fft2()' (empty argument list) raises AttributeError (looked up as attribute 'fft2()')")
    except Exception:  # noqa: BLE001
        pass
    # (2e) re-implementations of the centred transform outside transforms.py (numpy): equal to fft2 / ifft2 of transforms.py with
    #      centered = normalized = True on the same axes, equal to the textbook sum, and fake.ifft undoes fake.fft — odd and even
    for name, fn, inv, mk in _reimpl_functions():
        for rep in range(ctx.budget(8, 60) * (2 if deep else 1)):
            cshape, dims = mk(rng, rep)
            seed = rng.randrange(2 ** 31)
            odd = any(cshape[a] % 2 == 1 and cshape[a] >= 3 for a in dims)
            ctx.count(("reimpl", name, tuple(cshape), seed), any(cshape[a] >= 2 for a in dims),
                      bucket=f"oracle/reimpl/{name}/" + ("odd" if odd else "even"))
            for key, what, obs in _reimpl_case(T, name, cshape, dims, seed):
                yield Violation(key, what, {"op": "reimpl", "name": name, "shape": cshape, "dims": dims, "seed": seed, "law": key,
                                            "observed": obs})
    # (2f) every call site of the operators under direct/ (AST scan, the same one the translated `call_sites` table comes from):
    #      the `dim` forms it can pass and the flags it overrides are accepted by the real fft2 / ifft2 and give the reference
    #      transform
    try:
        from translate.recipes.c01 import scan_call_sites
        _, sites = scan_call_sites(core.REPO)
    except Exception as e:  # noqa: BLE001
        sites = []
        ctx.notes.append(f"call-site scan failed: {err_name(e)}: {e}"[:200])
    seen_forms = set()
    for st in sites:
        for d in st["dims"]:
            form = (tuple(d), tuple(st["overrides"]))
            if form in seen_forms:
                continue
            seen_forms.add(form)
            ctx.count(("site", form), True, bucket="oracle/callsite-forms")
            bad = _site_case(T, d, st["overrides"], rng.randrange(2 ** 31))
            if bad:
                yield Violation("callsite/dim-form-rejected", f"{st['path']}:{st['line']} `{st['text'][:80]}` passes dim={tuple(d)} "
                                f"{dict(st['overrides'])}: {bad}",
                                {"op": "site", "path": st["path"], "line": st["line"], "dims": list(d),
                                 "overrides": [list(o) for o in st["overrides"]], "what": bad})
    ctx.hist["oracle/callsites-scanned"] = len(sites)
    if any(not st["understood"] for st in sites):
        ctx.notes.append("call sites whose `dim` expression the scanner does not understand: " +
                         ", ".join(f"{st['path']}:{st['line']}" for st in sites if not st["understood"])[:300])
    # (3) rejected inputs
    x = torch.zeros(2, 3, 4, 2)
    for nm in ("fft2", "ifft2"):
        fn = getattr(T, nm)
        for dims in ((1, -1), (-2, -1), (-3, 2), (0, 1, -1)):
            ctx.count(("negdim", nm, dims), True, bucket="oracle/negative-dim")
            try:
                fn(x, dim=dims)
                obs = "no exception"
            except TypeError:
                continue
            except Exception as e:  # noqa: BLE001
                obs = err_name(e)
            yield Violation(f"negative-dim-not-TypeError/{nm}", f"{nm} with a negative dim does not raise TypeError ({obs})",
                            {"op": "negdim", "fn": nm, "dims": list(dims), "observed": obs})
        for dims in ((1, 2.0), (1.0, 2)):
            ctx.count(("floatdim", nm, dims), True, bucket="oracle/non-int-dim")
            try:
                fn(x, dim=dims)
                obs = "no exception"
            except TypeError:
                continue
            except Exception as e:  # noqa: BLE001
                obs = err_name(e)
            yield Violation(f"non-int-dim-not-TypeError/{nm}", f"{nm} with a non-int dim does not raise TypeError ({obs})",
                            {"op": "negdim", "fn": nm, "dims": list(dims), "observed": obs})
        for dt, ci in ((torch.float64, True), (torch.float16, True), (torch.complex128, False)):
            for c in (True, False):
                y = torch.zeros(2, 3, 4, 2, dtype=dt) if ci else torch.zeros(2, 3, 4, dtype=dt)
                ctx.count(("dtype", nm, str(dt), c), True, bucket="oracle/non-single-dtype")
                try:
                    fn(y, dim=(1, 2), centered=c, complex_input=ci)
                    obs = "no exception"
                except ValueError:
                    continue
                except Exception as e:  # noqa: BLE001
                    obs = err_name(e)
                yield Violation(f"non-single-not-ValueError/{nm}", f"{nm} on {dt} does not raise ValueError ({obs})",
                                {"op": "dtype", "fn": nm, "dtype": str(dt), "centered": c, "complex_input": ci, "observed": obs})


# --------------------------------------------------------------------------------------------------
# a disagreement between the implementation and the model on a protocol line IS a concrete failing input: `search` turns the
# first ones into violations whose replay re-runs the implementation on that line and compares it with the recorded answer of
# the model (= the specification the theorems are about)
def _parse_line(ln):
    op, _, rest = ln.partition(" ")
    return op, [[int(v) for v in g.split()] for g in rest.split("|")]


def _impl_for(who):
    import direct.data.transforms as T

    if who.startswith("fft/reimpl/"):
        name = who.split("/")[2]
        return {n: f for n, f, _, _ in _reimpl_functions()}[name]
    return T


def _line_disagrees(ln, model, who=""):
    """re-run the implementation on a protocol line -> True when it (still) differs from the model's answer"""
    import direct.data.transforms as T

    op, gs = _parse_line(ln)
    model = model.strip()
    if op in ("roll", "fftshift", "ifftshift"):
        shape, data = gs[0], gs[1]
        x = torch.tensor(data, dtype=torch.float32).reshape(shape)
        if op == "roll":
            run = _impl_t(lambda: T.roll(x, list(gs[2]), list(gs[3])))
        else:
            run = _impl_t(lambda: getattr(T, op)(x, dim=list(gs[2])))
        return run().strip() != model
    if op in ("fft", "fftn"):
        try:
            if op == "fftn":
                shape, pos, dims, (inv, nmc) = gs
                x = torch.zeros(shape, dtype=torch.complex64)
                x[tuple(pos)] = 1.0
                f = torch.fft.ifftn if inv else torch.fft.fftn
                val = _out_np(f(x, dim=tuple(dims), norm=("ortho", "backward", "forward")[nmc]), 0)
            else:
                shape, pos, dims, (c, n, ci, inv), (dtc,) = gs
                dt = {v: k for k, v in DT_CODE.items()}[dtc]
                if who.startswith("fft/reimpl/"):
                    x = np.zeros(shape, dtype=np.complex128)
                    if len(pos) == len(shape):
                        x[tuple(pos)] = 1.0
                    val = _reimpl_out(_impl_for(who)(x))
                else:
                    x = torch.zeros(shape, dtype=dt)
                    if x.numel() and len(pos) == len(shape) - (1 if ci else 0):
                        x[tuple(pos) + ((0,) if ci else ())] = 1
                    val = _out_np((T.ifft2 if inv else T.fft2)(x, dim=tuple(dims), centered=bool(c), normalized=bool(n),
                                                               complex_input=bool(ci)), ci)
        except _BadOutput:
            return True
        except Exception as e:  # noqa: BLE001
            return not (model.startswith("err ") and model[4:] == err_name(e))
        if model.startswith("err "):
            return True
        g = [[int(v) for v in grp.split()] for grp in model[3:].split("|")]
        shp, (L, num, den), es = g[0], g[1], np.array(g[2], dtype=np.int64)
        exp = np.where(es < 0, 0.0, math.sqrt(num / den) * np.exp(-2j * np.pi * np.maximum(es, 0) / L)).reshape(shp)
        return not _close(val, exp, atol=1e-5)
    return True


def search(ctx: Ctx, dis, lean):
    seen = set()
    for d in dis:
        op = d["line"].split(" ", 1)[0]
        m = d["model"].strip()
        cls = m if m.startswith("err ") else "ok"
        key = f"correspondence/{op}/model-says-{cls.replace(' ', '-')}"
        if key in seen or len(seen) >= 4:
            continue
        who = d.get("bucket") or ""
        try:
            still = _line_disagrees(d["line"], m, who)
        except Exception:  # noqa: BLE001
            still = True
        if not still:
            continue
        seen.add(key)
        yield Violation(key, f"on `{d['line'][:120]}` the implementation gives {str(d['impl'])[:80]} where the specification gives {m[:80]}",
                        {"op": "line", "line": d["line"], "model": m, "impl": str(d["impl"])[:300], "who": who})


def replay(rep: dict) -> bool:
    import direct.data.transforms as T

    op = rep.get("op")
    try:
        if op in ("fftshift", "ifftshift"):
            x = _arange(rep["shape"])
            return getattr(T, op)(x, dim=list(rep["dims"])).numpy().tolist() != rep["expected"]
        if op == "roll":
            x = _arange(rep["shape"])
            return T.roll(x, list(rep["shifts"]), list(rep["dims"])).numpy().tolist() != rep["expected"]
        if op == "fft-real":
            x = torch.tensor(rep["data"], dtype=torch.float32)
            ref = _np_ref(x.numpy().astype(np.complex128), tuple(rep["dims"]), rep["centered"], rep["normalized"], rep["fn"] == "ifft2")
            got = getattr(T, rep["fn"])(x, dim=tuple(rep["dims"]), centered=bool(rep["centered"]), normalized=bool(rep["normalized"]),
                                       complex_input=False).numpy()
            return not np.allclose(got, ref, atol=1e-4 * max(1.0, float(np.max(np.abs(ref)))))
        if op == "shift-inverse":
            x = _arange(rep["shape"])
            a, b = (T.ifftshift, T.fftshift) if rep["which"].startswith("fftshift") else (T.fftshift, T.ifftshift)
            return not torch.equal(b(a(x, dim=list(rep["dims"])), dim=list(rep["dims"])), x)
        if op == "fft-laws":
            bad = _fft_oracle_case(T, rep["shape"], rep["dims"], rep["centered"], rep["normalized"], rep["complex_input"], rep["seed"],
                                   mode=rep.get("mode"))
            return any(k == rep["law"] for k, _, _ in bad)
        if op == "line":
            return _line_disagrees(rep["line"], rep["model"], rep.get("who", ""))
        if op == "reimpl":
            return any(k == rep["law"] for k, _, _ in _reimpl_case(T, rep["name"], rep["shape"], rep["dims"], rep["seed"]))
        if op == "site":
            return bool(_site_case(T, rep["dims"], [tuple(o) for o in rep["overrides"]], 0))
        if op == "history":
            return _history_run(T, rep["seed"]) is not None
        if op == "negdim":
            try:
                getattr(T, rep["fn"])(torch.zeros(2, 3, 4, 2), dim=tuple(rep["dims"]))
            except TypeError:
                return False
            except Exception:  # noqa: BLE001
                return True
            return True
        if op == "dtype":
            dt = getattr(torch, rep["dtype"].split(".")[-1])
            ci = rep["complex_input"]
            y = torch.zeros(2, 3, 4, 2, dtype=dt) if ci else torch.zeros(2, 3, 4, dtype=dt)
            try:
                getattr(T, rep["fn"])(y, dim=(1, 2), centered=rep["centered"], complex_input=ci)
            except ValueError:
                return False
            except Exception:  # noqa: BLE001
                return True
            return True
    except Exception:  # noqa: BLE001
        return True
    return True
