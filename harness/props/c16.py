"""C16 — an optimiser step uses the mean gradient of all accumulated batches.

Also hosts the toy trainer (REAL `Engine.train` / `Engine.training_loop` / `MRIModelEngine._do_iteration` on a
tiny exact problem) shared with C15.
"""
from __future__ import annotations

import contextlib
import io
import logging
import os
import pathlib
import shutil
import signal
import tempfile
from fractions import Fraction as Fr

import boot  # noqa: F401
import torch

from core import Ctx, Violation, err_name, ints

PROP = "C16"
MANIFEST = {
    "text": "Lean 4 theorems about the training-loop machine obtained by interpreting the statement table of "
            "Engine.training_loop (backward / div_ / clip / step / zero_grad / lr_scheduler.step with their guards), for every "
            "model, loss, optimiser, k >= 1 and run length: a window of k iterations from a boundary performs exactly one "
            "optimiser step, on (1/k) * sum of the k batch gradients taken at the window's parameters (any Q-module of "
            "gradients); k = 1 gives one step per batch; last_epoch advances once per iteration; delivered + pending = "
            "initial + all backward gradients at every moment (nothing dropped or doubled); the run is a fold of window steps; "
            "additional models in self.models receive the mean as well (gradient space G x H); trailing iterations after the "
            "last complete window stay pending; OOM recovery and the scaler update are part of the machine. "
            "Between iterations: a second machine (C16E.history) runs whole processes of Engine.train — first-example logging, "
            "start_with_validation, validation rounds, periodic checkpoints, log writes, the SIGINT kill path, clean stops, "
            "resume with the translated start_iter arithmetic — interpreting a translated table of every statement in the "
            "call closure of validation_loop / evaluate / reconstruct_volumes / checkpoint_model_at_interval / "
            "Checkpointer.save / write_to_logs / checkpoint_and_write_to_logs / log_first_training_example_and_model and the "
            "prologue of Engine.train that touches .grad, the optimiser, the scheduler or the scaler; for every table satisfying "
            "the decided predicate 'none but the prologue's zero_grad' these events are the identity on the trainer state, a "
            "process equals the plain run for every validation_steps / checkpoint_steps / start_with_validation, the window-mean "
            "theorem holds with events inside the window, across every history of kills / stops / resumes (also inside windows) "
            "iteration t runs with last_epoch = t and the scheduler advances exactly num_iterations times, and histories that "
            "only resume at window boundaries reproduce the uninterrupted run; the predicate also demands the prologue's "
            "zero_grad, so gradients already on the parameters when train() is entered (user backward pass, a previous train() "
            "that ended inside a window) never reach the first step. Clipping with additional models is ONE clip_grad_norm_ "
            "call over the union of all optimised parameters (translated clipForm; clip_one_call_is_global). Every zero_grad of "
            "the loop body leaves .grad = None (translated zeroGradForms, decided wfZero), so a parameter without gradient in a "
            "window is skipped by the optimiser (idle_parameter_skipped). Mixed precision: the translated GradScaler "
            "protocol of the step branch (div_, unscale_ before clip, scaler.step, scaler.update) delivers the unscaled "
            "(clipped) mean for every scale S != 0. "
            "Tied to the code by the translated statement table + guards + divided/clipped parameter scope, the between-table, "
            "the loop's call order, start_iter and validate_model_at_interval kernels, the scaler table (bridges by "
            "decide/omega), a translated table of how each of the 24 engine classes back-propagates its loss (decided "
            "wfEngines), exact differential runs of the REAL Engine.train on a toy problem (incl. an additional model, OOM skips "
            "and random histories of validation / checkpoint / kill / stop+resume with k in 1..4 and validation_steps, "
            "checkpoint_steps that are not multiples of k; the driver interprets the *translated* between-table), runs with an "
            "ENABLED GradScaler on CPU, and bit-exact accumulation checks through real Unet2d / RIM (steps 1 and 2) / "
            "EndToEndVarNet / VSharpNet / Unet2dSSL / Unet2dJSSL engines and a Unet2d engine with a sensitivity_model in self.models.",
    "note": "Resume inside an accumulation window is a finding (key resume-mid-window): checkpoints do not store gradients, the "
            "first step after such a resume uses (1/k) * sum of only the post-resume batches (theorem "
            "resume_mid_window_first_step, witness resume_mid_window_violates); every other deviation after such a resume "
            "(schedule, iteration counter, parameters not explained by the lost gradients alone) is reported under its own key. "
            "Trusted: Lean kernel, AST translators, torch autograd/optimiser arithmetic (exact on the dyadic probe set; Adam "
            "and clipping only checked on the implementation under 1e-9), GradScaler semantics as modelled (unscale = multiply "
            "by 1/S; inf/nan step skipping outside the model), float16 autocast numerics not covered (CPU, float64 toy).",
    "technique": "Lean 4 proof (induction over iterations/windows/process histories, interpreters of translated statement "
                 "tables) + AST translation bridges + exact differential correspondence on the real training loop",
}
TRUSTED = [
    "Lean 4.33 kernel; axioms ⊆ {propext, Classical.choice, Quot.sound}",
    "harness/translate/recipes/c16.py (statement table and guards of Engine.training_loop) and c16_events.py (call closure of "
    "the between-iteration call sites, touch classification, start_iter / validation guard kernels, scaler table)",
    "torch autograd / SGD arithmetic is exact on integer data with dyadic learning rates in float64 (checked against an "
    "independent Fraction reference on every run)",
    "optimizer.step as an arbitrary function of (lr, params, optimiser state, .grad); GradScaler: disabled (identity) or "
    "enabled with power-of-two scales (exact on the probe set)",
    "the toy engine subclasses (forward_function, loss plug-in, deterministic batch order by iteration index, recording of "
    "iteration index / lr in effect / bookkeeping events, SIGINT self-delivery) and the torchvision/tensorboard stubs of "
    "harness/boot.py; gc.collect() of reconstruct_volumes replaced by a no-op during validation rounds",
]
ASSUMPTIONS = [
    "batches are a function of the iteration index (the harness replaces the random batch sampler by a sequential one)",
    "Adam and gradient clipping are compared with an independently computed reference under 1e-9 (float64), not exactly",
    "mixed precision: the scaler protocol is proved over Q-modules and run with an enabled CPU GradScaler in float64; "
    "float16 autocast rounding and inf/nan-triggered step skipping are out of scope",
    "between-iteration touches are recognised syntactically (zero_grad / step / update / backward / load_state_dict / "
    "assignments to .grad, param_groups, last_epoch / in-place methods on .grad) in the self.* call closure of the call "
    "sites; effects through other objects are covered by the differential histories only",
]
RULE = ("toy linear model with L1 sum loss (integer-valued gradients), k in 1..4, 1..12 iterations (not only multiples of k), "
        "batch sizes 1..4, SGD with momentum 0 or 1/2, WarmupMultiStepLR with dyadic parameters, with/without an additional "
        "model, with/without OOM-skipped iterations; histories of 1..3 processes over 9..14 iterations with validation data, "
        "validation_steps and checkpoint_steps in {2,3,4,5,7} that are not multiples of k, start_with_validation, SIGINT kill "
        "before/after backward, clean stop + resume (also inside windows), processes entered with a stale gradient on the "
        "parameters, a second train() on the same objects after an incomplete window; clipping x 1-2 additional models with "
        "gradient scales 8 / 1/8 / 4 / 1/4 and thresholds 0.25..2 x the global norm; a conditionally used head idle in "
        "whole windows with Adam / SGD+momentum / SGD+weight decay, k in 1..3; enabled GradScaler with scales 2..64 and growth "
        "interval 1..3, with/without clipping; real Unet2d / RIM (steps 1, 2) / EndToEndVarNet / VSharpNet / Unet2dSSL / Unet2dJSSL / "
        "Unet2d+sensitivity_model engines on 8x8 two-coil data, k in 1..4, SGD/Adam; non-trivial = k >= 2 and at least one "
        "completed window; distinct = distinct protocol line / oracle configuration")
EXTRA_LEAN_MODULES = ["DirectVerif.Lemmas.C16Events"]
PENDING_FINDINGS: list[str] = []     # `resume-mid-window` is listed as known; `additional-models-not-divided` was repaired

logging.disable(logging.CRITICAL)


# ==================================================================================================
# toy trainer on the REAL engine
class Vanish(BaseException):
    """the process disappears (SIGKILL / power loss): nothing after this point is executed"""


class _ToyModel(torch.nn.Module):
    def __init__(self, w0):
        super().__init__()
        self.w = torch.nn.Parameter(torch.tensor([float(v) for v in w0], dtype=torch.float64))

    def forward(self, x):
        return x @ self.w


class _ToyAux(torch.nn.Module):
    """an additional model as in `self.models` (e.g. sensitivity_model): its own parameters, same optimiser"""

    def __init__(self, d):
        super().__init__()
        self.v = torch.nn.Parameter(torch.zeros(d, dtype=torch.float64))

    def forward(self, x):
        return x @ self.v


class _ToyDS(torch.utils.data.Dataset):
    def __init__(self, X, y):
        self.X, self.y = X, y
        self.ndim = 2
        self.volume_indices = {}

    def __len__(self):
        return len(self.X)

    def __getitem__(self, i):
        return {"x": torch.tensor([float(v) for v in self.X[i]], dtype=torch.float64),
                "target": torch.tensor([[float(self.y[i])]], dtype=torch.float64),
                "sensitivity_map": torch.ones(1, 1, 1, 2, dtype=torch.float64), "filename": "f", "slice_no": i,
                "scaling_factor": 1.0, "sampling_mask": torch.ones(1, 1, 1, 1)}


class _SeqBatches(torch.utils.data.Sampler):
    """iteration i always sees rows (i*bs + j) % N — 'given the same batches'"""

    def __init__(self, n, bs, start):
        self.n, self.bs, self.start = n, bs, start

    def __iter__(self):
        it = self.start
        while True:
            yield [(it * self.bs + j) % self.n for j in range(self.bs)]
            it += 1

    def __len__(self):
        return 10 ** 9


_ENGINE = None


def _engine_class():
    global _ENGINE
    if _ENGINE is not None:
        return _ENGINE
    from direct.nn.mri_models import MRIModelEngine

    class ToyEngine(MRIModelEngine):
        kill_at = None
        kill_where = "pre"
        vanish_at = None
        it_counter = 0
        started_at = None
        kill_delivered = False

        def build_loss(self):
            def toy_loss(source, target, reduction="mean", reconstruction_size=None):
                return (source - target).abs().sum()
            return {"toy_loss": toy_loss}

        oom_at = ()
        oom_where = "pre"

        def forward_function(self, data):
            out = self.model(data["x"])
            if "aux_model" in self.models:
                out = out + self.models["aux_model"](data["x"])
            return out.reshape(-1, 1, 1), None

        def _do_iteration(self, data, loss_fns=None, regularizer_fns=None):
            it = self.it_counter
            if it in self.oom_at:
                self.it_counter += 1
                if self.oom_where == "post":      # the allocation fails after part of the backward pass
                    super()._do_iteration(data, loss_fns, regularizer_fns)
                raise RuntimeError("CUDA out of memory. Tried to allocate 20.00 MiB (simulated by the harness)")
            if self.vanish_at == it and it > self.started_at:   # "vanishes after iteration it-1" of *this* process
                raise Vanish()
            if self.kill_at == it and self.kill_where == "pre":
                self.kill_delivered = True
                os.kill(os.getpid(), signal.SIGINT)      # the real handler raises ProcessKilledException here
            out = super()._do_iteration(data, loss_fns, regularizer_fns)
            if self.kill_at == it and self.kill_where == "post":
                self.kill_delivered = True
                os.kill(os.getpid(), signal.SIGINT)      # after backward, before the optimiser step
            self.it_counter += 1
            return out

        def training_loop(self, training_datasets, start_iter, *a, **kw):
            self.it_counter = start_iter
            self.started_at = start_iter
            return super().training_loop(training_datasets, start_iter, *a, **kw)

        def build_batch_sampler(self, dataset, batch_size, sampler_type, **kw):
            if sampler_type == "random":
                return _SeqBatches(sum(len(d) for d in dataset), batch_size, self.started_at)
            return super().build_batch_sampler(dataset, batch_size, sampler_type, **kw)

    _ENGINE = ToyEngine
    return ToyEngine


def _make_cfg(total, k, ck, bs, clip):
    from direct.config.defaults import DefaultConfig
    from omegaconf import OmegaConf

    cfg = OmegaConf.structured(DefaultConfig)
    cfg.training.num_iterations = total
    cfg.training.gradient_steps = k
    cfg.training.checkpointer.checkpoint_steps = ck
    cfg.training.batch_size = bs
    cfg.training.gradient_clipping = float(clip)
    cfg.training.validation_steps = 10 ** 6
    return cfg


def make_scheduler(optimizer, sched):
    from direct.data.lr_scheduler import WarmupCosineLR, WarmupMultiStepLR

    if sched["kind"] == "multistep":
        return WarmupMultiStepLR(optimizer, milestones=list(sched["milestones"]), gamma=float(sched["gamma"]),
                                 warmup_factor=float(sched["wf"]), warmup_iterations=sched["warmup_iters"],
                                 warmup_method=sched["method"])
    return WarmupCosineLR(optimizer, max_iters=sched["max_iters"], warmup_factor=float(sched["wf"]),
                          warmup_iterations=sched["warmup_iters"], warmup_method=sched["method"])


def counting_scaler():
    """a grad scaler with a state that evolves (a real enabled GradScaler needs CUDA): counts its `update()` calls"""
    from torch.cuda.amp import GradScaler

    class CountingScaler(GradScaler):
        def __init__(self):
            super().__init__(enabled=False)
            self.n_updates = 0

        def update(self, new_scale=None):
            self.n_updates += 1

        def state_dict(self):
            return {"n_updates": self.n_updates}

        def load_state_dict(self, st):
            self.n_updates = st["n_updates"]

    return CountingScaler()


@contextlib.contextmanager
def crash_in_save(label, point):
    """Make the save of checkpoint `label` die at statement boundary `point`:
    0 tmp opened (empty) · 1 half of the payload written · 2 tmp complete, before the first replace ·
    3 after the first replace · 4 before the second replace · 5 after the second replace."""
    import direct.checkpointer as CK

    state = {"cur": None, "replaces": 0}
    real_os, real_torch, real_save = CK.os, CK.torch, CK.Checkpointer.save

    class OsProxy:
        def __getattr__(self, n):
            return getattr(real_os, n)

        def replace(self, a, b):
            if state["cur"] != label:
                return real_os.replace(a, b)
            state["replaces"] += 1
            nth = state["replaces"]
            if (nth, point) in ((1, 2), (2, 4)):
                raise Vanish()
            real_os.replace(a, b)
            if (nth, point) in ((1, 3), (2, 5)):
                raise Vanish()

    class TorchProxy:
        def __getattr__(self, n):
            return getattr(real_torch, n)

        def save(self, data, f, *a, **kw):
            if state["cur"] != label or point > 1:
                return real_torch.save(data, f, *a, **kw)
            if point == 1:
                buf = io.BytesIO()
                real_torch.save(data, buf)
                f.write(buf.getvalue()[: len(buf.getvalue()) // 2])
                f.flush()
            raise Vanish()

    def save(self, iteration, **kw):
        state["cur"], state["replaces"] = iteration, 0
        try:
            return real_save(self, iteration, **kw)
        finally:
            state["cur"] = None

    CK.os, CK.torch, CK.Checkpointer.save = OsProxy(), TorchProxy(), save
    try:
        yield
    finally:
        CK.os, CK.torch, CK.Checkpointer.save = real_os, real_torch, real_save


def run_process(expdir, c, *, total=None, kill_at=None, kill_where="pre", vanish_at=None, crash=None, resume=True,
                oom_at=(), oom_where="pre"):
    """One training process on the REAL engine.  `c`: dict(d, bs, k, T, ck, X, y, w0, opt, base_lr, sched, clip).
    Returns dict(start, records=[(w, lr)] per completed iteration, code, last_epoch, w, latest)."""
    total = c["T"] if total is None else total
    model = _ToyModel(c["w0"])
    aux = _ToyAux(c["d"]) if c.get("aux") else None
    groups = [{"params": model.parameters()}] + ([{"params": aux.parameters()}] if aux is not None else [])
    opt = c.get("opt", ("sgd", Fr(0)))
    if opt[0] == "sgd":
        o = torch.optim.SGD(groups, lr=float(c["base_lr"]), momentum=float(opt[1]))
    else:
        o = torch.optim.Adam(groups, lr=float(c["base_lr"]))
    s = make_scheduler(o, c["sched"])
    models = {"aux_model": aux} if aux is not None else {}
    eng = _engine_class()(_make_cfg(total, c["k"], c["ck"], c["bs"], c.get("clip", 0)), model, "cpu", **models)
    eng.kill_at, eng.kill_where, eng.vanish_at = kill_at, kill_where, vanish_at
    eng.oom_at, eng.oom_where = tuple(oom_at), oom_where
    eng._scaler = counting_scaler()     # Engine.train hands `self._scaler` to the Checkpointer

    def params():
        return model.w.detach().clone().tolist() + (aux.v.detach().clone().tolist() if aux is not None else [])
    records = []

    class Recording(type(s)):   # a subclass, not an instance attribute: the scheduler's state_dict() is its __dict__
        def step(self, *a, **kw):
            r = super().step(*a, **kw)
            records.append((params(), o.param_groups[0]["lr"]))
            return r

    s.__class__ = Recording
    code = None
    cm = crash_in_save(*crash) if crash is not None else contextlib.nullcontext()
    try:
        with cm:
            eng.train(o, s, [_ToyDS(c["X"], c["y"])], pathlib.Path(expdir), resume=resume, num_workers=0)
    except SystemExit as e:
        code = e.code
    except Vanish:
        code = "vanished"
    except Exception as e:  # noqa: BLE001
        if not eng.kill_delivered:
            raise
        # the process was already dying: whatever the kill path raises after its save is just another way to die
        # (observed: ZeroDivisionError in CommonMetricPrinter.write when killed in the very first iteration)
        code = "died:" + err_name(e)
    finally:
        signal.signal(signal.SIGINT, signal.default_int_handler)
    lm = pathlib.Path(expdir) / "last_model.txt"
    latest = int(lm.read_text()) if lm.exists() else -1
    return {"start": eng.started_at, "records": records, "code": code, "last_epoch": s.last_epoch,
            "w": params(), "latest": latest, "opt_state": o.state_dict()["state"], "scaler": eng._scaler.n_updates}


@contextlib.contextmanager
def scratch_dir():
    d = tempfile.mkdtemp(prefix="verif_c1516_")
    try:
        yield d
    finally:
        shutil.rmtree(d, ignore_errors=True)


# ==================================================================================================
# independent exact reference (the property itself, in rationals)
def lr_closed_form(sched, e) -> Fr:
    """WarmupMultiStepLR as a function of last_epoch (rationals)"""
    if e >= sched["warmup_iters"]:
        w = Fr(1)
    elif sched["method"] == "constant":
        w = Fr(sched["wf"])
    elif sched["method"] == "linear":
        alpha = Fr(e, sched["warmup_iters"])
        w = Fr(sched["wf"]) * (1 - alpha) + alpha
    else:
        raise ValueError("unknown warmup method")
    return Fr(sched["base"]) * w * Fr(sched["gamma"]) ** sum(1 for m in sched["milestones"] if m <= e)


def toy_grad(w, rows):
    d = len(rows[0][0]) if rows else len(w)
    if len(w) == 2 * d:        # additional model: prediction x·w + x·v, the same gradient for both groups
        g = toy_grad([a + b for a, b in zip(w[:d], w[d:])], rows)
        return g + g
    g = [Fr(0)] * len(w)
    for x, y in rows:
        r = sum(Fr(a) * b for a, b in zip(x, w)) - y
        sg = (r > 0) - (r < 0)
        g = [gi + sg * Fr(a) for gi, a in zip(g, x)]
    return g


def batch_rows(c, it):
    n = len(c["X"])
    return [(c["X"][(it * c["bs"] + j) % n], c["y"][(it * c["bs"] + j) % n]) for j in range(c["bs"])]


def reference_run(c, total=None):
    """Parameters and logged lr after every iteration **as the property demands**: at every k-th iteration one
    SGD(momentum) step on the mean of the k most recent batch gradients, lr schedule advancing once per iteration."""
    total = c["T"] if total is None else total
    k, mu = c["k"], Fr(c["opt"][1])
    w = [Fr(v) for v in c["w0"]] + ([Fr(0)] * c["d"] if c.get("aux") else [])
    buf = None
    window = []
    out = []
    for it in range(total):
        window.append(toy_grad(w, batch_rows(c, it)))
        if (it + 1) % k == 0:
            mean = [sum(col) / k for col in zip(*window)]
            window = []
            if mu != 0:
                buf = mean if buf is None else [mu * b + g for b, g in zip(buf, mean)]
                upd = buf
            else:
                upd = mean
            lr = lr_closed_form(c["sched"], it)
            w = [wi - lr * u for wi, u in zip(w, upd)]
        out.append((list(w), lr_closed_form(c["sched"], it + 1)))
    return out


def fr_pairs(xs) -> list[int]:
    out = []
    for v in xs:
        f = Fr(v)
        out += [f.numerator, f.denominator]
    return out


# ==================================================================================================
# protocol
def sched_groups(s):
    m = {"constant": 0, "linear": 1}.get(s["method"], 2)
    return ([m, s["warmup_iters"]] + fr_pairs([s["base"], s["gamma"], s["wf"]]), list(s["milestones"]))


def toy_groups(c, extra_hdr=()):
    sg, ms = sched_groups(c["sched"])
    hdr = [c["d"], c["bs"], c["k"], c["T"]] + list(extra_hdr)
    if c.get("aux"):
        hdr = (hdr + [0, 0])[:5] + [1]
    return [hdr, fr_pairs([c["opt"][1] if len(c["opt"]) > 1 else 0]), sg, ms, [v for r in c["X"] for v in r], list(c["y"]), list(c["w0"])]


def proto(op, groups):
    return op + " " + " | ".join(ints(g) for g in groups)


def fmt_records(records):
    return "ok " + " | ".join(ints(fr_pairs(w) + fr_pairs([lr])) for w, lr in records)


def gen_cfg(rng, k=None, T=None, bs=None, malformed=None):
    k = k if k is not None else rng.choice([1, 2, 2, 3, 4])
    T = T if T is not None else rng.randint(1, 12)
    bs = bs if bs is not None else rng.randint(1, 4)
    d = rng.randint(1, 3)
    n = rng.randint(4, 9)
    scale = 3 if k == 3 else 1
    X = [[scale * rng.randint(-2, 2) for _ in range(d)] for _ in range(n)]
    y = [rng.randint(-3, 3) for _ in range(n)]
    ms = sorted(rng.sample(range(1, 13), rng.randint(0, 3)))
    sched = {"kind": "multistep", "milestones": ms, "gamma": Fr(1, 2), "wf": rng.choice([Fr(1, 4), Fr(1, 2), Fr(1)]),
             "warmup_iters": rng.choice([0, 1, 2, 4]), "method": rng.choice(["linear", "constant"]),
             "base": rng.choice([Fr(1, 2), Fr(1, 4), Fr(1, 8)])}
    c = {"d": d, "bs": bs, "k": k, "T": T, "ck": 10 ** 6, "X": X, "y": y, "w0": [rng.randint(-1, 1) for _ in range(d)],
         "opt": ("sgd", rng.choice([Fr(0), Fr(0), Fr(1, 2)])), "sched": sched, "clip": 0}
    c["base_lr"] = sched["base"]
    if malformed == "k0":
        c["k"] = 0
    elif malformed == "unsorted":
        sched["milestones"] = [7, 3]
    elif malformed == "method":
        sched["method"] = "cubic"
        sched["warmup_iters"] = rng.choice([0, 2, 4])
    return c


def real_uninterrupted(c):
    with scratch_dir() as d:
        return run_process(d, c, resume=False)


def correspondence(ctx: Ctx):
    rng = ctx.rng
    cache = ctx.__dict__.setdefault("c16_runs", [])
    specs = [(k, None) for k in (1, 2, 3, 4)] * 2 + [(None, None)] * ctx.budget(48, 900)
    specs += [(None, m) for m in ("k0", "unsorted", "method", "method", "k0")] * ctx.budget(1, 6)
    for k, malformed in specs:
        c = gen_cfg(rng, k=k, malformed=malformed)
        if k is not None and malformed is None:
            c["T"] = max(c["T"], 2 * k + 1)

        def impl(c=c):
            r = real_uninterrupted(c)
            cache.append((c, r))
            return fmt_records(r["records"])

        kk = c["k"]
        yield {"line": proto("loop", toy_groups(c, [0])), "impl": impl,
               "nontrivial": malformed is None and kk >= 2 and c["T"] >= kk,
               "bucket": f"malformed/{malformed}" if malformed else f"k{kk}/bs{c['bs']}/mu{c['opt'][1]}"}
    # an additional model in `self.models`, trained by the same optimiser
    for i in range(ctx.budget(10, 120)):
        c = gen_cfg(rng, k=[1, 2, 3, 4, 2][i % 5])
        c["aux"] = True
        c["T"] = max(c["T"], c["k"] + 1)

        def impl_aux(c=c):
            r = real_uninterrupted(c)
            cache.append((c, r))
            return fmt_records(r["records"])

        yield {"line": proto("loop", toy_groups(c, [0])), "impl": impl_aux, "nontrivial": c["k"] >= 2,
               "bucket": f"aux-model/k{c['k']}"}
    # OOM recovery: iterations whose _do_iteration raises "out of memory" (at most two in a row)
    for i in range(ctx.budget(12, 150)):
        c = gen_cfg(rng, k=[1, 2, 3, 4][i % 4], T=rng.randint(4, 12))
        oom = sorted(rng.sample(range(c["T"]), rng.randint(1, 3)))
        oom = [j for n, j in enumerate(oom) if not (n >= 2 and oom[n - 1] == j - 1 and oom[n - 2] == j - 2)]
        where = rng.choice(["pre", "post"])

        def impl_oom(c=c, oom=oom, where=where):
            with scratch_dir() as d:
                r = run_process(d, c, resume=False, oom_at=oom, oom_where=where)
            ctx.__dict__.setdefault("c16_oom", []).append((c, oom, r))
            return fmt_records(r["records"])

        mid = any((j + 1) % c["k"] != 0 for j in oom) and c["k"] >= 2
        yield {"line": proto("loop", toy_groups(c, [0]) + [oom]), "impl": impl_oom, "nontrivial": True,
               "bucket": f"oom-skip/k{c['k']}/" + ("mid-window" if mid else "boundary") + "/" + where}
    # histories of processes with everything that happens between iterations: validation rounds, periodic checkpoints,
    # log writes, start_with_validation, SIGINT kill path, clean stop + resume — interleaved with accumulation windows
    from props import c16_events as ev
    from translate.recipes.c16_events import table_codes

    codes = table_codes()
    hcache = ctx.__dict__.setdefault("c16_hist", [])
    for i in range(ctx.budget(22, 300)):
        c, val, procs = ev.gen_history(rng, k=[2, 3, 4, 2, 1, 3][i % 6] if i < 12 else None, force_mid_val=(i % 2 == 0))

        def impl_hist(c=c, val=val, procs=procs):
            outs = ev.run_history(c, val, procs)
            hcache.append((c, val, procs, outs))
            return ev.fmt_history(outs)

        shape = "+".join("kill" if p[1] >= 0 else ("stop" if p[0] < c["T"] else "run") for p in procs)
        yield {"line": ev.history_line(c, val, procs, codes), "impl": impl_hist, "nontrivial": c["k"] >= 2,
               "bucket": f"history/k{c['k']}/{shape}/" + ("val" if val[1] else "noval")
                         + ("/stale-grads" if any(p[5] >= 0 for p in procs) else "")}


# ==================================================================================================
# oracle: the property on the real loop
def _float_reference(c, opt_kind, clip):
    """float64 reference for Adam / clipping: window-mean gradient, optional global-norm clipping, torch's optimiser as
    the step function on a separate parameter."""
    w = torch.nn.Parameter(torch.tensor([float(v) for v in c["w0"]], dtype=torch.float64))
    if opt_kind == "adam":
        o = torch.optim.Adam([w], lr=float(c["base_lr"]))
    else:
        o = torch.optim.SGD([w], lr=float(c["base_lr"]), momentum=float(c["opt"][1]))
    out, window = [], []
    for it in range(c["T"]):
        rows = batch_rows(c, it)
        xb = torch.tensor([[float(v) for v in x] for x, _ in rows], dtype=torch.float64)
        yb = torch.tensor([float(y) for _, y in rows], dtype=torch.float64)
        res = xb @ w.detach() - yb          # the same float expression as the toy model's forward
        near = res.abs() < 1e-9
        if bool((near & (res != 0)).any()) or (it > 0 and opt_kind == "adam" and bool(near.any())):
            # a residual next to the kink of |·|: the sub-gradient there is a rounding accident.  An exact zero is not
            # (torch's |·| has sub-gradient 0 there, as `sign`), unless the parameters themselves carry rounding (Adam)
            return None
        window.append((torch.sign(res)[:, None] * xb).sum(0).tolist())
        if (it + 1) % c["k"] == 0:
            mean = torch.tensor(window, dtype=torch.float64).sum(0) / c["k"]
            window = []
            if clip > 0:
                norm = mean.norm(2)
                mean = mean * min(1.0, clip / (float(norm) + 1e-6))
            for g in o.param_groups:
                g["lr"] = float(lr_closed_form(c["sched"], it))
            w.grad = mean.clone()
            o.step()
        out.append((w.detach().clone().tolist(), float(lr_closed_form(c["sched"], it + 1))))
    return out



# ==================================================================================================
# the accumulation property on REAL engines (tiny real models, real _do_iteration / losses / training_loop)
REAL_ENGINES = ("unet", "rim", "varnet")
_SEQ = {}


def _seq_engine(base):
    """subclass of a real engine class whose only change is the deterministic batch order (batch i at iteration i)"""
    if base not in _SEQ:
        class Seq(base):
            started_at = 0

            def training_loop(self, training_datasets, start_iter, *a, **kw):
                self.started_at = start_iter
                return super().training_loop(training_datasets, start_iter, *a, **kw)

            def build_batch_sampler(self, dataset, batch_size, sampler_type, **kw):
                if sampler_type == "random":
                    return _SeqBatches(sum(len(d) for d in dataset), batch_size, self.started_at)
                return super().build_batch_sampler(dataset, batch_size, sampler_type, **kw)

        Seq.__name__ = "Seq" + base.__name__
        _SEQ[base] = Seq
    return _SEQ[base]


def build_real(kind, seed, total, k, bs, clip=0.0):
    import functools

    from direct.config.defaults import DefaultConfig, FunctionConfig, LossConfig, TrainingConfig, ValidationConfig
    from direct.data.transforms import fft2, ifft2

    torch.manual_seed(seed)
    fwd, bwd = functools.partial(fft2, centered=True), functools.partial(ifft2, centered=True)
    if kind == "unet":
        from direct.nn.unet.config import Unet2dConfig
        from direct.nn.unet.unet_2d import Unet2d
        from direct.nn.unet.unet_engine import Unet2dEngine as E
        mc = Unet2dConfig(num_filters=4, num_pool_layers=2, image_initialization="sense")
        model = Unet2d(fwd, bwd, num_filters=4, num_pool_layers=2, dropout_probability=0.0, image_initialization="sense")
    elif kind == "rim":
        from direct.nn.rim.config import RIMConfig
        from direct.nn.rim.rim import RIM
        from direct.nn.rim.rim_engine import RIMEngine as E
        mc = RIMConfig()
        model = RIM(fwd, bwd, hidden_channels=4, length=2, depth=2, no_parameter_sharing=False)
    else:
        from direct.nn.varnet.config import EndToEndVarNetConfig
        from direct.nn.varnet.varnet import EndToEndVarNet
        from direct.nn.varnet.varnet_engine import EndToEndVarNetEngine as E
        mc = EndToEndVarNetConfig()
        model = EndToEndVarNet(fwd, bwd, num_layers=2, regularizer_num_filters=4, regularizer_num_pull_layers=2)
    tr = TrainingConfig(loss=LossConfig(losses=[FunctionConfig("l1_loss"), FunctionConfig("l2_loss")]))
    tr.num_iterations, tr.gradient_steps, tr.batch_size, tr.gradient_clipping = total, k, bs, float(clip)
    tr.validation_steps = 10 ** 6
    tr.checkpointer.checkpoint_steps = 10 ** 6
    cfg = DefaultConfig(training=tr, validation=ValidationConfig(crop=None), model=mc)
    return E, cfg, model, fft2, ifft2


class _MRIDS(torch.utils.data.Dataset):
    def __init__(self, n, seed, coils=2, h=8, w=8):
        g = torch.Generator().manual_seed(seed)
        self.items = []
        for i in range(n):
            mask = (torch.rand(1, 1, w, 1, generator=g) < 0.6).float().expand(1, h, w, 1).clone()
            mask[:, :, w // 2] = 1.0
            ksp = torch.randn(coils, h, w, 2, generator=g)
            self.items.append({"masked_kspace": ksp * mask, "kspace": ksp, "sensitivity_map": torch.randn(coils, h, w, 2, generator=g),
                               "sampling_mask": mask, "target": torch.randn(h, w, generator=g).abs(),
                               "scaling_factor": torch.tensor(1.0), "filename": "f", "slice_no": i})
        self.ndim = 2
        self.volume_indices = {}

    def __len__(self):
        return len(self.items)

    def __getitem__(self, i):
        return dict(self.items[i])


def _flat(model):
    return torch.cat([p.detach().reshape(-1) for p in model.parameters()]).clone()


def real_engine_check(kind, k, total, bs, opt_kind, seed):
    """REAL engine.train with gradient_steps = k against: per window, the engine's own `_do_iteration` on each batch
    separately (fresh gradients), their mean, one optimiser step.  Returns (max abs deviation, first bad iteration | None)."""
    sched = {"kind": "multistep", "milestones": [3], "gamma": Fr(1, 2), "wf": Fr(1, 2), "warmup_iters": 2,
             "method": "linear", "base": Fr(1, 64)}
    ds = _MRIDS(7, seed)

    def mkopt(model):
        if opt_kind == "adam":
            return torch.optim.Adam(model.parameters(), lr=float(sched["base"]))
        return torch.optim.SGD(model.parameters(), lr=float(sched["base"]), momentum=0.5)

    # the real run
    E, cfg, model, f, b = build_real(kind, seed, total, k, bs)
    o = mkopt(model)
    s = make_scheduler(o, sched)
    records = []

    class Recording(type(s)):
        def step(self, *a, **kw):
            r = super().step(*a, **kw)
            records.append((_flat(model), o.param_groups[0]["lr"]))
            return r

    s.__class__ = Recording
    eng = _seq_engine(E)(cfg, model, "cpu", f, b)
    initial = _flat(model)
    with scratch_dir() as d:
        try:
            eng.train(o, s, [ds], pathlib.Path(d), resume=False, num_workers=0)
        finally:
            signal.signal(signal.SIGINT, signal.default_int_handler)
    if total >= k and float((records[-1][0] - initial).abs().max()) == 0.0:
        raise RuntimeError(f"{kind}: the real run did not move the parameters — the check would be vacuous")
    # the reference
    E, cfg, rmodel, f, b = build_real(kind, seed, total, k, bs)
    ro = mkopt(rmodel)
    reng = E(cfg, rmodel, "cpu", f, b)
    signal.signal(signal.SIGINT, signal.default_int_handler)
    reng.ndim = 2
    rmodel.train()
    loss_fns = reng.build_loss()
    loader = iter(torch.utils.data.DataLoader(ds, batch_sampler=_SeqBatches(len(ds), bs, 0), num_workers=0))
    worst, bad, window = 0.0, None, []
    for it in range(total):
        rmodel.zero_grad(set_to_none=True)
        reng._do_iteration(next(loader), loss_fns, regularizer_fns={})
        window.append([None if p.grad is None else p.grad.detach().clone() for p in rmodel.parameters()])
        if (it + 1) % k == 0:
            for j, p in enumerate(rmodel.parameters()):
                gs = [w[j] for w in window if w[j] is not None]
                if gs:
                    acc = gs[0].clone()
                    for g in gs[1:]:
                        acc = acc + g
                    p.grad = acc / k if k > 1 else acc
                else:
                    p.grad = None
            window = []
            for grp in ro.param_groups:
                grp["lr"] = float(lr_closed_form(sched, it))
            ro.step()
        if it >= len(records):
            return float("inf"), it
        dev = float((records[it][0] - _flat(rmodel)).abs().max())
        worst = max(worst, dev)
        scale = float(_flat(rmodel).abs().max())
        if bad is None and (dev > 1e-5 * max(scale, 1.0) or abs(records[it][1] - float(lr_closed_form(sched, it + 1))) > 1e-12):
            bad = it
    return worst, bad


def _cfg_replay(c, **kw):
    r = {"op": "train", "cfg": {**{k: v for k, v in c.items() if k not in ("opt", "sched", "base_lr")},
                                "opt": [c["opt"][0], str(c["opt"][1])] if len(c["opt"]) > 1 else [c["opt"][0]],
                                "base_lr": str(c["base_lr"]),
                                "sched": {k: (str(v) if isinstance(v, Fr) else v) for k, v in c["sched"].items()}}}
    r.update(kw)
    return r


def _cfg_from_replay(r):
    c = dict(r["cfg"])
    c["opt"] = (c["opt"][0], Fr(c["opt"][1])) if len(c["opt"]) > 1 else (c["opt"][0], Fr(0))
    c["base_lr"] = Fr(c["base_lr"])
    c["sched"] = {k: (Fr(v) if k in ("gamma", "wf", "base") else v) for k, v in c["sched"].items()}
    return c


def check_exact(c, r):
    """real run vs the exact reference; returns (key, what, detail) or None"""
    ref = reference_run(c)
    if len(r["records"]) != len(ref):
        return ("iterations-missing", f"{len(r['records'])} iterations completed, {len(ref)} expected", {})
    for it, ((w, lr), (rw, rlr)) in enumerate(zip(r["records"], ref)):
        if Fr(lr) != rlr:
            return ("lr-not-once-per-iteration", f"logged lr after iteration {it} is {lr}, schedule at last_epoch "
                    f"{it + 1} is {float(rlr)}", {"iteration": it})
        if [Fr(v) for v in w] != rw:
            key = "k1-step-not-own-gradient" if c["k"] == 1 else "step-not-mean-of-window"
            d = c["d"]
            if c.get("aux") and [Fr(v) for v in w[:d]] == rw[:d]:
                key = "additional-models-not-divided"
            return (key, f"parameters after iteration {it} are {w}, the step on the mean gradient of the k={c['k']} most "
                    f"recent batches gives {[float(v) for v in rw]}", {"iteration": it, "expected": [str(v) for v in rw],
                                                                       "observed": w})
    return None


def check_resume(c, t):
    """clean stop after iteration t (checkpoint label t) + resume vs uninterrupted; returns max |Δw| at the end"""
    full = real_uninterrupted(c)
    with scratch_dir() as d:
        a = run_process(d, c, total=t + 1, resume=True)
        b = run_process(d, c, resume=True)
    return full, a, b


OBSERVATIONS = [
    "OOM recovery (`zero_grad(); continue`) consumes the iteration index without lr_scheduler.step(): last_epoch lags one "
    "behind iter_idx per skipped iteration, and a skip inside an accumulation window discards the window's earlier "
    "batches while the divisor stays gradient_steps (theorems oom_skip_schedule_lags, oom_skip_mid_window; model = code "
    "checked on every run) — outside the property's quantifier",
    "iterations after the last complete window are never applied (num_iterations % gradient_steps batches are computed "
    "and dropped; theorem trailing_iterations_pending)",
    "RIMEngine._do_iteration calls backward after its `for _ in range(cfg.model.steps)` loop: with model.steps > 1 only "
    "the last step's loss is back-propagated (engine table: inLoop = false, retainGraph = true)",
    "a validation round, a periodic checkpoint or a log write inside an accumulation window leaves the pending gradients "
    "alone (translated between-table is empty but for the prologue's zero_grad; checked on every run with validation_steps / "
    "checkpoint_steps that are not multiples of gradient_steps)",
    "the SIGINT kill path inside a window (`save(iter_idx - 1)`) loses the window's pending gradients exactly like a clean "
    "stop there (known finding resume-mid-window); the schedule and the iteration counter stay in step (lr_in_step_across_resume)",
]


def oracle(ctx: Ctx, deep: bool = False):
    rng = ctx.rng
    ctx.notes.extend("observation: " + o for o in OBSERVATIONS)
    # (1) every run of the correspondence stream against the exact reference
    runs = list(ctx.__dict__.get("c16_runs", []))
    extra = ctx.budget(0, 200) + (150 if deep else 0)
    for _ in range(extra):
        c = gen_cfg(rng)
        runs.append((c, real_uninterrupted(c)))
    if not runs or deep:
        for k in (1, 2, 3, 4):
            for bs in (1, 2, 3, 4):
                c = gen_cfg(rng, k=k, T=12, bs=bs)
                runs.append((c, real_uninterrupted(c)))
    for c, r in runs:
        if c["k"] == 0 or not isinstance(c["sched"]["method"], str) or c["sched"]["method"] not in ("linear", "constant") \
                or list(c["sched"]["milestones"]) != sorted(c["sched"]["milestones"]):
            continue
        ctx.count(("exact", proto("loop", toy_groups(c))), c["k"] >= 2 and c["T"] >= c["k"], bucket=f"oracle/exact/k{c['k']}")
        bad = check_exact(c, r)
        if bad:
            yield Violation(bad[0], bad[1], _cfg_replay(c, check="exact", **bad[2]))
    # (2) Adam and gradient clipping under tolerance
    for i in range(ctx.budget(24, 240)):
        c = gen_cfg(rng, k=[1, 2, 3, 4][i % 4], T=rng.randint(6, 12))
        opt_kind = "adam" if i % 3 != 2 else "sgd"
        clip = rng.choice([0, 0.5, 1.0, 4.0]) if i % 2 else 0
        c2 = dict(c, opt=("adam",) if opt_kind == "adam" else c["opt"], clip=clip)
        r = real_uninterrupted(c2)
        ref = _float_reference(c, opt_kind, clip)
        if ref is None:
            ctx.hist["oracle/float/kink-ambiguous-skipped"] = ctx.hist.get("oracle/float/kink-ambiguous-skipped", 0) + 1
            continue
        ctx.count(("float", opt_kind, clip, proto("loop", toy_groups(c))), c["k"] >= 2,
                  bucket=f"oracle/{opt_kind}/clip{'on' if clip else 'off'}/k{c['k']}")
        for it, ((w, lr), (rw, rlr)) in enumerate(zip(r["records"], ref)):
            if max(abs(a - b) for a, b in zip(w, rw)) > 1e-9 or abs(lr - rlr) > 1e-12 or len(r["records"]) != len(ref):
                yield Violation(f"step-not-mean-of-window-{opt_kind}" + ("-clip" if clip else ""),
                                f"{opt_kind} clip={clip}: parameters after iteration {it} are {w}, reference {rw}",
                                _cfg_replay(c2, check="float", opt_kind=opt_kind, iteration=it))
                break
    # (2b) the same property through REAL engines (tiny Unet2d / RIM / EndToEndVarNet, real losses, real _do_iteration)
    combos = [(e, k) for e in REAL_ENGINES for k in (2, 3)] if not (ctx.thorough or deep) else \
        [(e, k) for e in REAL_ENGINES for k in (1, 2, 3, 4) for _ in range(3)]
    for i, (kind, k) in enumerate(combos):
        total, bs = rng.choice([5, 6, 7]) if k < 4 else 9, rng.randint(1, 2)
        opt_kind, seed = ["sgd", "adam"][i % 2], rng.randrange(10 ** 6)
        worst, bad = real_engine_check(kind, k, total, bs, opt_kind, seed)
        ctx.count(("real-engine", kind, k, total, bs, opt_kind, seed), k >= 2, sample={"engine": kind, "k": k, "T": total,
                  "bs": bs, "opt": opt_kind, "max_abs_deviation": worst}, bucket=f"oracle/real-engine/{kind}/k{k}/{opt_kind}")
        if bad is not None:
            yield Violation(f"step-not-mean-of-window-{kind}", f"{kind} engine, k={k}, {opt_kind}: parameters after iteration {bad} "
                            f"deviate from the step on the window's mean gradient by {worst:.3g}",
                            {"op": "real-engine", "engine": kind, "k": k, "T": total, "bs": bs, "opt": opt_kind, "seed": seed})
    # (2c) histories with between-iteration events (validation / checkpoint / kill / stop + resume), stated on the
    # observations: lr in effect(t) = schedule(t), every iteration exactly once, scheduler steps = iterations, parameters
    # = the uninterrupted reference (after a mid-window resume: = the reference that models the known finding, nothing else)
    from props import c16_events as ev

    hists = list(ctx.__dict__.get("c16_hist", []))
    for i in range((8 if not hists else 0) + (60 if deep else 0)):
        c, val, procs = ev.gen_history(rng, k=[2, 3, 4, 2][i % 4], force_mid_val=(i % 3 != 2))
        hists.append((c, val, procs, ev.run_history(c, val, procs)))
    for c, val, procs, outs in hists:
        vmid, smid = ev.mid_window_events(c, outs)
        ctx.count(("history", ev.history_line(c, val, procs, [])), c["k"] >= 2,
                  bucket=f"oracle/history/k{c['k']}/" + ("val-mid-window" if vmid else "save-mid-window" if smid else "aligned"))
        ctx.hist["oracle/history/mid-window-validation-rounds"] = ctx.hist.get("oracle/history/mid-window-validation-rounds", 0) + vmid
        ctx.hist["oracle/history/mid-window-saves"] = ctx.hist.get("oracle/history/mid-window-saves", 0) + smid
        for key, what, detail in ev.check_history(c, val, procs, outs):
            yield Violation(key, what, ev.history_replay(c, val, procs, key=key, **detail))
    # (2d) an ENABLED GradScaler (power-of-two scales that grow during the run) through the real loop: the update must
    # still be the step on the window mean, exactly
    for i in range(ctx.budget(6, 60) + (20 if deep else 0)):
        c, val, _ = ev.gen_history(rng, k=[2, 3, 4, 1, 2, 4][i % 6], force_mid_val=True)
        c.pop("aux", None)
        scaler = ev.amp_scaler(rng)
        if scaler is None:
            ctx.notes.append("torch.amp.GradScaler('cpu') unavailable: mixed-precision runs skipped")
            break
        try:
            with scratch_dir() as d:
                r = ev.run_eprocess(d, c, total=c["T"], resume=False, val_steps=val[0], has_val=True, scaler=scaler[0])
        except Exception as e:  # noqa: BLE001 - the loop breaks the scaler's protocol
            yield Violation("amp-run-raises:" + err_name(e), f"GradScaler enabled ({scaler[1]}), k={c['k']}: Engine.train raised "
                            f"{err_name(e)}: {e}"[:300], _cfg_replay(c, check="amp", scaler=scaler[1], val_steps=val[0]))
            continue
        ctx.count(("amp", scaler[1], proto("loop", toy_groups(c))), c["k"] >= 2, bucket=f"oracle/amp-enabled/k{c['k']}")
        bad = check_exact(c, r)
        if bad:
            yield Violation(bad[0] + "-amp", f"GradScaler enabled ({scaler[1]}): " + bad[1],
                            _cfg_replay(c, check="amp", scaler=scaler[1], val_steps=val[0], **bad[2]))
        # … and with gradient clipping (clipping must see unscaled gradients), under tolerance
        clip = rng.choice([0.5, 1.0, 2.0])
        c2 = dict(c, clip=clip)
        ref = _float_reference(c, "sgd", clip)
        if ref is None:
            continue
        scaler = ev.amp_scaler(rng)
        try:
            with scratch_dir() as d:
                r = ev.run_eprocess(d, c2, total=c["T"], resume=False, val_steps=val[0], has_val=True, scaler=scaler[0])
        except Exception as e:  # noqa: BLE001
            yield Violation("amp-run-raises:" + err_name(e), f"GradScaler enabled ({scaler[1]}), clip={clip}, k={c['k']}: "
                            f"Engine.train raised {err_name(e)}: {e}"[:300],
                            _cfg_replay(c2, check="ampclip", scaler=scaler[1], val_steps=val[0]))
            continue
        ctx.count(("amp-clip", scaler[1], clip, proto("loop", toy_groups(c))), c["k"] >= 2,
                  bucket=f"oracle/amp-enabled-clip/k{c['k']}")
        for it, ((w, lr), (rw, rlr)) in enumerate(zip(r["records"], ref)):
            if max(abs(a - b) for a, b in zip(w, rw)) > 1e-9:
                yield Violation("step-not-mean-of-window-amp-clip",
                                f"GradScaler enabled ({scaler[1]}), clip={clip}: parameters after iteration {it} are {w}, "
                                f"reference {rw}", _cfg_replay(c2, check="ampclip", scaler=scaler[1], val_steps=val[0],
                                                               iteration=it))
                break
    # (2f) clipping x additional models: 1-2 additional models whose gradients have very different norms, thresholds below
    # and above the global norm; the reference clips the window mean over ALL optimised parameters against its global norm
    for i in range(ctx.budget(8, 80) + (24 if deep else 0)):
        c = gen_cfg(rng, k=[1, 2, 3, 4][i % 4], T=rng.randint(6, 12))
        c["X"] = [[v if v else 1 for v in row] for row in c["X"]]
        scales = [[8.0], [8.0, 0.125], [0.125], [4.0, 0.25]][(i + i // 4) % 4]
        c["aux_scales"] = scales
        probe = ev.clip_aux_reference(c, scales, 0.0)
        if probe is None:
            ctx.hist["oracle/clip-aux/kink-ambiguous-skipped"] = ctx.hist.get("oracle/clip-aux/kink-ambiguous-skipped", 0) + 1
            continue
        # the global norm of the first window's mean gradient, from the unclipped probe: first parameter change / lr
        k0 = c["k"] - 1
        w_before = [float(v) for v in c["w0"]] + [0.0] * (c["d"] * len(scales))
        lr0 = float(lr_closed_form(c["sched"], k0))
        n0 = sum(((a - b) / lr0) ** 2 for a, b in zip(w_before, probe[0][k0][0])) ** 0.5 if c["T"] > k0 and lr0 else 0.0
        if n0 == 0.0:
            continue
        clip = n0 * [0.25, 0.5, 2.0, 0.75][i % 4]          # mostly below the global norm (clipping active), sometimes above
        c["clip"] = clip
        ref = ev.clip_aux_reference(c, scales, clip)
        if ref is None:
            continue
        with scratch_dir() as d:
            r = ev.run_eprocess(d, c, total=c["T"], resume=False, has_val=False)
        ctx.count(("clip-aux", tuple(scales), clip, proto("loop", toy_groups(c))), True,
                  bucket=f"oracle/clip-aux/k{c['k']}/{len(scales)}aux/" + ("active" if ref[1] else "inactive"))
        for it, ((w, lr), (rw, rlr)) in enumerate(zip(r["records"], ref[0])):
            if max(abs(a - b) for a, b in zip(w, rw)) > 1e-9 or len(r["records"]) != len(ref[0]):
                yield Violation("clip-not-global-norm-additional-models",
                                f"k={c['k']}, additional models with gradient scales {scales}, gradient_clipping={clip:.6g} "
                                f"(global norm of the first mean gradient {n0:.6g}): parameters after iteration {it} are {w}, "
                                f"the step on the mean gradient clipped against the global norm over all optimised "
                                f"parameters gives {rw}", _cfg_replay(c, check="clipaux", iteration=it))
                break
    # (2h) a conditionally used head that goes whole windows without a gradient, with stateful optimisers: the step on the
    # mean accumulated gradient skips it (`.grad` is None there), so the head and its optimiser state must not move
    for i in range(ctx.budget(9, 90) + (18 if deep else 0)):
        k = [1, 2, 3][i % 3]
        c = gen_cfg(rng, k=k, T=12, bs=rng.randint(1, 3))
        c["X"] = [[(v if v else 1) + 0.25 for v in row] for row in c["X"]]     # off the kink of |·|
        kind = ["adam", "momentum", "wd"][(i // 3) % 3]
        c["opt"] = ("adam",) if kind == "adam" else ("sgd", Fr(1, 2) if kind == "momentum" else Fr(0))
        c["wd"] = 0.125 if kind == "wd" else 0
        nwin = 12 // k
        c["idle_windows"] = sorted(rng.sample(range(1, nwin), rng.randint(1, max(1, (nwin - 1) // 2))))   # window 0 trains it
        ref = ev.idle_head_reference(c)
        if ref is None:
            ctx.hist["oracle/idle-head/kink-ambiguous-skipped"] = ctx.hist.get("oracle/idle-head/kink-ambiguous-skipped", 0) + 1
            continue
        with scratch_dir() as d:
            r = ev.run_eprocess(d, c, total=c["T"], resume=False, has_val=False)
        ctx.count(("idle-head", kind, tuple(c["idle_windows"]), proto("loop", toy_groups(dict(c, X=[[0]], y=[0])))), True,
                  bucket=f"oracle/idle-head/{kind}/k{k}")
        for it, ((w, lr), (rw, rlr)) in enumerate(zip(r["records"], ref)):
            if max(abs(a - b) for a, b in zip(w, rw)) > 1e-9:
                yield Violation("idle-parameter-moved-without-gradient",
                                f"k={k}, {kind}: a head that is used in no batch of windows {c['idle_windows']} (and so has no "
                                f"gradient there): parameters after iteration {it} are {w}, the optimiser applied to the mean "
                                f"accumulated gradient (None for the idle head) gives {rw}",
                                _cfg_replay(c, check="idlehead", iteration=it))
                break
    # (2g) a second train() on the SAME engine / model / optimiser objects after a phase that ended inside a window: the
    # pending gradients of phase 1 must not enter the first step of phase 2
    for i in range(ctx.budget(4, 40) + (12 if deep else 0)):
        k = [2, 3, 4, 2][i % 4]
        c = gen_cfg(rng, k=k, T=rng.randint(6, 10))
        c["opt"] = ("sgd", Fr(0))
        c["X"] = [[v if v else (3 if k == 3 else 1) for v in row] for row in c["X"]]     # multiples of 3: /3 stays exact
        t1 = rng.choice([t for t in range(1, 8) if t % k != 0])
        ph = ev.run_two_phase(c, t1, c["T"])
        c2 = dict(c, w0=[Fr(v) for v in ph[0]["w"]])
        ref = reference_run(c2)
        ctx.count(("two-phase", t1, proto("loop", toy_groups(c))), True, bucket=f"oracle/two-phase/k{k}/pending{t1 % k}")
        for it, ((w, lr), (rw, rlr)) in enumerate(zip(ph[1]["records"], ref)):
            if [Fr(v) for v in w] != rw or Fr(lr) != rlr:
                yield Violation("stale-gradients-enter-first-step",
                                f"k={k}: second train() on the same objects after a phase of {t1} iterations (gradients "
                                f"{ph[0]['pending']} pending): parameters after iteration {it} of the second phase are {w}, "
                                f"the step on the mean gradient of its own window gives {[float(v) for v in rw]}",
                                _cfg_replay(c, check="twophase", t1=t1, iteration=it))
                break
    # (2e) … through engines that override `_do_iteration` (RIM with model.steps = 2, VSharpNet, the SSL base engine) and an
    # engine with an additional `sensitivity_model` in `self.models` sharing the optimiser
    from props import c16_engines as en

    xcombos = [(e, [2, 3, 4, 3, 2][j % 5]) for j, e in enumerate(en.KINDS)] if not (ctx.thorough or deep) else \
        [(e, k) for e in en.KINDS for k in (1, 2, 3, 4) for _ in range(2)]
    for i, (kind, k) in enumerate(xcombos):
        total, bs = rng.choice([5, 6, 7]) if k < 4 else 9, rng.randint(1, 2)
        opt_kind, seed = ["sgd", "adam"][i % 2], rng.randrange(10 ** 6)
        worst, bad = en.engine_check(kind, k, total, bs, opt_kind, seed)
        ctx.count(("real-engine-x", kind, k, total, bs, opt_kind, seed), k >= 2, sample={"engine": kind, "k": k, "T": total,
                  "bs": bs, "opt": opt_kind, "max_abs_deviation": worst}, bucket=f"oracle/real-engine/{kind}/k{k}/{opt_kind}")
        if bad is not None:
            yield Violation(f"step-not-mean-of-window-{kind}", f"{kind} engine, k={k}, {opt_kind}: parameters after iteration {bad} "
                            f"deviate from the step on the window's mean gradient by {worst:.3g}",
                            {"op": "real-engine-x", "engine": kind, "k": k, "T": total, "bs": bs, "opt": opt_kind, "seed": seed})
    # (3) resume: at a window boundary it must reproduce the uninterrupted run; inside a window it does not
    for i in range(ctx.budget(6, 40)):
        k = [2, 3, 2, 4][i % 4]
        c = gen_cfg(rng, k=k, T=12, bs=rng.randint(1, 3))
        c["ck"] = 10 ** 6
        # make the lost gradient matter: all data rows non-zero
        c["X"] = [[v if v else (3 if k == 3 else 1) for v in row] for row in c["X"]]
        for t in (rng.choice([t for t in range(5, 11) if (t + 1) % k != 0]),
                  rng.choice([t for t in range(5, 11) if (t + 1) % k == 0])):
            mid = (t + 1) % k != 0
            full, a, b = check_resume(c, t)
            ctx.count(("resume", k, t, proto("loop", toy_groups(c))), True,
                      bucket="oracle/resume/" + ("mid-window" if mid else "boundary"))
            same = [r[0] for r in full["records"][t + 1:]] == [r[0] for r in b["records"]] and b["start"] == t + 1
            if not same:
                yield Violation("resume-mid-window" if mid else "resume-window-boundary",
                                f"k={k}: clean stop after iteration {t} (start_iter {t + 1}, "
                                f"{'inside' if mid else 'at the boundary of'} an accumulation window) and resume ends at "
                                f"{b['w']}, the uninterrupted run at {full['w']}: the gradients accumulated before the "
                                f"checkpoint are not part of it",
                                _cfg_replay(c, check="resume", stop_after=t, expected=full["w"], observed=b["w"]))


def replay(rep: dict) -> bool:
    if rep.get("op") == "real-engine-x":
        from props import c16_engines as en

        return en.engine_check(rep["engine"], rep["k"], rep["T"], rep["bs"], rep["opt"], rep["seed"])[1] is not None
    if rep.get("op") == "real-engine":
        return real_engine_check(rep["engine"], rep["k"], rep["T"], rep["bs"], rep["opt"], rep["seed"])[1] is not None
    c = _cfg_from_replay(rep)
    if rep.get("check") == "idlehead":
        from props import c16_events as ev

        if len(c["opt"]) > 1 and c["opt"][0] == "adam":
            c["opt"] = ("adam",)
        ref = ev.idle_head_reference(c)
        with scratch_dir() as d:
            r = ev.run_eprocess(d, c, total=c["T"], resume=False, has_val=False)
        return ref is not None and any(max(abs(a - b) for a, b in zip(w, rw)) > 1e-9
                                       for (w, _), (rw, _) in zip(r["records"], ref))
    if rep.get("check") == "clipaux":
        from props import c16_events as ev

        ref = ev.clip_aux_reference(c, c["aux_scales"], c["clip"])
        with scratch_dir() as d:
            r = ev.run_eprocess(d, c, total=c["T"], resume=False, has_val=False)
        return ref is not None and any(max(abs(a - b) for a, b in zip(w, rw)) > 1e-9
                                       for (w, _), (rw, _) in zip(r["records"], ref[0]))
    if rep.get("check") == "twophase":
        from props import c16_events as ev

        ph = ev.run_two_phase(c, rep["t1"], c["T"])
        ref = reference_run(dict(c, w0=[Fr(v) for v in ph[0]["w"]]))
        return any([Fr(v) for v in w] != rw for (w, _), (rw, _) in zip(ph[1]["records"], ref))
    if rep.get("check") == "history":
        from props import c16_events as ev

        val, procs = tuple(rep["val"]), rep["procs"]
        outs = ev.run_history(c, val, procs)
        return any(k == rep.get("key") for k, _, _ in ev.check_history(c, val, procs, outs))
    if rep.get("check") == "ampclip":
        from props import c16_events as ev

        sc = ev.amp_scaler_from(rep["scaler"])
        try:
            with scratch_dir() as d:
                r = ev.run_eprocess(d, c, total=c["T"], resume=False, val_steps=rep["val_steps"], has_val=True, scaler=sc)
        except Exception:  # noqa: BLE001
            return True
        ref = _float_reference(dict(c, clip=0), "sgd", c.get("clip", 0))
        return ref is not None and any(max(abs(a - b) for a, b in zip(w, rw)) > 1e-9 for (w, _), (rw, _) in zip(r["records"], ref))
    if rep.get("check") == "amp":
        from props import c16_events as ev

        sc = ev.amp_scaler_from(rep["scaler"])
        try:
            with scratch_dir() as d:
                r = ev.run_eprocess(d, c, total=c["T"], resume=False, val_steps=rep["val_steps"], has_val=True, scaler=sc)
        except Exception:  # noqa: BLE001
            return True
        return check_exact(c, r) is not None
    if rep.get("check") == "resume":
        full, a, b = check_resume(c, rep["stop_after"])
        return [r[0] for r in full["records"][rep["stop_after"] + 1:]] != [r[0] for r in b["records"]]
    if rep.get("check") == "float":
        base = dict(c, opt=("sgd", Fr(0)) if rep["opt_kind"] == "adam" else c["opt"])
        r = real_uninterrupted(c)
        ref = _float_reference(base, rep["opt_kind"], c.get("clip", 0))
        return ref is not None and any(max(abs(a - b) for a, b in zip(w, rw)) > 1e-9 for (w, _), (rw, _) in zip(r["records"], ref))
    return check_exact(c, real_uninterrupted(c)) is not None
