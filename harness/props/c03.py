"""C03 — under-sampling never leaks or alters k-space."""
from __future__ import annotations

import itertools

import boot  # noqa: F401
import numpy as np
import torch

from core import Ctx, Violation, err_name, ints

PROP = "C03"
MANIFEST = {
    "text": "Lean 4 theorems, for every mask element type (bool/int/float), every numpy-broadcastable mask shape, every tensor "
            "size and every NaN-free float32 value (explicit type: +0, -0, finite, +inf, -inf): masked k-space is bit-identical "
            "to the input on the support and exactly +0 off it, masking is idempotent and non-interfering (unsampled entries "
            "cannot influence the result), with explicit corollaries for the documented layouts (one (h,w) pattern for every coil, "
            "slice / time frame and complex component; per-frame patterns for dynamic data); the same for apply_padding, for the "
            "engines' masked forward operator (output +0 off the support whatever F/expand are) and masked backward operator / "
            "ConjGrad A* / MRILogLikelihood (output independent of unsampled entries of the data and of the prediction); for the "
            "mask-function path of apply_mask and of the pipeline (CreateSamplingMask with its shape / seed / padding options "
            "followed by ApplyMask: the mask is apply_padding(mask_func(shape, seed(filename))), the masked k-space is +0 off it "
            "and +0 inside the zero-padding); for the hard data-consistency step of the SSL / JSSL engines "
            "(kspace + apply_mask(prediction, ~mask), padding, target projection: measured value on the support whatever the "
            "prediction is, prediction off it, +0 off the target mask / in the padding); for the ACS k-space of the sensitivity / "
            "body-coil estimation; and for call histories on persistent objects (a memoising operator is transparent iff its key "
            "determines the result; the k-space-only key leaks). Tied to the code by translating predicate and both branches of "
            "every torch.where, the composition order of the operators, the plans of ApplyMaskModule / ApplyZeroPadding / "
            "CreateSamplingMask, a semantic-facts table of the ten deciding functions with private helpers followed (no return "
            "of an input outside an `is None` guard, no state written, no in-place update of an argument, no condition or loop range "
            "depending on tensor shape / dtype / values or on the training / grad mode), and the tables of all 51 masking sites under direct/nn "
            "(with per-function counts and the per-function list of the sites that may be conditional — every other site is unconditional) and all "
            "12 sites elsewhere in direct/ (no product of unmasked data with a mask) into Lean "
            "(bridge lemmas), and by a bit-level differential correspondence on the real functions, modules, engines (toy "
            "MRIModelEngine, SSL and JSSL engines through their real _do_iteration) and scripted call histories.",
    "note": "Trusted: Lean kernel (+propext, Classical.choice, Quot.sound), the AST recipes of harness/translate/recipes/c03.py, "
            "torch.where / broadcasting semantics as encoded by whereWith / bIdxR (validated by correspondence on bit patterns; reads "
            "of well-formed operands provably never use a default value), the FVal encoding of float32 bit patterns, IEEE x + (+0) "
            "as encoded by FVal.add. Fourier transform, expand and reduce operators, the network and the mask function are arbitrary "
            "functions in the theorems. Partial: float masks in the Lean correspondence have integer-valued entries, +-0, +-inf "
            "(0.5-type weights, float16/bfloat16/float64 k-space, int8..int64 / float16..float64 masks, non-contiguous and "
            "zero-size tensors are covered by the oracle on the real code only); sums of two non-zero finite values in hardDC are "
            "exact only for small integers (the theorems use x + 0 only); NaN entries are outside the property's quantifier; "
            "apply_padding tests `== 1` by design. Finding of phase 3 (repaired in /repo, witness acs_mul_pinned_violates): the ACS "
            "k-space was masked by multiplication, inf outside the ACS mask gave NaN sensitivity maps.",
    "technique": "Lean 4 proof (list induction over index arithmetic, broadcasting as index map, special-value float type) + AST "
                 "translation bridges (where-sites, stage order, plans, structural facts, site tables with decided predicates) + "
                 "bit-level differential correspondence (incl. scripted call histories and real SSL/JSSL iterations) + property "
                 "oracle on the real code (dtype / layout / size ladders, aliasing, histories on persistent objects, grad / no_grad / "
                 "inference modes, train / eval, 13 unrolled blocks, engines)",
}
TRUSTED = [
    "Lean 4.33 kernel; axioms ⊆ {propext, Classical.choice, Quot.sound}",
    "harness/translate/recipes/c03.py (torch.where predicate/branches and zero-constant dtype, mask_func call, stage order of the masked "
    "operators, plans of ApplyMaskModule / ApplyZeroPadding / CreateSamplingMask read by data flow, semantic facts of ten functions, site scans "
    "of direct/nn and of the rest of direct/, state-write scan; hoisted locals, renames, one-line helpers and private helpers of the same "
    "module / class are inlined before a site is read, so behaviour-preserving restructuring leaves the generated definitions unchanged)",
    "torch.where and numpy-style broadcasting as encoded by whereWith/srcAt/bIdxR/bShapeR — validated by correspondence; the index "
    "arithmetic itself (bShapeR, bIdxR, unravelR/ravelR) is additionally compared with np.broadcast_shapes / np.broadcast_to / "
    "np.unravel_index on an exhaustive small scope, its inverse laws and the in-range law of broadcast reads are proved (Lemmas/C03)",
    "encoding of float32 bit patterns as FVal tags (harness) and its decoder (Driver/C03.lean); IEEE `x + 0`, `s * x` on the special-value "
    "type (FVal.add, FVal.mulInt) — validated by the harddc / loglik / acsmul correspondence",
    "forward/backward Fourier operators, expand_operator, reduce_operator, the network output and the mask function are abstract "
    "(arbitrary) in the theorems",
    "the toy engines (MRIModelEngine, SSLMRIModelEngine, JSSLMRIModelEngine subclasses overriding only forward_function) and recording "
    "operators used to observe the real _forward_operator / _backward_operator / _do_iteration",
]
ASSUMPTIONS = [
    "k-space values are NaN-free (the property's quantifier); finite probe values of the Lean correspondence are integer-valued float32 "
    "(incl. ±3.4028235e38); arbitrary finite values, subnormals, float16 / bfloat16 / float64 are probed by the oracle on the real code",
    "float masks in the Lean correspondence: integer-valued entries, ±0.0, ±inf; entries such as 0.5 and all other mask dtypes by the oracle "
    "(NaN mask entries are outside the quantifier); a mask entry is 'set' iff it is non-zero",
    "MRILogLikelihood correspondence observes the `error` tensor at the input of the backward operator; on-support arithmetic "
    "is exact small-integer arithmetic; the hard-DC correspondence observes the k-space handed to the loss / backward operator, the "
    "measured k-space is +0 off its mask so every sum has a zero operand",
    "ESPIRiT / network internals are not part of this property; the ACS sites are observed at the input of their backward operator",
]
RULE = ("k-space tensors (coil,h,w,2), (coil,s,h,w,2), (b,coil,h,w,2), (b,coil,s,h,w,2) filled with distinct integers and planted "
        "-0.0/±inf/±3.4e38 at sampled and unsampled positions, incl. a size ladder (8, 9, 16, 17, 20, 33 on one axis) and empty axes; "
        "bool/uint8/int64/float32 masks of every broadcastable shape (all-zero, all-one, random, non-binary values, rank-deficient, "
        "expanding); ApplyMaskModule / ApplyMask wrapper on sample dicts with stale target content, histories of 1-3 applications, custom "
        "key names; scripted call histories on persistent objects (same objects re-used, written in place / through numpy / .data, "
        "re-allocated); engine operators in train and eval mode; real SSL / JSSL iterations (train / eval, image or k-space output, padding, "
        "coil ladder); CreateSamplingMask options (shape None / () / full / with None / too long, use_seed, return_acs, padding) + ApplyMask; "
        "ACS sites; plus a malformed stream (non-broadcastable masks, no complex axis, missing keys). Oracle: the same on arbitrary values, "
        "float16/bfloat16/float64 k-space, 10 mask dtypes, non-contiguous layouts, aliasing, grad / no_grad / inference modes, 13 unrolled "
        "blocks (train/eval, coil ladder, weighted masks, object re-use) plus 11 option variants (XPDNet with a learned CONV / DIDN k-space "
        "model and num_dual 1 / 2, the smallest supported value of every count / buffer-size option of the other blocks), VSharp engines with "
        "padding, SSL splitters. "
        "non-trivial = at least one sampled and one unsampled position and ≥ 4 k-space entries, or a malformed input that must "
        "be rejected, or a history of ≥ 3 calls; distinct = distinct protocol line / oracle case key")
PENDING_FINDINGS: list[str] = []   # `acs-mul-mask:inf-outside-acs-gives-nan` (phase 3) was repaired in /repo; Props/C03.acs_mul_pinned_violates
EXTRA_LEAN_MODULES = ["DirectVerif.Lemmas.C03"]   # helper lemmas: hygiene-checked and axiom-audited too

F32MAX = 3.4028234663852886e38
SPECIALS = [-0.0, float("inf"), float("-inf"), F32MAX, -F32MAX, 0.0]
MASK_DTYPES = {"bool": torch.bool, "uint8": torch.uint8, "int64": torch.int64, "float32": torch.float32}


class Unencodable(Exception):
    pass


# --------------------------------------------------------------------------------------------------
# encoding of float32 tensors as FVal (tag, payload) pairs — derived from the bit patterns
def enc_vals(t: torch.Tensor) -> list[int]:
    t = t.detach().contiguous()
    if t.dtype != torch.float32:
        raise Unencodable(f"dtype {t.dtype}")
    bits = t.view(torch.int32).reshape(-1).tolist()
    vals = t.reshape(-1).tolist()
    out = []
    for b, v in zip(bits, vals):
        if b == 0:
            out += [0, 0]
        elif b == -2 ** 31:
            out += [1, 0]
        elif v != v:
            raise Unencodable("NaN")
        elif v == float("inf"):
            out += [3, 0]
        elif v == float("-inf"):
            out += [4, 0]
        else:
            q = int(v)
            if q != v:
                raise Unencodable(f"non-integer {v}")
            out += [2, q]
    return out


def ok_vals(t: torch.Tensor) -> str:
    try:
        return "ok " + ints(t.shape) + " | " + ints(enc_vals(t))
    except Unencodable as e:
        return "err NaN" if str(e) == "NaN" else "err Unencodable"


def mask_groups(m: torch.Tensor):
    """([kind], shape, data) of a mask tensor"""
    if m.dtype == torch.float32:
        return [1], list(m.shape), enc_vals(m)
    return [0], list(m.shape), [int(v) for v in m.reshape(-1).tolist()]


def pline(op: str, *groups) -> str:
    return op + " " + " | ".join(ints(g) for g in groups)


def _impl(fn):
    def run():
        try:
            return fn()
        except AssertionError:
            return "err AssertionError"
        except RuntimeError:
            return "err RuntimeError"
        except (ValueError, TypeError, IndexError) as e:
            return "err " + err_name(e)
    return run


# --------------------------------------------------------------------------------------------------
# generators
def gen_kshape(rng, max_elems=160):
    while True:
        kind = rng.choice(["2d", "2d", "3d", "b2d", "b2d", "b3d"])
        d = lambda: rng.choice([1, 2, 2, 3, 3, 4, 5])  # noqa: E731
        shape = {"2d": [d(), d(), d(), 2], "3d": [d(), d(), d(), d(), 2], "b2d": [d(), d(), d(), d(), 2],
                 "b3d": [rng.choice([1, 2]), d(), rng.choice([1, 2, 3]), d(), d(), 2]}[kind]
        if int(np.prod(shape)) <= max_elems:
            return kind, shape


def gen_kspace(rng, shape, n_special=None, special_where=None):
    """distinct non-zero integers with random signs + planted specials"""
    n = int(np.prod(shape))
    vals = np.arange(1, n + 1, dtype=np.float32) + rng.randint(0, 50)
    signs = np.array([rng.choice([1.0, -1.0]) for _ in range(n)], dtype=np.float32)
    k = torch.from_numpy(vals * signs).reshape(shape)
    if n_special is None:
        n_special = rng.randint(0, max(1, n // 3))
    flat = k.reshape(-1)
    cand = list(range(n)) if special_where is None else [i for i in range(n) if special_where.reshape(-1)[i]]
    for _ in range(n_special):
        if cand:
            flat[rng.choice(cand)] = rng.choice(SPECIALS)
    return flat.reshape(shape).clone()


def gen_mask_shape(rng, kshape):
    """a shape that broadcasts against `kshape` (kind tag, shape)"""
    r = rng.random()
    if r < 0.30 and len(kshape) >= 4:        # the canonical layouts (…,1,h,w,1) / (1,h,w,1)
        s = [1] * len(kshape)
        s[-2], s[-3] = kshape[-2], kshape[-3]
        if rng.random() < 0.3:
            s[0] = kshape[0]
        return "canonical", s
    if r < 0.55:                              # arbitrary 1-or-n per axis
        return "mixed", [n if rng.random() < 0.5 else 1 for n in kshape]
    if r < 0.70:                              # fewer axes
        cut = rng.randint(1, len(kshape))
        return "lowrank", [n if rng.random() < 0.6 else 1 for n in kshape[cut:]]
    if r < 0.78:
        return "full", list(kshape)
    if r < 0.84:
        return "scalar", []
    if r < 0.92:                              # mask larger than the k-space where k-space has length 1
        s = [n if n != 1 else rng.choice([1, 2, 3]) for n in kshape]
        return "expanding", s
    return "extra-axis", [rng.choice([1, 2])] + [n if rng.random() < 0.5 else 1 for n in kshape]


def gen_mask(rng, shape, dtype_name=None, pattern=None):
    dtype_name = dtype_name or rng.choice(list(MASK_DTYPES))
    pattern = pattern or rng.choice(["random", "random", "random", "zeros", "ones", "sparse", "values"])
    n = int(np.prod(shape)) if shape else 1
    if pattern == "zeros":
        v = [0] * n
    elif pattern == "ones":
        v = [1] * n
    elif pattern == "sparse":
        v = [1 if rng.random() < 0.2 else 0 for _ in range(n)]
    elif pattern == "values":
        pool = {"bool": [0, 1], "uint8": [0, 1, 2, 255], "int64": [0, 1, -1, 7, 2 ** 40],
                "float32": [0.0, -0.0, 1.0, -1.0, 2.0, float("inf"), float("-inf"), F32MAX]}[dtype_name]
        v = [rng.choice(pool) for _ in range(n)]
    else:
        v = [rng.choice([0, 1]) for _ in range(n)]
    m = torch.tensor(v, dtype=torch.float64 if dtype_name == "float32" else torch.int64).reshape(shape)
    return dtype_name, pattern, m.to(MASK_DTYPES[dtype_name])


def support(m: torch.Tensor, shape) -> torch.Tensor:
    """boolean support of the mask broadcast to `shape` (numpy, independent of torch.where)"""
    return torch.from_numpy(np.broadcast_to((m.numpy() != 0), np.broadcast_shapes(tuple(m.shape), tuple(shape))).copy())


# --------------------------------------------------------------------------------------------------
_ENGINE = {}


def toy_engine():
    if "eng" not in _ENGINE:
        from omegaconf import OmegaConf
        from direct.config.defaults import DefaultConfig
        from direct.nn.mri_models import MRIModelEngine

        class Toy(MRIModelEngine):
            def forward_function(self, data):
                return None, None

        cfg = OmegaConf.structured(DefaultConfig)
        _ENGINE["eng"] = Toy(cfg, torch.nn.Linear(1, 1), "cpu", forward_operator=None, backward_operator=None)
        _ENGINE["eng"].ndim = 2
    return _ENGINE["eng"]


class Marker:
    """a recording Fourier operator: remembers its input, returns `ret` (or the input)"""

    def __init__(self, ret=None):
        self.ret = ret
        self.seen = []

    def __call__(self, data, dim=None, **kw):
        self.seen.append(data.clone())
        return data if self.ret is None else self.ret


LADDER = [8, 9, 16, 17, 20, 33]


def gen_engine_case(rng, specials_unsampled_only=False, ladder=False):
    b, c, h, w = rng.choice([1, 2]), rng.choice([1, 2, 3]), rng.choice([1, 2, 3, 4]), rng.choice([1, 2, 3, 4])
    if ladder:                      # one axis from the size ladder, the others tiny
        dims = [1, rng.choice([1, 2]), rng.choice([1, 2]), rng.choice([1, 2])]
        dims[rng.randrange(4)] = rng.choice(LADDER)
        b, c, h, w = dims
    kshape = [b, c, h, w, 2]
    r = rng.random()
    mshape = [b if rng.random() < 0.5 else 1, 1, h, w, 1] if r < 0.7 else ([1, 1, 1, w, 1] if r < 0.85 else [b, c, h, w, 2])
    dn, pat, m = gen_mask(rng, mshape, pattern=rng.choice(["random", "random", "sparse", "zeros", "ones", "values"]))
    sup = support(m, kshape)
    k = gen_kspace(rng, kshape, special_where=(~sup) if specials_unsampled_only else None)
    x = torch.tensor([rng.randint(-3, 3) for _ in range(b * h * w * 2)], dtype=torch.float32).reshape(b, h, w, 2)
    S = torch.tensor([rng.randint(-2, 2) for _ in range(b * c * h * w * 2)], dtype=torch.float32).reshape(kshape)
    return kshape, m, dn, pat, k, x, S, sup


_MISSING = object()
STALE_KINDS = ["none", "same-shape-junk", "same-shape-other-mask", "other-shape", "non-tensor"]


def gen_module_history(rng, integer_valued=True, max_elems=100):
    """ApplyMaskModule applied 1-3 times to one sample dict: input k-space, stale content under the target key,
    a new mask per application, key names, unrelated keys."""
    kkind, kshape = gen_kshape(rng, max_elems)
    k = gen_kspace(rng, kshape) if integer_valued else gen_any_kspace(rng, kshape)
    n = rng.choice([1, 2, 2, 3])
    dn = rng.choice(list(MASK_DTYPES))
    masks = []
    for _ in range(n):
        for _try in range(8):
            skind, mshape = gen_mask_shape(rng, kshape)
            _, pat, m = gen_mask(rng, mshape, dtype_name=dn, pattern=rng.choice(["random", "random", "sparse", "ones", "zeros", "values"]))
            if not masks or m.shape != masks[-1].shape or not torch.equal(m, masks[-1]):
                break
        masks.append(m)
    stale_kind = rng.choice(STALE_KINDS + ["same-shape-junk", "same-shape-other-mask"])
    if stale_kind == "none":
        stale = _MISSING
    elif stale_kind == "same-shape-junk":
        stale = gen_kspace(rng, kshape) if integer_valued else gen_any_kspace(rng, kshape)
    elif stale_kind == "same-shape-other-mask":     # a correctly masked k-space — for another mask
        other = (torch.arange(int(np.prod(kshape[:-1]))) % 2).reshape(kshape[:-1] + [1])
        stale = torch.from_numpy(np.where(other.numpy() != 0, k.numpy(), np.float32(0.0))).clone()
    elif stale_kind == "other-shape":
        stale = gen_kspace(rng, [kshape[0] + 1] + kshape[1:], n_special=0)
    else:
        stale = rng.choice([None, "stale", 0])
    keys = ("kspace", "masked_kspace", "sampling_mask") if rng.random() < 0.5 else \
        rng.choice([("ksp_in", "ksp_out", "msk"), ("kspace", "undersampled", "mask_2"), ("full", "masked_kspace", "sampling_mask")])
    extras = {}
    if rng.random() < 0.6:
        extras = {"filename": "vol_0", "slice_no": 3, "target": torch.arange(6.0).reshape(2, 3),
                  "sensitivity_map": torch.ones(kshape), "acs_mask": torch.ones([1] * len(kshape))}
        for kk in keys:
            extras.pop(kk, None)
    return k, masks, dn, stale_kind, stale, keys, extras


def run_module_history(k, masks, stale, keys, extras):
    """-> (list of outputs, problem or None) on the REAL ApplyMaskModule"""
    from direct.data.mri_transforms import ApplyMaskModule

    ik, tk, mk = keys
    mod = ApplyMaskModule(sampling_mask_key=mk, input_kspace_key=ik, target_kspace_key=tk)
    kin = k.clone()
    kbits = _bits(kin)
    sample = {ik: kin, **extras}
    if stale is not _MISSING:
        sample[tk] = stale
    snap = {kk: (v, v.clone() if isinstance(v, torch.Tensor) else v) for kk, v in extras.items()}
    outs = []
    for m in masks:
        sample[mk] = m
        sample = mod(sample)
        out = sample[tk]
        outs.append(out.clone() if isinstance(out, torch.Tensor) else out)
        if ik != tk and (sample.get(ik) is not kin or (_bits(kin) != kbits).any()):
            return outs, "InputMutated"
        for kk, (obj, copy) in snap.items():
            cur = sample.get(kk, _MISSING)
            if cur is not obj or (isinstance(obj, torch.Tensor) and not torch.equal(obj, copy)):
                return outs, "OtherKeysChanged"
    return outs, None


def expected_bits(k, m):
    shape = np.broadcast_shapes(tuple(m.shape), tuple(k.shape))
    return np.where(np.broadcast_to(m.numpy() != 0, shape), np.broadcast_to(_bits(k), shape), 0)


def check_module_history(k, masks, stale_kind, stale, keys, extras):
    """the property on the real module: every application yields where(mask == 0, +0, input) for the CURRENT mask"""
    try:
        outs, problem = run_module_history(k, masks, stale, keys, extras)
    except Exception as e:  # noqa: BLE001
        return "module-raises", f"ApplyMaskModule raises {err_name(e)}: {e}"
    for step, (m, out) in enumerate(zip(masks, outs)):
        exp = expected_bits(k, m)
        if not isinstance(out, torch.Tensor) or _bits(out).shape != exp.shape or (_bits(out) != exp).any():
            if step == 0:
                return (f"module-stale-target-{stale_kind}",
                        f"ApplyMaskModule output != where(mask==0, 0, input) when the target key pre-exists ({stale_kind})")
            return ("module-reapplied-with-new-mask",
                    f"application #{step + 1} of ApplyMaskModule on the same sample does not honour the current mask")
    if problem == "InputMutated":
        return "module-mutates-input", "ApplyMaskModule modified or replaced its input k-space"
    if problem == "OtherKeysChanged":
        return "module-touches-other-keys", "ApplyMaskModule changed unrelated keys of the sample"
    return None


def _rep_history(k, masks, stale_kind, stale, keys, extras):
    return {"op": "module_history", "kspace": _rep_tensor(k), "masks": [_rep_tensor(m) for m in masks],
            "stale_kind": stale_kind,
            "stale": _rep_tensor(stale) if isinstance(stale, torch.Tensor) else ("<missing>" if stale is _MISSING else repr(stale)),
            "keys": list(keys), "extras": bool(extras)}


def correspondence(ctx: Ctx):
    import direct.data.transforms as T
    from direct.data.mri_transforms import ApplyMaskModule
    from direct.nn.conjgradnet.conjgrad import ConjGrad
    from direct.nn.rim.rim import MRILogLikelihood

    rng = ctx.rng
    # ---- apply_mask with a tensor mask (every dtype / broadcastable shape), also through ApplyMaskModule
    for i in range(ctx.budget(320, 4500)):
        kkind, kshape = gen_kshape(rng)
        if i % 5 == 3:                   # size ladder on one axis (8, 9, 16, 17, 20, 33), all other axes <= 2
            kshape = [rng.choice([1, 2]) for _ in kshape[:-1]] + [2]
            kshape[rng.randrange(len(kshape) - 1)] = rng.choice(LADDER)
        elif i % 5 == 4 and i % 3 == 0:  # an empty axis
            kshape[rng.randrange(len(kshape) - 1)] = 0
        skind, mshape = gen_mask_shape(rng, kshape)
        if i % 5 == 3:
            skind = "ladder/" + skind
        dn, pat, m = gen_mask(rng, mshape)
        k = gen_kspace(rng, kshape)
        via_module = rng.random() < 0.25
        sup = support(m, kshape)
        nontrivial = bool(sup.any() and (~sup).any()) and k.numel() >= 4
        mk, ms, md = mask_groups(m)

        def run(k=k, m=m, via_module=via_module):
            if via_module and k.numel() % 2:
                from direct.data.mri_transforms import ApplyMask       # the ModuleWrapper form used in configurations
                out = ApplyMask()({"kspace": k.clone(), "sampling_mask": m})["masked_kspace"]
            elif via_module:
                out = ApplyMaskModule()({"kspace": k.clone(), "sampling_mask": m})["masked_kspace"]
            else:
                out = T.apply_mask(k.clone(), m, return_mask=False)
            return ok_vals(out)
        yield {"line": pline("mask", mk, ms, md, kshape, enc_vals(k)), "impl": _impl(run), "nontrivial": nontrivial,
               "bucket": f"mask/{dn}/{pat}/{skind}" + ("/module" if via_module else "")}
    # ---- ApplyMaskModule on sample dicts: pre-existing (stale) target, histories of 1-3 applications with new masks,
    #      non-default key names, unrelated keys, input not mutated
    for i in range(ctx.budget(140, 2000)):
        k, masks, dn, stale_kind, stale, keys, extras = gen_module_history(rng)
        groups = [[1 if dn == "float32" else 0], list(k.shape), enc_vals(k)]
        if isinstance(stale, torch.Tensor):
            groups += [[1], list(stale.shape), enc_vals(stale)]
        else:
            groups += [[0], [], []]
        for m in masks:
            _, ms, md = mask_groups(m)
            groups += [ms, md]

        def run(k=k, masks=masks, stale=stale, keys=keys, extras=extras):
            outs, problem = run_module_history(k, masks, stale, keys, extras)
            if problem:
                return "err " + problem
            try:
                return "ok " + " | ".join(ints(o.shape) + " | " + ints(enc_vals(o)) for o in outs)
            except Unencodable as e:
                return "err NaN" if str(e) == "NaN" else "err Unencodable"
        sup = support(masks[-1], list(k.shape))
        yield {"line": pline("modhist", *groups), "impl": _impl(run),
               "nontrivial": bool(sup.any() and (~sup).any()) and (stale_kind != "none" or len(masks) > 1),
               "bucket": f"module/stale={stale_kind}/n={len(masks)}/" + ("default-keys" if keys[1] == "masked_kspace" and keys[0] == "kspace" else "custom-keys")
                         + ("/extras" if extras else "")}
    for which in (0, 1):
        for _ in range(ctx.budget(4, 20)):
            kkind, kshape = gen_kshape(rng, 40)
            k = gen_kspace(rng, kshape)

            def run(k=k, which=which):
                from direct.data.mri_transforms import ApplyMaskModule
                smp = {"sampling_mask": torch.ones(1)} if which == 0 else {"kspace": k}
                return ok_vals(ApplyMaskModule()(smp)["masked_kspace"])
            yield {"line": pline("modmissing", [which], kshape, enc_vals(k)), "impl": _impl(run), "nontrivial": True,
                   "bucket": "malformed/module-missing-" + ("input" if which == 0 else "mask")}
    # ---- the hand-written index arithmetic against numpy's own (exhaustive small scope): broadcast shapes, the
    #      broadcast index map (np.broadcast_to of an arange), row-major unravel
    dims = [1, 2, 3]
    shapes = [[]] + [list(t) for r in (1, 2, 3) for t in itertools.product(dims, repeat=r)]
    pairs = [(a, b) for a in shapes for b in shapes]
    rng.shuffle(pairs)
    for a, b in pairs[: ctx.budget(250, len(pairs))]:
        def run_bs(a=a, b=b):
            try:
                return "ok " + ints(np.broadcast_shapes(tuple(a), tuple(b)))
            except ValueError:
                return "err ValueError"
        yield {"line": pline("bshape", a, b), "impl": run_bs, "nontrivial": a != b and bool(a) and bool(b), "bucket": "index/bshape"}
    n_bi = 0
    for a, b in pairs:
        if n_bi >= ctx.budget(150, 1500):
            break
        try:
            out = list(np.broadcast_shapes(tuple(a), tuple(b)))
        except ValueError:
            continue
        n_bi += 1

        def run_bi(a=a, out=out):
            src = np.arange(int(np.prod(a)) if a else 1).reshape(a)
            return "ok " + ints(np.broadcast_to(src, out).reshape(-1).tolist())
        yield {"line": pline("bindex", a, out), "impl": run_bi, "nontrivial": a != out, "bucket": "index/bindex"}
    for _ in range(ctx.budget(40, 400)):
        shp = [rng.choice([1, 2, 3, 4, 5]) for _ in range(rng.randint(1, 4))]
        fl = rng.randrange(int(np.prod(shp)))
        yield {"line": pline("unravel", shp, [fl]), "impl": lambda shp=shp, fl=fl: "ok " + ints(np.unravel_index(fl, shp)),
               "nontrivial": len(shp) > 1, "bucket": "index/unravel"}
    # ---- malformed: masks that do not broadcast, k-space without complex axis
    for i in range(ctx.budget(40, 400)):
        kkind, kshape = gen_kshape(rng, 60)
        if rng.random() < 0.5:
            mshape = list(kshape)
            ax = rng.randrange(len(mshape))
            mshape[ax] = kshape[ax] + rng.choice([1, 2]) if kshape[ax] != 1 else 1
            if mshape == list(kshape):
                mshape[-1] = 3
            bucket = "malformed/non-broadcastable"
        else:
            kshape = kshape[:-1] + [rng.choice([1, 3])]
            mshape = [1] * len(kshape)
            bucket = "malformed/no-complex-axis"
        dn, pat, m = gen_mask(rng, mshape)
        k = gen_kspace(rng, kshape, n_special=0)
        mk, ms, md = mask_groups(m)
        yield {"line": pline("mask", mk, ms, md, kshape, enc_vals(k)),
               "impl": _impl(lambda k=k, m=m: ok_vals(T.apply_mask(k, m, return_mask=False))), "nontrivial": True,
               "bucket": bucket}
    # ---- apply_mask with a mask *function* and a seed
    from direct.common.subsample import FastMRIEquispacedMaskFunc, FastMRIRandomMaskFunc, Gaussian1DMaskFunc

    class Rec:
        def __init__(self, f):
            self.f, self.calls = f, []

        def __call__(self, *a, **kw):
            self.calls.append((a, kw))
            return self.f(*a, **kw)

    def fixed_pattern(shape, seed=None, return_acs=False):   # deterministic, seed-free custom mask function
        shape = [int(s) for s in shape]
        h, w = shape[-3], shape[-2]
        m = torch.tensor([[(i * 3 + j) % 2 for j in range(w)] for i in range(h)], dtype=torch.bool)
        return m.reshape([1] * (len(shape) - 3) + [h, w, 1])

    factories = [
        ("FastMRIRandom", lambda: FastMRIRandomMaskFunc(accelerations=[2], center_fractions=[0.25])),
        ("FastMRIEquispaced", lambda: FastMRIEquispacedMaskFunc(accelerations=[3], center_fractions=[0.2])),
        ("Gaussian1D", lambda: Gaussian1DMaskFunc(accelerations=[2], center_fractions=[0.2])),
        ("custom", lambda: fixed_pattern),
    ]
    for i in range(ctx.budget(60, 800)):
        name, fac = rng.choice(factories)
        three_d = rng.random() < 0.3
        c, h, w = rng.choice([1, 2, 3]), rng.choice([4, 5, 6, 8]), rng.choice([4, 6, 7, 8])
        kshape = [c, rng.choice([1, 2]), h, w, 2] if three_d else [c, h, w, 2]
        k = gen_kspace(rng, kshape)
        seed = None if name == "custom" and rng.random() < 0.5 else rng.choice([0, 1, 2, 7, 123456, rng.randrange(2 ** 31)])
        try:
            mref = fac()(shape=np.array(kshape)[1:], seed=seed)     # what the mask must be
        except Exception:  # noqa: BLE001 - infeasible configuration for this generator
            continue
        mk, ms, md = mask_groups(mref)

        def run(k=k, fac=fac, seed=seed):
            rec = Rec(fac())
            out, mask = T.apply_mask(k.clone(), rec, seed=seed)
            if len(rec.calls) != 1:
                return "err MaskFuncCall"
            a, kw = rec.calls[0]
            kw = dict(kw)
            for name, val in zip(("shape", "seed"), a):
                kw[name] = val
            if set(kw) - {"shape", "seed", "return_acs"} or "shape" not in kw:
                return "err MaskFuncCall"
            kw.setdefault("seed", None)
            mg = mask_groups(mask)
            return ("ok " + ints(out.shape) + " | " + ints(enc_vals(out)) + " | " + ints(mg[1]) + " | " + ints(mg[2])
                    + " | " + ints(list(kw["shape"])) + " | " + ints([] if kw["seed"] is None else [kw["seed"]]))
        sup = support(mref, kshape)
        yield {"line": pline("maskfunc", mk, ms, md, kshape, enc_vals(k), [] if seed is None else [seed]),
               "impl": _impl(run), "nontrivial": bool(sup.any() and (~sup).any()),
               "bucket": f"maskfunc/{name}/" + ("3d" if three_d else "2d") + ("/noseed" if seed is None else "")}
    # ---- apply_padding
    for i in range(ctx.budget(80, 1000)):
        kkind, dshape = gen_kshape(rng, 100)
        if rng.random() < 0.1:
            k = gen_kspace(rng, dshape)
            yield {"line": pline("pad", [2], [], [], dshape, enc_vals(k)),
                   "impl": _impl(lambda k=k: ok_vals(T.apply_padding(k.clone(), None))), "nontrivial": False,
                   "bucket": "pad/None"}
            continue
        skind, pshape = gen_mask_shape(rng, dshape)
        dn, pat, p = gen_mask(rng, pshape)
        k = gen_kspace(rng, dshape)
        pk, ps, pd = mask_groups(p)
        ones = (p == 1)
        yield {"line": pline("pad", pk, ps, pd, dshape, enc_vals(k)),
               "impl": _impl(lambda k=k, p=p: ok_vals(T.apply_padding(k.clone(), p))),
               "nontrivial": bool(ones.any() and (~ones).any()), "bucket": f"pad/{dn}/{pat}/{skind}"}
    # ---- the masked operators of the engines, through recording Fourier operators
    eng = toy_engine()
    for i in range(ctx.budget(160, 1800)):
        lad = i % 4 == 3
        kshape, m, dn, pat, k, x, S, sup = gen_engine_case(rng, ladder=lad)
        if lad:
            pat = "ladder/" + pat
        eng.model.train(rng.random() < 0.5)                  # the operators must not depend on the training mode
        op = rng.choice(["fwd", "bwd", "astar"])
        mk, ms, md = mask_groups(m)
        nontrivial = bool(sup.any() and (~sup).any())
        if op == "fwd":
            def run(k=k, m=m, x=x, S=S):
                eng.forward_operator, eng.backward_operator = Marker(ret=k.clone()), None
                return ok_vals(eng._forward_operator(x, S, m))
        elif op == "bwd":
            def run(k=k, m=m, S=S):
                mark = Marker()
                eng.forward_operator, eng.backward_operator = None, mark
                eng._backward_operator(k.clone(), S, m)
                return ok_vals(mark.seen[0]) if len(mark.seen) == 1 else "err MarkerCalls"
        else:
            # a call history on ONE ConjGrad instance: this mask, then another mask of the same shape
            cgs = ConjGrad(Marker(), Marker())

            def run(k=k, m=m, S=S, cgs=cgs):
                mark = Marker()
                cgs.backward_operator = mark
                cgs._A_star_op(k.clone(), S, m)
                return ok_vals(mark.seen[0]) if len(mark.seen) == 1 else "err MarkerCalls"
            yield {"line": pline(op, mk, ms, md, kshape, enc_vals(k)), "impl": _impl(run), "nontrivial": nontrivial,
                   "bucket": f"{op}/{dn}/{pat}"}
            m = gen_mask(rng, list(m.shape), dtype_name=dn, pattern="random")[2]
            k = gen_kspace(rng, kshape)
            mk, ms, md = mask_groups(m)
            sup = support(m, kshape)
            yield {"line": pline(op, mk, ms, md, kshape, enc_vals(k)), "impl": _impl(lambda k=k, m=m, S=S, cgs=cgs, run=run: run(k, m, S, cgs)),
                   "nontrivial": bool(sup.any() and (~sup).any()), "bucket": f"{op}/{dn}/second-call-same-instance"}
            continue
        yield {"line": pline(op, mk, ms, md, kshape, enc_vals(k)), "impl": _impl(run), "nontrivial": nontrivial,
               "bucket": f"{op}/{dn}/{pat}"}
    # ---- MRILogLikelihood: the `error` tensor handed to the backward operator
    for i in range(ctx.budget(100, 1200)):
        kshape, m, dn, pat, p, x, S, sup = gen_engine_case(rng, specials_unsampled_only=True, ladder=i % 4 == 3)
        if i % 4 == 3:
            pat = "ladder/" + pat
        y = gen_kspace(rng, kshape, special_where=~sup)
        s = rng.choice([None, 1, 2, -1, 3])
        mk, ms, md = mask_groups(m)

        def run(p=p, y=y, m=m, x=x, S=S, s=s):
            fwd, bwd = Marker(ret=p.clone()), Marker()
            ll = MRILogLikelihood(fwd, bwd).train(p.shape[1] % 2 == 0)
            ll(x.permute(0, 3, 1, 2), y.clone(), S, m, None if s is None else torch.tensor([float(s)]))
            return ok_vals(bwd.seen[0]) if len(bwd.seen) == 1 and len(fwd.seen) == 1 else "err MarkerCalls"
        yield {"line": pline("loglik", mk, ms, md, kshape, enc_vals(p), kshape, enc_vals(y), [1 if s is None else s]),
               "impl": _impl(run), "nontrivial": bool(sup.any() and (~sup).any()), "bucket": f"loglik/{dn}/{pat}/s={s}"}
    yield from correspondence_phase3(ctx)


def correspondence_phase3(ctx: Ctx):
    """hard data consistency through the REAL SSL / JSSL `_do_iteration`, the pipeline path CreateSamplingMask -> ApplyMask,
    the multiplicative ACS sites — each against the Lean model (`sslOutput`, `pipelineMasked`, `acsKspace`)"""
    from . import c03_ext as X

    rng = ctx.rng
    # ---- call histories on ONE persistent object (same tensor objects re-used, written in place / through numpy / `.data`,
    #      freed and re-allocated) against `maskHistory` (Lean: a memoising operator with the complete key = stateless)
    for i in range(ctx.budget(60, 800)):
        subject = rng.choice(["apply_mask", "apply_mask-tuple", "ApplyMaskModule", "ApplyMaskModule-same-dict", "ApplyMask-wrapper"])
        kshape, mshape, mdn, script, snaps = X.gen_history_script(rng)
        groups = []
        for mv, kv in snaps:
            groups += [mshape, mv, kshape, enc_vals(torch.tensor(kv, dtype=torch.float32))]

        def run(subject=subject, a=(kshape, mshape, mdn, script)):
            outs = X.run_history_script(subject, *a)
            try:
                return "ok " + " | ".join(ints(o.shape) + " | " + ints(enc_vals(o)) for o in outs)
            except Unencodable as e:
                return "err NaN" if str(e) == "NaN" else "err Unencodable"
        yield {"line": pline("maskhist", *groups), "impl": _impl(run), "nontrivial": len(snaps) >= 3,
               "bucket": f"maskhist/{subject}/n={len(snaps)}/" + "+".join(sorted({st[0] for st in script[1:]}))[:60]}
    # ---- harddc
    for i in range(ctx.budget(80, 1000)):
        kind, train, is_ssl, via_image = rng.choice(["ssl", "jssl"]), rng.random() < 0.5, rng.random() < 0.6, rng.random() < 0.4
        kshape, acquired, inp, tgt, full, pred, pad, pat = X.gen_ssl_case(rng, integer_valued=True)
        ssl_train = train and (is_ssl if kind == "jssl" else True)
        m = inp if ssl_train else acquired
        sup = support(m, kshape)
        # extremes: anything in the prediction; in the measurement only where it is sampled (it is +0 elsewhere)
        for t, where in ((pred, None), (full, sup)):
            flat = t.reshape(-1)
            cand = list(range(flat.numel())) if where is None else [j for j in range(flat.numel()) if where.reshape(-1)[j]]
            for _ in range(rng.randint(0, 4)):
                if cand:
                    flat[rng.choice(cand)] = rng.choice(SPECIALS)
        y = torch.where(m == 0, torch.tensor([0.0]), full)
        groups = [list(m.shape), [int(v) for v in m.reshape(-1).tolist()], kshape, enc_vals(y), kshape, enc_vals(pred)]
        groups += [[0], [], []] if pad is None else [[1], list(pad.shape), [int(v) for v in pad.reshape(-1).tolist()]]
        groups += [[1], list(tgt.shape), [int(v) for v in tgt.reshape(-1).tolist()]] if ssl_train else [[0], [], []]

        def run(a=(kind, train, is_ssl, via_image, kshape, acquired, inp, tgt, full, pred, pad)):
            return ok_vals(X.run_ssl_iteration(*a))
        yield {"line": pline("harddc", *groups), "impl": _impl(run), "nontrivial": bool(sup.any() and (~sup).any()),
               "bucket": f"harddc/{kind}/{'train' if train else 'eval'}/ssl={is_ssl}/{'image' if via_image else 'kspace'}/{pat}"
                         + ("/pad" if pad is not None else "") + (f"/coils={kshape[1]}" if kshape[1] >= 8 else "")}
    # ---- pipeline: CreateSamplingMask(shape, use_seed, return_acs) [+ padding] -> ApplyMask, with a recording mask function
    from direct.data import mri_transforms as MT

    for i in range(ctx.budget(80, 1000)):
        three_d = rng.random() < 0.3
        c, h, w = rng.choice([1, 2, 3, rng.choice(LADDER)]), rng.choice([2, 3, 4]), rng.choice([2, 3, 5])
        kshape = [c, rng.choice([1, 2]), h, w, 2] if three_d else [c, h, w, 2]
        sp = kshape[1:-1]
        okind = rng.choice(["none", "none", "empty", "full", "with-None", "all-None", "too-long"])
        opt = {"none": None, "empty": (), "full": tuple(sp), "with-None": tuple(None if j == len(sp) - 1 else n for j, n in enumerate(sp)),
               "all-None": tuple(None for _ in sp), "too-long": tuple(None for _ in sp) + (None,)}[okind]
        use_seed, return_acs = rng.random() < 0.7, rng.random() < 0.3
        fname = rng.choice(["file_1.h5", "a", "vol_00017.h5", "0"])
        mshape = [1] * (len(kshape) - 3) + [h, w, 1]
        if three_d and rng.random() < 0.5:
            mshape[-4] = kshape[-4]
        mref = torch.tensor([rng.random() < 0.5 for _ in range(int(np.prod(mshape)))]).reshape(mshape)
        pad = None
        if rng.random() < 0.5:
            pad = torch.zeros([1] * (len(kshape) - 3) + [h, w, 1])
            pad[..., : rng.choice([0, 1]), :] = 1
            pad[..., w - rng.choice([0, 1]):, :] = 1
            if rng.random() < 0.3:
                pad = pad.bool()
        k = gen_kspace(rng, kshape)
        groups = [[0] if opt is None else [1], [] if opt is None else [-1 if v is None else v for v in opt], [int(use_seed)],
                  [ord(ch) for ch in fname], mshape, enc_vals(mref.float())]
        groups += [[0], [], []] if pad is None else [[1], list(pad.shape), [int(v) for v in pad.reshape(-1).tolist()]]
        groups += [kshape, enc_vals(k)]

        def run(k=k, opt=opt, use_seed=use_seed, return_acs=return_acs, fname=fname, mref=mref, pad=pad):
            calls = []

            def mf(shape, seed=None, return_acs=False):
                calls.append((tuple(int(v) for v in shape), seed, return_acs))
                return mref.clone()
            sample = {"kspace": k.clone(), "filename": fname}
            if pad is not None:
                sample["padding"] = pad.clone()
            sample = MT.CreateSamplingMask(mf, shape=opt, use_seed=use_seed, return_acs=return_acs)(sample)
            sample = MT.ApplyMask()(sample)
            main = [cl for cl in calls if not cl[2]]
            if len(main) != 1 or len(calls) != 1 + int(return_acs) or ("acs_mask" in sample) != return_acs:
                return "err MaskFuncCall"
            shape, seed, _ = main[0]
            out, mk = sample["masked_kspace"], sample["sampling_mask"]
            return ("ok " + ints(out.shape) + " | " + ints(enc_vals(out)) + " | " + ints(mk.shape) + " | " + ints(enc_vals(mk.float()))
                    + " | " + ints(shape) + " | " + ints([0 if seed is None else 1]) + " | " + ints([] if seed is None else list(seed)))
        sup = support(mref, kshape)
        yield {"line": pline("pipeline", *groups), "impl": _impl(run), "nontrivial": bool(sup.any() and (~sup).any()),
               "bucket": f"pipeline/shape={okind}/seed={use_seed}/acs={return_acs}/pad={'none' if pad is None else str(pad.dtype)[6:]}"
                         + ("/3d" if three_d else "")}
    # ---- the ACS sites (formerly `kspace * acs_mask + 0.0`, now apply_mask): the k-space handed to the backward operator
    for i in range(ctx.budget(60, 600)):
        which = rng.choice(["sensitivity", "bodycoil"])
        c, h, w = rng.choice([1, 2, 3, rng.choice(LADDER)]), rng.choice([1, 2, 3]), rng.choice([2, 3, 4, 5])
        lead = [1] if which == "sensitivity" else []
        kshape = lead + [c, h, w, 2]
        acs = torch.zeros(lead + [1, h, w, 1], dtype=torch.bool)
        lo = rng.randrange(w)
        acs[..., lo: lo + rng.choice([0, 1, 2]), :] = True
        k = gen_kspace(rng, kshape)
        has_nan = bool((torch.isinf(k) & ~acs).any())

        def run(which=which, k=k, acs=acs):
            return ok_vals(X.acs_kspace(which, k.clone(), acs.clone()))
        yield {"line": pline("acsmul", list(acs.shape), [int(v) for v in acs.reshape(-1).tolist()], kshape, enc_vals(k)),
               "impl": _impl(run), "nontrivial": bool(acs.any() and (~acs).any()),
               "bucket": f"acsmul/{which}/" + ("inf-outside-acs" if has_nan else "finite-outside-acs")}


# --------------------------------------------------------------------------------------------------
# oracle: the property stated directly on the real code, on bit patterns
def _bits(t: torch.Tensor) -> np.ndarray:
    return t.detach().contiguous().view(torch.int32).numpy().copy()


def _rep_tensor(t: torch.Tensor) -> dict:
    if t.dtype == torch.float32:
        return {"shape": list(t.shape), "dtype": "float32", "bits": _bits(t).reshape(-1).tolist()}
    return {"shape": list(t.shape), "dtype": str(t.dtype).replace("torch.", ""),
            "values": [int(v) for v in t.reshape(-1).tolist()]}


def _from_rep(r: dict) -> torch.Tensor:
    if r["dtype"] == "float32":
        return torch.tensor(r["bits"], dtype=torch.int32).view(torch.float32).reshape(r["shape"])
    return torch.tensor(r["values"], dtype=torch.int64).reshape(r["shape"]).to(getattr(torch, r["dtype"]))


def gen_any_kspace(rng, shape):
    """arbitrary NaN-free float32 values: non-integers, huge/tiny magnitudes, specials"""
    n = int(np.prod(shape))
    g = torch.Generator().manual_seed(rng.randrange(2 ** 31))
    k = torch.randn(n, generator=g) * (10.0 ** rng.choice([-30, -3, 0, 0, 3, 20]))
    for _ in range(rng.randint(0, max(1, n // 3))):
        k[rng.randrange(n)] = rng.choice(SPECIALS + [1e-45, -1e-45])
    return k.reshape(shape).clone()


def check_apply_mask(k: torch.Tensor, m: torch.Tensor, via: str = "apply_mask"):
    """-> (key, what) or None.  Property: bit-identical on the support, +0 bits off it, idempotent."""
    import direct.data.transforms as T
    from direct.data.mri_transforms import ApplyMaskModule

    def call(kk):
        if via == "module":
            return ApplyMaskModule()({"kspace": kk, "sampling_mask": m})["masked_kspace"]
        if via == "tuple":
            return T.apply_mask(kk, m)[0]
        return T.apply_mask(kk, m, return_mask=False)
    kin = k.clone()
    out = call(kin)
    if not torch.equal(_t(_bits(kin)), _t(_bits(k))):
        return f"{via}-mutates-input", "the input k-space was modified in place"
    shape = np.broadcast_shapes(tuple(m.shape), tuple(k.shape))
    sup = np.broadcast_to(m.numpy() != 0, shape)
    kb = np.broadcast_to(_bits(k), shape)
    ob = _bits(out)
    if ob.shape != tuple(shape):
        return f"{via}-shape", f"output shape {list(ob.shape)} != broadcast shape {list(shape)}"
    if (ob[sup] != kb[sup]).any():
        return f"{via}-alters-sampled", "a sampled k-space entry is not bit-identical in the masked k-space"
    if (ob[~sup] != 0).any():
        bad = ob[~sup][ob[~sup] != 0][0]
        kind = "negative-zero" if bad == -2 ** 31 else "nonzero"
        return f"{via}-unsampled-{kind}", "an unsampled position of the masked k-space is not exactly +0"
    ob2 = _bits(call(out.clone()))
    if ob2.shape != ob.shape or (ob2 != ob).any():
        return f"{via}-not-idempotent", "masking twice differs from masking once"
    return None


def _t(a):
    return torch.from_numpy(np.ascontiguousarray(a))


def oracle(ctx: Ctx, deep: bool = False):
    import direct.data.transforms as T
    from direct.nn.conjgradnet.conjgrad import ConjGrad
    from direct.nn.rim.rim import MRILogLikelihood

    rng = ctx.rng
    big = deep or ctx.thorough
    # (1) apply_mask / ApplyMaskModule on arbitrary NaN-free values
    for i in range(ctx.budget(150, 2500) * (3 if deep else 1)):
        kkind, kshape = gen_kshape(rng)
        skind, mshape = gen_mask_shape(rng, kshape)
        dn, pat, m = gen_mask(rng, mshape)
        k = gen_any_kspace(rng, kshape) if rng.random() < 0.7 else gen_kspace(rng, kshape)
        via = rng.choice(["apply_mask", "tuple", "module"])
        sup = support(m, kshape)
        ctx.count(("o-mask", tuple(kshape), tuple(mshape), dn, pat, i), bool(sup.any() and (~sup).any()),
                  bucket=f"oracle/mask/{dn}/{skind}")
        try:
            r = check_apply_mask(k, m, via)
        except Exception as e:  # noqa: BLE001
            r = (f"{via}-raises", f"raises {err_name(e)}: {e}")
        if r:
            yield Violation(r[0], r[1], {"op": "apply_mask", "via": via, "kspace": _rep_tensor(k), "mask": _rep_tensor(m)})
    # (1b) ApplyMaskModule as a function of (input, mask) only: stale targets, repeated application, keys, no mutation
    for i in range(ctx.budget(150, 2500) * (3 if deep else 1)):
        k, masks, dn, stale_kind, stale, keys, extras = gen_module_history(rng, integer_valued=rng.random() < 0.3)
        same_key = rng.random() < 0.1
        if same_key:                      # in-place style configuration: target key == input key, single application
            keys, masks, stale, stale_kind = (keys[0], keys[0], keys[2]), masks[:1], _MISSING, "none"
        sup = support(masks[-1], list(k.shape))
        ctx.count(("o-module", i, stale_kind, len(masks), keys), bool(sup.any() and (~sup).any()),
                  bucket=f"oracle/module/stale={stale_kind}/n={len(masks)}" + ("/same-key" if same_key else ""))
        r = check_module_history(k, masks, stale_kind, stale, keys, extras)
        if r:
            yield Violation(r[0], r[1], _rep_history(k, masks, stale_kind, stale, keys, extras))
    # (2) mask given as mask function: the mask must be mask_func(kspace.shape[1:], seed), k-space masked with it
    from direct.common.subsample import FastMRIEquispacedMaskFunc, FastMRIRandomMaskFunc

    for i in range(ctx.budget(30, 400)):
        cls = rng.choice([FastMRIRandomMaskFunc, FastMRIEquispacedMaskFunc])
        c, h, w = rng.choice([1, 2, 4]), rng.choice([4, 6, 9]), rng.choice([6, 8, 11])
        kshape = [c, h, w, 2]
        seed = rng.choice([0, 1, 5, rng.randrange(2 ** 31)])
        k = gen_any_kspace(rng, kshape)
        ctx.count(("o-maskfunc", cls.__name__, tuple(kshape), seed), True, bucket="oracle/maskfunc")
        mf = cls(accelerations=[2], center_fractions=[0.25])
        rep = {"op": "apply_mask_func", "cls": cls.__name__, "kspace": _rep_tensor(k), "seed": seed}
        try:
            out, mask = T.apply_mask(k.clone(), mf, seed=seed)
        except Exception as e:  # noqa: BLE001
            yield Violation("apply_mask-mask-func-raises", f"apply_mask with a mask function raises {err_name(e)}: {e}", rep)
            continue
        ref = cls(accelerations=[2], center_fractions=[0.25])(shape=tuple(kshape[1:]), seed=seed)
        if mask.shape != ref.shape or not torch.equal(mask, ref):
            yield Violation("apply_mask-mask-func-args", "returned mask != mask_func(shape=kspace.shape[1:], seed)", rep)
            continue
        r = check_apply_mask(k, mask)
        if r:
            yield Violation(r[0], r[1], rep)
    # (3) apply_padding on binary padding
    for i in range(ctx.budget(40, 500)):
        kkind, dshape = gen_kshape(rng, 100)
        pshape = [dshape[0], 1] + dshape[2:-1] + [1]
        dn, pat, p = gen_mask(rng, pshape, pattern=rng.choice(["random", "zeros", "ones", "sparse"]))
        d = gen_any_kspace(rng, dshape)
        ctx.count(("o-pad", tuple(dshape), dn, pat, i), True, bucket="oracle/pad")
        try:
            ob = _bits(T.apply_padding(d.clone(), p))
        except Exception as e:  # noqa: BLE001
            yield Violation("apply_padding-raises", f"apply_padding raises {err_name(e)}: {e}",
                            {"op": "apply_padding", "data": _rep_tensor(d), "padding": _rep_tensor(p)})
            continue
        padded = np.broadcast_to(p.numpy() != 0, dshape)
        db = _bits(d)
        if ob.shape != db.shape or (ob[padded] != 0).any() or (ob[~padded] != db[~padded]).any():
            yield Violation("apply_padding-binary", "apply_padding is not (+0 where padding is set, identity elsewhere)",
                            {"op": "apply_padding", "data": _rep_tensor(d), "padding": _rep_tensor(p)})
    # (4) engine operators with the real FFTs: support of the forward output, non-interference of the rest
    eng = toy_engine()
    shared = {"cg": ConjGrad(T.fft2, T.ifft2), "ll": MRILogLikelihood(T.fft2, T.ifft2)}
    for i in range(ctx.budget(60, 800) * (3 if deep else 1)):
        b, c, h, w = rng.choice([1, 2]), rng.choice([1, 2, 3]), rng.choice([2, 3, 4, 5]), rng.choice([2, 3, 4, 6])
        kshape = [b, c, h, w, 2]
        mshape = [b if rng.random() < 0.5 else 1, 1, h, w, 1]
        dn, pat, m = gen_mask(rng, mshape, pattern=rng.choice(["random", "random", "sparse", "zeros", "ones"]))
        sup = support(m, kshape).numpy()
        g = torch.Generator().manual_seed(rng.randrange(2 ** 31))
        scale = 10.0 ** rng.choice([-10, 0, 0, 6, 15])
        x = torch.randn(b, h, w, 2, generator=g) * scale
        S = torch.randn(kshape, generator=g)
        y = torch.randn(kshape, generator=g) * scale
        y2 = y.clone()
        junk = gen_any_kspace(rng, kshape)
        junk[torch.rand(kshape, generator=g) < 0.5] = rng.choice([float("inf"), float("-inf"), F32MAX, -0.0])
        y2[_t(~sup)] = junk[_t(~sup)]
        nontrivial = bool(sup.any() and (~sup).any())
        rep = {"x": _rep_tensor(x), "S": _rep_tensor(S), "y": _rep_tensor(y), "y2": _rep_tensor(y2), "mask": _rep_tensor(m)}
        def engine_checks(x=x, S=S, y=y, y2=y2, m=m, sup=sup, junk=junk, rep=rep, nontrivial=nontrivial, i=i,
                          kshape=kshape, dn=dn, pat=pat, shared=shared):
            eng.forward_operator, eng.backward_operator = T.fft2, T.ifft2
            ctx.count(("o-fwd", i, tuple(kshape), dn, pat), nontrivial, bucket="oracle/fwdOp")
            fo = _bits(eng._forward_operator(x, S, m))
            if (fo[~sup] != 0).any():
                yield Violation("fwdOp-leaks-off-support", "_forward_operator output is not exactly +0 off the sampling mask",
                                dict(rep, op="fwdOp"))
            ref = _bits(T.fft2(T.expand_operator(x, S, dim=1), dim=(2, 3)))
            if (fo[sup] != ref[sup]).any():
                yield Violation("fwdOp-alters-sampled", "_forward_operator changes sampled entries of F(E(x))", dict(rep, op="fwdOp"))
            ctx.count(("o-bwd", i, tuple(kshape), dn, pat), nontrivial, bucket="oracle/bwdOp")
            b1, b2 = _bits(eng._backward_operator(y.clone(), S, m)), _bits(eng._backward_operator(y2.clone(), S, m))
            if (b1 != b2).any():
                yield Violation("bwdOp-depends-on-unsampled", "_backward_operator output changes with unsampled k-space entries",
                                dict(rep, op="bwdOp"))
            # call histories: instances reused across all cases (and twice here with another mask of the same shape)
            # must behave like fresh ones
            m2 = gen_mask(rng, list(m.shape), dtype_name=dn, pattern="random")[2]
            for mm in (m, m2):
                ctx.count(("o-history", i, tuple(kshape), dn), True, bucket="oracle/call-history")
                f1 = _bits(ConjGrad(T.fft2, T.ifft2)._A_star_op(y2.clone(), S, mm))
                s1 = _bits(shared["cg"]._A_star_op(y2.clone(), S, mm))
                if (f1 != s1).any():
                    yield Violation("astar-depends-on-call-history",
                                    "ConjGrad._A_star_op on a reused instance differs from a fresh instance (stale state between calls)",
                                    dict(rep, op="astar-history", mask2=_rep_tensor(m2)))
                f2 = _bits(MRILogLikelihood(T.fft2, T.ifft2)(x.permute(0, 3, 1, 2), y2.clone(), S, mm))
                s2 = _bits(shared["ll"](x.permute(0, 3, 1, 2), y2.clone(), S, mm))
                if (f2 != s2).any():
                    yield Violation("loglik-depends-on-call-history",
                                    "MRILogLikelihood on a reused instance differs from a fresh instance (stale state between calls)",
                                    dict(rep, op="loglik-history", mask2=_rep_tensor(m2)))
            ctx.count(("o-astar", i, tuple(kshape), dn, pat), nontrivial, bucket="oracle/astar")
            cg = ConjGrad(T.fft2, T.ifft2)
            a1, a2 = _bits(cg._A_star_op(y.clone(), S, m)), _bits(cg._A_star_op(y2.clone(), S, m))
            if (a1 != a2).any():
                yield Violation("astar-depends-on-unsampled", "ConjGrad._A_star_op output changes with unsampled k-space entries",
                                dict(rep, op="astar"))
            ctx.count(("o-loglik", i, tuple(kshape), dn, pat), nontrivial, bucket="oracle/loglik")
            xi = x.permute(0, 3, 1, 2)
            ll = MRILogLikelihood(T.fft2, T.ifft2)
            l1, l2 = _bits(ll(xi, y.clone(), S, m)), _bits(ll(xi, y2.clone(), S, m))
            if (l1 != l2).any():
                yield Violation("loglik-depends-on-unsampled-data", "MRILogLikelihood output changes with unsampled entries of y",
                                dict(rep, op="loglik-y"))
            jk = junk.clone()

            def fft_junk(data, dim=None, _sup=_t(~sup), _jk=jk):   # a forward operator that differs off the support only
                out = T.fft2(data, dim=dim).clone()
                out[_sup] = _jk[_sup]
                return out
            l3 = _bits(MRILogLikelihood(fft_junk, T.ifft2)(xi, y.clone(), S, m))
            if (l1 != l3).any():
                yield Violation("loglik-depends-on-unsampled-prediction",
                                "MRILogLikelihood output changes with unsampled entries of F(E(x))",
                                dict(rep, op="loglik-fx", junk=_rep_tensor(jk)))
        try:
            yield from engine_checks()
        except Exception as e:  # noqa: BLE001
            yield Violation("masked-operator-raises", f"a masked operator raises {err_name(e)}: {e}", dict(rep, op="raises"))
    # (4b) every data-consistency site under direct/nn on the real blocks
    yield from oracle_nn_blocks(ctx, deep)
    # (4c) phase 3: dtypes / layouts / size ladders / aliasing; call histories on persistent objects; mask functions, seeds and
    #      the CreateSamplingMask -> ApplyMask path; hard data consistency of the SSL / JSSL engines; multiplicative ACS sites
    from . import c03_ext as X
    yield from X.oracle_functional(ctx, deep)
    yield from X.oracle_histories(ctx, deep)
    yield from X.oracle_unchanged(ctx, deep)
    yield from X.oracle_mask_func(ctx, deep)
    yield from X.oracle_ssl(ctx, deep)
    yield from X.oracle_splitter(ctx, deep)
    yield from X.oracle_acs(ctx, deep)
    # (5) exhaustive small scope on bit patterns: every value class x every mask value, all four dtypes
    if True:
        vals = torch.tensor([0.0, -0.0, 1.0, -2.5, float("inf"), float("-inf"), F32MAX, -F32MAX, 1e-45, -1e-45, 7.0, -7.0])
        k = vals.reshape(1, 6, 1, 2)
        for dn in MASK_DTYPES:
            pool = {"bool": [0, 1], "uint8": [0, 1, 255], "int64": [0, 1, -1], "float32": [0.0, -0.0, 1.0, 0.5, float("inf")]}[dn]
            for combo in itertools.product(pool, repeat=2):
                m = torch.tensor([combo[j % 2] for j in range(6)],
                                 dtype=torch.float64 if dn == "float32" else torch.int64).to(MASK_DTYPES[dn]).reshape(1, 6, 1, 1)
                ctx.count(("o-exh", dn, combo), len(set(c != 0 for c in combo)) == 2, bucket="oracle/exhaustive")
                r = check_apply_mask(k, m)
                if r:
                    yield Violation(r[0], r[1], {"op": "apply_mask", "via": "apply_mask", "kspace": _rep_tensor(k),
                                                 "mask": _rep_tensor(m)})


# --------------------------------------------------------------------------------------------------
# every data-consistency site under direct/nn, on the REAL blocks with tiny parameters
class JunkForward:
    """forward operator = fft2; when armed, the *predicted k-space* is overwritten at the selected positions"""

    def __init__(self):
        self.sel = self.junk = None
        self.gate = None        # None: every call; else only while gate[0] is True (inside a masked operator method)
        self.calls = 0

    def __call__(self, data, dim=None, **kw):
        import direct.data.transforms as T
        out = T.fft2(data, dim=dim)
        self.calls += 1
        if self.sel is not None and out.shape == self.sel.shape and (self.gate is None or self.gate[0]):
            out = out.clone()
            out[self.sel] = self.junk[self.sel]
        return out


class RecBackward:
    """backward operator = ifft2, recording its inputs (while the gate is open)"""

    def __init__(self):
        self.seen = []
        self.gate = None

    def __call__(self, data, dim=None, **kw):
        import direct.data.transforms as T
        if self.gate is None or self.gate[0]:
            self.seen.append(data.detach().clone())
        return T.ifft2(data, dim=dim)


def _gate_method(net, name, gate):
    orig = getattr(net, name)

    def wrapped(*a, **kw):
        old = gate[0]
        gate[0] = True
        try:
            return orig(*a, **kw)
        finally:
            gate[0] = old
    setattr(net, name, wrapped)


def nn_block_specs():
    """name -> (builder(F, B) -> net, call(net, y, m, S) -> output tensor, mode, three_d)
    modes: 'hook-all'    junk in every forward-operator output at unsampled positions must not change the output
           'hook-gated'  same, for the forward calls inside the net's masked `_forward_operator`
           'block-data'  a cascade block: junk in the measured k-space at unsampled positions must not change the output
    all_b_masked: every k-space handed to the backward operator (while gated, if gated) is exactly +0 off the mask"""
    from direct.nn.cirim.cirim import CIRIM
    from direct.nn.conjgradnet.conjgradnet import ConjGradNet
    from direct.nn.iterdualnet.iterdualnet import IterDualNet
    from direct.nn.jointicnet.jointicnet import JointICNet
    from direct.nn.kikinet.kikinet import KIKINet
    from direct.nn.lpd.lpd import LPDNet
    from direct.nn.recurrentvarnet.recurrentvarnet import RecurrentVarNet
    from direct.nn.rim.rim import RIM
    from direct.nn.types import InitType, ModelName
    from direct.nn.varnet.varnet import EndToEndVarNet
    from direct.nn.varsplitnet.varsplitnet import MRIVarSplitNet
    from direct.nn.vsharp.vsharp import VSharpNet, VSharpNet3D
    from direct.nn.xpdnet.xpdnet import XPDNet
    import direct.data.transforms as T

    un = dict(image_unet_num_filters=2, image_unet_num_pool_layers=1)
    return {
        "LPDNet": (lambda F, B: LPDNet(F, B, num_iter=2, num_primal=2, num_dual=2, primal_model_architecture="UNET",
                                       dual_model_architecture="CONV", primal_unet_num_filters=2, primal_unet_num_pool_layers=1),
                   lambda n, y, m, S: n(y, S, m), "hook-all", True, False),
        "XPDNet": (lambda F, B: XPDNet(F, B, num_primal=2, num_dual=1, num_iter=2, use_primal_only=True,
                                       image_model_architecture="MWCNN", mwcnn_hidden_channels=2),
                   lambda n, y, m, S: n(y, m, S), "hook-all", True, False),
        # learned k-space model with the smallest buffer (num_dual = 1), and with two dual buffers
        "XPDNet-dual1-conv": (lambda F, B: XPDNet(F, B, num_primal=1, num_dual=1, num_iter=2, use_primal_only=False,
                                                  kspace_model_architecture="CONV", dual_conv_hidden_channels=2, dual_conv_n_convs=2,
                                                  image_model_architecture="MWCNN", mwcnn_hidden_channels=2),
                              lambda n, y, m, S: n(y, m, S), "hook-all", True, False),
        "XPDNet-dual1-didn": (lambda F, B: XPDNet(F, B, num_primal=2, num_dual=1, num_iter=1, use_primal_only=False,
                                                  kspace_model_architecture="DIDN", dual_didn_hidden_channels=2, dual_didn_num_dubs=1,
                                                  dual_didn_num_convs_recon=1, image_model_architecture="MWCNN", mwcnn_hidden_channels=2),
                              lambda n, y, m, S: n(y, m, S), "hook-all", True, False),
        "XPDNet-dual2-conv": (lambda F, B: XPDNet(F, B, num_primal=2, num_dual=2, num_iter=2, use_primal_only=False,
                                                  kspace_model_architecture="CONV", dual_conv_hidden_channels=2, dual_conv_n_convs=2,
                                                  image_model_architecture="MWCNN", mwcnn_hidden_channels=2),
                              lambda n, y, m, S: n(y, m, S), "hook-all", True, False),
        # the smallest value (1) of every count / buffer-size option
        "LPDNet-min": (lambda F, B: LPDNet(F, B, num_iter=1, num_primal=2, num_dual=1,   # (num_primal = 1 is not supported: slices 2:4) primal_model_architecture="UNET",
                                           dual_model_architecture="CONV", primal_unet_num_filters=2, primal_unet_num_pool_layers=1),
                       lambda n, y, m, S: n(y, S, m), "hook-all", True, False),
        "KIKINet-min": (lambda F, B: KIKINet(F, B, image_model_architecture="UNET", kspace_model_architecture="CONV", num_iter=2,   # (1: no forward call)
                                             kspace_conv_hidden_channels=2, kspace_conv_n_convs=2, **un),
                        lambda n, y, m, S: n(y, m, S), "hook-all", True, False),
        "VSharpNet-min": (lambda F, B: VSharpNet(F, B, num_steps=1, num_steps_dc_gd=1, no_parameter_sharing=True,
                                                 initializer_channels=(2, 2, 2), initializer_dilations=(1, 1, 1),
                                                 auxiliary_steps=-1, **un),
                          lambda n, y, m, S: torch.stack(n(y, S, m)), "hook-all", True, False),
        "JointICNet-min": (lambda F, B: JointICNet(F, B, 1, False, kspace_unet_num_filters=2, kspace_unet_num_pool_layers=1,
                                                   sens_unet_num_filters=2, sens_unet_num_pool_layers=1, **un),
                           lambda n, y, m, S: n(y, m, S), "hook-all", True, False),
        "IterDualNet-min": (lambda F, B: IterDualNet(F, B, num_iter=1, kspace_unet_num_filters=2, kspace_unet_num_pool_layers=1, **un),
                            lambda n, y, m, S: n(y, m, S), "hook-gated", True, False),
        "RIM-min": (lambda F, B: RIM(F, B, hidden_channels=4, length=1, depth=1),
                    lambda n, y, m, S: n(T.reduce_operator(T.ifft2(y, dim=(2, 3)), S, 1), y, m, S)[0][-1], "hook-all", True, False),
        "ConjGradNet-min": (lambda F, B: ConjGradNet(F, B, num_steps=1, cg_iters=1, resnet_hidden_channels=2, resnet_num_blocks=1),
                            lambda n, y, m, S: n(y, S, m), "hook-all", True, False),
        "MRIVarSplitNet-min": (lambda F, B: MRIVarSplitNet(F, B, 1, 1, InitType.SENSE, True, ModelName.UNET, True, None, **un),
                               lambda n, y, m, S: n(y, S, m), "hook-all", True, False),
        "JointICNet": (lambda F, B: JointICNet(F, B, 2, False, kspace_unet_num_filters=2, kspace_unet_num_pool_layers=1,
                                               sens_unet_num_filters=2, sens_unet_num_pool_layers=1, **un),
                       lambda n, y, m, S: n(y, m, S), "hook-all", True, False),
        "KIKINet": (lambda F, B: KIKINet(F, B, image_model_architecture="UNET", kspace_model_architecture="CONV", num_iter=3,
                                         kspace_conv_hidden_channels=2, kspace_conv_n_convs=2, **un),
                    lambda n, y, m, S: n(y, m, S), "hook-all", True, False),
        "VSharpNet": (lambda F, B: VSharpNet(F, B, num_steps=2, num_steps_dc_gd=2, no_parameter_sharing=False,
                                             initializer_channels=(2, 2, 2), initializer_dilations=(1, 1, 1),
                                             auxiliary_steps=-1, **un),
                      lambda n, y, m, S: torch.stack(n(y, S, m)), "hook-all", True, False),
        "VSharpNet3D": (lambda F, B: VSharpNet3D(F, B, num_steps=2, num_steps_dc_gd=2, no_parameter_sharing=False,
                                                 initializer_channels=(2, 2, 2), initializer_dilations=(1, 1, 1),
                                                 auxiliary_steps=-1, unet_num_filters=2, unet_num_pool_layers=1),
                        lambda n, y, m, S: torch.stack(n(y, S, m)), "hook-all", True, True),
        "MRIVarSplitNet": (lambda F, B: MRIVarSplitNet(F, B, 2, 2, InitType.SENSE, True, ModelName.UNET, True, None, **un),
                           lambda n, y, m, S: n(y, S, m), "hook-all", True, False),
        "IterDualNet": (lambda F, B: IterDualNet(F, B, num_iter=2, kspace_unet_num_filters=2, kspace_unet_num_pool_layers=1, **un),
                        lambda n, y, m, S: n(y, m, S), "hook-gated", True, False),
        "RIM": (lambda F, B: RIM(F, B, hidden_channels=4, length=2, depth=1),
                lambda n, y, m, S: n(T.reduce_operator(T.ifft2(y, dim=(2, 3)), S, 1), y, m, S)[0][-1], "hook-all", True, False),
        "ConjGradNet": (lambda F, B: ConjGradNet(F, B, num_steps=2, cg_iters=3, resnet_hidden_channels=2, resnet_num_blocks=1),
                        lambda n, y, m, S: n(y, S, m), "hook-all", True, False),
        "CIRIM": (lambda F, B: CIRIM(F, B, depth=1, time_steps=2, recurrent_hidden_channels=4, num_cascades=2),
                  lambda n, y, m, S: next(n(y, m, S))[-1][-1], "hook-all", False, False),
        "EndToEndVarNetBlock": (lambda F, B: EndToEndVarNet(F, B, 2, 2, 1, in_channels=2).layers_list[0],
                                None, "block-data", False, False),
        "RecurrentVarNetBlock": (lambda F, B: RecurrentVarNet(F, B, num_steps=2, recurrent_hidden_channels=4,
                                                              recurrent_num_layers=1).block_list[0],
                                 None, "block-data", False, False),
    }


def nn_block_inputs(seed: int, three_d: bool, shape_seed: int | None = None, coils: int | None = None):
    """inputs for one call: the shapes derive from `shape_seed` (default: seed), mask and data from `seed`;
    `coils` overrides the coil count (size ladder 8, 9, 16, 17, 20, 33 at an 8x8 matrix)"""
    gs = torch.Generator().manual_seed(seed if shape_seed is None else shape_seed)
    g = torch.Generator().manual_seed(seed)
    r = lambda *a: int(torch.randint(*a, (1,), generator=gs))  # noqa: E731
    n, c, h, w = r(1, 3), r(1, 4), 8 * r(1, 3), 8 * r(1, 3)
    if coils is not None:
        n, c, h, w = 1, coils, 8, 8
    sp = [r(2, 4), h, w] if three_d else [h, w]
    kshape = [n, c] + sp + [2]
    mshape = [n, 1] + ([1] if three_d else []) + [h, w, 1]
    m = torch.rand(mshape, generator=g) < [0.5, 0.2, 0.8][seed % 3]
    m[..., 0, :] = True
    if seed % 7 == 0:
        m[:] = False
    if seed % 11 == 0:
        m = m.to(torch.int32)
    elif seed % 13 == 0:                        # a float mask whose set entries are weights / counts, not exactly 1
        m = m.to(torch.float32) * torch.tensor([0.5, 2.0, -1.0, 3.0])[torch.randint(0, 4, m.shape, generator=g)]
    S = torch.randn(kshape, generator=g)
    full = torch.randn(kshape, generator=g) * (10.0 ** [0, 0, 3, -3][seed % 4])
    y = torch.where(m == 0, torch.tensor([0.0]), full)
    junk = torch.randn(kshape, generator=g) * 1e6
    pick = torch.rand(kshape, generator=g)
    junk[pick < 0.2] = float("inf")
    junk[(pick >= 0.2) & (pick < 0.3)] = -0.0
    junk[(pick >= 0.3) & (pick < 0.4)] = -F32MAX
    sel = (m == 0).expand(kshape).clone()
    return kshape, m, S, full, y, junk, sel


def _build_block(name: str, seed: int, train: bool = False):
    build, call, mode, all_b_masked, three_d = nn_block_specs()[name]
    F, B = JunkForward(), RecBackward()
    torch.manual_seed(seed)                     # identical parameters for every instance built with the same seed
    net = build(F, B).train(train)
    if mode == "hook-gated":
        gate = [False]
        F.gate = B.gate = gate
        _gate_method(net, "_forward_operator", gate)
        _gate_method(net, "_backward_operator", gate)
    return net, F, B


def _call_block(name, net, inputs, data_junk=False):
    call, mode = nn_block_specs()[name][1:3]
    kshape, m, S, full, y, junk, sel = inputs
    if mode == "block-data":
        yy = y.clone()
        if data_junk:
            yy[sel] = junk[sel]
        args = (None,) if name.startswith("Recurrent") else ()
        o = net(full + 0.5, yy, m, S, *args)
        return o[0] if isinstance(o, tuple) else o
    return call(net, y, m, S)


def nn_history(seed: int, three_d: bool, coils: int | None = None):
    """2-3 calls on ONE instance: same shape with another mask and other data, optionally another shape in between"""
    a = nn_block_inputs(seed, three_d, coils=coils)
    b = nn_block_inputs(seed + 1, three_d, shape_seed=seed, coils=coils)            # same shapes, different mask / data
    x = nn_block_inputs(seed + 2, three_d, shape_seed=seed + 5)        # (most often) different shapes
    c = nn_block_inputs(seed + 3, three_d, shape_seed=seed, coils=coils)
    return [[a, b], [a, x, b], [a, b, c]][seed % 3]


def _overwrite(t: torch.Tensor, new: torch.Tensor, how: int):
    """replace the contents of the tensor OBJECT `t`: normal in-place copy, through shared numpy memory, through `.data`
    (the last two leave the autograd version counter unchanged)"""
    if how == 0:
        t.copy_(new)
    elif how == 1:
        t.numpy()[...] = new.numpy()
    else:
        t.data.copy_(new)


def check_nn_block(name: str, seed: int, train: bool = False, coils: int | None = None):
    """-> list of (key, what).  Every call of a history on one persistent instance must (i) equal, bit for bit, the
    output of a fresh instance with identical parameters, and (ii) satisfy non-interference / exact zeros for ITS mask.
    The last step of the history re-uses the tensor OBJECTS of the previous call with new contents (new mask, new data
    written in place / through numpy / through `.data`)."""
    mode, all_b_masked, three_d = nn_block_specs()[name][2:5]
    out = []
    net, F, B = _build_block(name, seed, train)
    grad_mode = [torch.no_grad, torch.inference_mode, torch.enable_grad][seed % 3]
    with grad_mode():
        hist = list(nn_history(seed, three_d, coils))
        kshape, m, S, full, y, junk, sel = hist[-1]
        nxt = nn_block_inputs(seed + 7, three_d, shape_seed=seed, coils=coils)
        if nxt[0] == kshape and m.dtype == nxt[1].dtype:
            hist.append("reuse-objects")
        for step, inputs in enumerate(hist):
            if inputs == "reuse-objects":                   # same tensor objects as the previous call, new contents
                kshape, m, S, full, y, junk, sel = hist[step - 1]
                _, m2, _, full2, y2, junk2, sel2 = nxt
                for t, new in ((m, m2), (full, full2), (y, y2), (sel, sel2)):
                    _overwrite(t, new, (seed + step) % 3)
                inputs = (kshape, m, S, full, y, junk, sel)
            kshape, m, S, full, y, junk, sel = inputs
            F.sel = F.junk = None
            B.seen.clear()
            torch.manual_seed(seed + step)
            before = [_bits(t.float()) for t in (m, S, full, y)]
            o1 = _call_block(name, net, inputs)
            seen = list(B.seen)
            if any((_bits(t.float()) != b).any() for t, b in zip((m, S, full, y), before)):
                out.append((f"nn-{name}-mutates-input",
                            f"{name}: call #{step + 1} modified one of its input tensors (mask / sensitivity map / k-space) in place "
                            f"[{grad_mode.__name__}]"))
            fresh, _, _ = _build_block(name, seed, train)
            torch.manual_seed(seed + step)
            of = _call_block(name, fresh, tuple(t.clone() if isinstance(t, torch.Tensor) else t for t in inputs))
            if _bits(o1).shape != _bits(of).shape or (_bits(o1) != _bits(of)).any():
                out.append((f"nn-{name}-depends-on-call-history",
                            f"{name}: call #{step + 1} on a reused instance differs from a fresh instance with the same parameters "
                            f"(state such as a cached mask survives between calls)"))
            if step == 0:
                # "set" means non-zero: weights / counts as set entries (0.5, 2, -1, 3) must give the result of the 0-1 mask
                gw = torch.Generator().manual_seed(seed)
                mw = (m != 0).to(torch.float32) * torch.tensor([0.5, 2.0, -1.0, 3.0])[torch.randint(0, 4, m.shape, generator=gw)]
                torch.manual_seed(seed + step)
                ow = _call_block(name, net, (kshape, mw, S, full, y, junk, sel))
                if _bits(ow).shape != _bits(o1).shape or (_bits(ow) != _bits(o1)).any():
                    out.append((f"nn-{name}-mask-weights-matter",
                                f"{name}: a float mask whose set entries are 0.5 / 2 / -1 / 3 gives another result than the 0-1 mask with "
                                f"the same support (a site does not test `mask == 0`)"))
            if mode == "block-data":
                torch.manual_seed(seed + step)
                o2 = _call_block(name, net, inputs, data_junk=True)
                if (_bits(o1) != _bits(o2)).any():
                    out.append((f"nn-{name}-depends-on-unsampled-data",
                                f"{name}: call #{step + 1}: output changes with unsampled entries of the measured k-space"))
                continue
            F.sel, F.junk = sel, junk
            calls_before = F.calls
            torch.manual_seed(seed + step)
            o2 = _call_block(name, net, inputs)
            if F.calls == calls_before:
                out.append((f"nn-{name}-no-forward-call", f"{name}: the forward operator was never called"))
            if _bits(o1).shape != _bits(o2).shape or (_bits(o1) != _bits(o2)).any():
                out.append((f"nn-{name}-depends-on-unsampled-prediction",
                            f"{name}: call #{step + 1}: output changes with unsampled entries of the predicted k-space F(E(x))"))
            if all_b_masked:
                selnp = sel.numpy()
                for t in seen:
                    if list(t.shape) == kshape and (_bits(t)[selnp] != 0).any():
                        out.append((f"nn-{name}-masked-quantity-not-zero",
                                    f"{name}: call #{step + 1}: a k-space handed to the backward operator is not exactly +0 off "
                                    f"the current sampling mask"))
                        break
    seen_keys, uniq = set(), []
    for k, w in out:
        if k not in seen_keys:
            seen_keys.add(k)
            uniq.append((k, w))
    return uniq


def check_vsharp_engine(seed: int, three_d: bool):
    """VSharpNet(3D)Engine.forward_function: output k-space = masked_kspace + apply_mask(F(E(x)), ~mask), over a call history"""
    from omegaconf import OmegaConf
    from direct.config.defaults import DefaultConfig
    from direct.nn.vsharp.vsharp_engine import VSharpNet3DEngine, VSharpNetEngine

    name = "VSharpNet3D" if three_d else "VSharpNet"
    build = nn_block_specs()[name][0]

    def make():
        torch.manual_seed(seed)
        fe = JunkForward()
        model = build(JunkForward(), RecBackward()).eval()
        e = (VSharpNet3DEngine if three_d else VSharpNetEngine)(OmegaConf.structured(DefaultConfig), model, "cpu", fe, RecBackward())
        e.ndim = 3 if three_d else 2
        return e, fe
    eng, Fe = make()
    out = []
    with torch.no_grad():
        for step, (kshape, m, S, full, y, junk, sel) in enumerate(nn_history(seed, three_d)):
            m = m.bool()
            pad = None
            if (seed + step) % 2 == 0:                      # the optional `padding` entry of the batch
                pad = torch.zeros_like(m, dtype=torch.float32)
                pad[..., :2, :] = 1
            data = lambda: dict({"masked_kspace": y.clone(), "sampling_mask": m, "sensitivity_map": S.clone()},  # noqa: E731
                                **({} if pad is None else {"padding": pad.clone()}))
            Fe.sel = Fe.junk = None
            _, k1 = eng.forward_function(data())
            fresh, _ = make()
            _, kf = fresh.forward_function(data())
            if (_bits(k1) != _bits(kf)).any():
                out.append((f"nn-{name}Engine-depends-on-call-history",
                            f"{name}Engine.forward_function: call #{step + 1} on a reused engine differs from a fresh one"))
            Fe.sel, Fe.junk = ~sel, junk    # the engine keeps the prediction on the complement: junk on the SAMPLED positions
            _, k2 = eng.forward_function(data())
            if (_bits(k1) != _bits(k2)).any():
                out.append((f"nn-{name}Engine-prediction-leaks-into-sampled",
                            f"{name}Engine.forward_function: output k-space changes with the predicted k-space at sampled positions"))
            if not torch.equal(k1[~sel], y[~sel]):
                out.append((f"nn-{name}Engine-alters-sampled", f"{name}Engine.forward_function: sampled k-space values are altered"))
            if pad is not None:
                psel = (pad == 1).expand(kshape) & sel          # unsampled positions inside the zero-padding
                if (_bits(k1)[psel.numpy()] != 0).any():
                    out.append((f"nn-{name}Engine-padding-leaks",
                                f"{name}Engine.forward_function: the predicted k-space inside the zero-padding reaches the output"))
    return list(dict(out).items())


NN_BLOCKS = ["LPDNet", "XPDNet", "JointICNet", "KIKINet", "VSharpNet", "VSharpNet3D", "MRIVarSplitNet", "IterDualNet", "RIM",
             "ConjGradNet", "CIRIM", "EndToEndVarNetBlock", "RecurrentVarNetBlock",
             "XPDNet-dual1-conv", "XPDNet-dual1-didn", "XPDNet-dual2-conv", "LPDNet-min", "KIKINet-min", "VSharpNet-min", "JointICNet-min",
             "IterDualNet-min", "RIM-min", "ConjGradNet-min", "MRIVarSplitNet-min"]
NN_VARIANTS = NN_BLOCKS[13:]        # option variants: fewer cases each


def oracle_nn_blocks(ctx: Ctx, deep: bool):
    import warnings

    rng = ctx.rng
    for name in NN_BLOCKS:
        for j in range((ctx.budget(3, 16) if name in NN_VARIANTS else ctx.budget(6, 40)) * (2 if deep else 1)):
            seed = rng.randrange(1, 2 ** 20)
            train = j % 2 == 1                                  # module paths in evaluation AND training mode
            coils = None if j % 3 != 2 else rng.choice([8, 9, 16, 17, 20, 33])     # coil-count ladder at an 8x8 matrix
            ctx.count(("o-nn", name, seed, train, coils), seed % 7 != 0,
                      bucket=f"oracle/nn/{name}/{'train' if train else 'eval'}" + (f"/coils={coils}" if coils else ""))
            try:
                with warnings.catch_warnings():
                    warnings.simplefilter("ignore")
                    res = check_nn_block(name, seed, train, coils)
            except Exception as e:  # noqa: BLE001
                res = [(f"nn-{name}-raises", f"{name} raises {err_name(e)}: {str(e)[:200]}")]
            for key, what in res:
                yield Violation(key, what + f" [mode={'train' if train else 'eval'}, coils={coils or 'small'}]",
                                {"op": "nn_block", "block": name, "seed": seed, "train": train, "coils": coils})
    for three_d in (False, True):
        for j in range(ctx.budget(2, 12)):
            seed = rng.randrange(1, 2 ** 20)
            ctx.count(("o-nn-engine", three_d, seed), seed % 7 != 0, bucket="oracle/nn/VSharpNet" + ("3D" if three_d else "") + "Engine")
            try:
                res = check_vsharp_engine(seed, three_d)
            except Exception as e:  # noqa: BLE001
                res = [("nn-VSharpEngine-raises", f"VSharpNet engine raises {err_name(e)}: {str(e)[:200]}")]
            for key, what in res:
                yield Violation(key, what, {"op": "nn_engine", "three_d": three_d, "seed": seed})


def replay(rep: dict) -> bool:
    import direct.data.transforms as T
    from direct.nn.conjgradnet.conjgrad import ConjGrad
    from direct.nn.rim.rim import MRILogLikelihood

    op = rep.get("op")
    if isinstance(op, str) and op.startswith("x_"):
        from . import c03_ext as X
        return X.replay(rep)
    try:
        if op == "nn_block":
            return bool(check_nn_block(rep["block"], rep["seed"], rep.get("train", False), rep.get("coils")))
        if op == "nn_engine":
            return bool(check_vsharp_engine(rep["seed"], rep["three_d"]))
        if op == "apply_mask":
            return check_apply_mask(_from_rep(rep["kspace"]), _from_rep(rep["mask"]), rep.get("via", "apply_mask")) is not None
        if op == "module_history":
            st = rep["stale"]
            stale = _from_rep(st) if isinstance(st, dict) else (_MISSING if st == "<missing>" else None)
            extras = {"filename": "vol_0", "target": torch.arange(6.0).reshape(2, 3)} if rep.get("extras") else {}
            return check_module_history(_from_rep(rep["kspace"]), [_from_rep(m) for m in rep["masks"]], rep["stale_kind"],
                                        stale, tuple(rep["keys"]), extras) is not None
        if op == "apply_mask_func":
            import direct.common.subsample as sub
            cls = getattr(sub, rep["cls"])
            k = _from_rep(rep["kspace"])
            out, mask = T.apply_mask(k.clone(), cls(accelerations=[2], center_fractions=[0.25]), seed=rep["seed"])
            ref = cls(accelerations=[2], center_fractions=[0.25])(shape=tuple(k.shape[1:]), seed=rep["seed"])
            return mask.shape != ref.shape or not torch.equal(mask, ref) or check_apply_mask(k, mask) is not None
        if op == "apply_padding":
            d, p = _from_rep(rep["data"]), _from_rep(rep["padding"])
            ob, db = _bits(T.apply_padding(d.clone(), p)), _bits(d)
            padded = np.broadcast_to(p.numpy() != 0, d.shape)
            return bool(ob.shape != db.shape or (ob[padded] != 0).any() or (ob[~padded] != db[~padded]).any())
        x, S, y, y2, m = (_from_rep(rep[k]) for k in ("x", "S", "y", "y2", "mask"))
        sup = support(m, y.shape).numpy()
        eng = toy_engine()
        eng.forward_operator, eng.backward_operator = T.fft2, T.ifft2
        if op == "raises":
            return any(replay(dict(rep, op=o)) for o in ("fwdOp", "bwdOp", "astar", "loglik-y"))
        if op == "fwdOp":
            fo = _bits(eng._forward_operator(x, S, m))
            ref = _bits(T.fft2(T.expand_operator(x, S, dim=1), dim=(2, 3)))
            return bool((fo[~sup] != 0).any() or (fo[sup] != ref[sup]).any())
        if op == "bwdOp":
            return bool((_bits(eng._backward_operator(y.clone(), S, m)) != _bits(eng._backward_operator(y2.clone(), S, m))).any())
        if op in ("astar-history", "loglik-history"):
            m2 = _from_rep(rep["mask2"])
            if op == "astar-history":
                inst, run = ConjGrad(T.fft2, T.ifft2), lambda o, mm: o._A_star_op(y2.clone(), S, mm)
                new_inst = lambda: ConjGrad(T.fft2, T.ifft2)  # noqa: E731
            else:
                inst, run = MRILogLikelihood(T.fft2, T.ifft2), lambda o, mm: o(x.permute(0, 3, 1, 2), y2.clone(), S, mm)
                new_inst = lambda: MRILogLikelihood(T.fft2, T.ifft2)  # noqa: E731
            bad = False
            for mm in (m, m2, m):
                bad = bad or bool((_bits(run(inst, mm)) != _bits(run(new_inst(), mm))).any())
            return bad
        if op == "astar":
            cg = ConjGrad(T.fft2, T.ifft2)
            return bool((_bits(cg._A_star_op(y.clone(), S, m)) != _bits(cg._A_star_op(y2.clone(), S, m))).any())
        xi = x.permute(0, 3, 1, 2)
        ll = MRILogLikelihood(T.fft2, T.ifft2)
        if op == "loglik-y":
            return bool((_bits(ll(xi, y.clone(), S, m)) != _bits(ll(xi, y2.clone(), S, m))).any())
        if op == "loglik-fx":
            jk = _from_rep(rep["junk"])

            def fft_junk(data, dim=None):
                out = T.fft2(data, dim=dim).clone()
                out[_t(~sup)] = jk[_t(~sup)]
                return out
            return bool((_bits(ll(xi, y.clone(), S, m)) != _bits(MRILogLikelihood(fft_junk, T.ifft2)(xi, y.clone(), S, m))).any())
    except Exception:  # noqa: BLE001
        return True
    return True
