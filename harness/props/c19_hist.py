"""C19 phase 3 — call histories on PERSISTENT instances of the two anchored blocks (real fft2 / ifft2).

One `MRILogLikelihood` / `ConjGrad` instance is called several times.  A history is a list of steps; every step says
what happens to the argument *objects* before the call:

  y:    "same"     the very same k-space tensor object, untouched
        "inplace"  the same object, content overwritten in place (`copy_`)
        "equal"    a different object with equal content (`clone()`)
        "realloc"  the old object is dropped and a new tensor of the same shape is allocated (often the same storage / id)
        "new"      a different object, different content
        "view"     a different tensor object viewing the same storage
  mask: "same" | "new" | "inplace" | "empty" | "full" | "invert" (new object) | "invert-inplace"
  sens: "same" | "new" | "inplace"
  x:    "same" | "new"            (image / z)
  scaling (loglik) / lam (cg): a value, or "same"
  slot: which of two alternating problems the step works on (each slot owns its tensor objects)

Every call is compared with a reference computed independently from the CURRENT content of the arguments: the autograd
gradient of 1/2 ||M F E x - y||^2 (times scaling), resp. the dense solve of (A^H A + lam) x = A^H y + lam z and the output
of a new instance on cloned arguments (bit-identical).  The arguments must come back unmodified.
"""
from __future__ import annotations

import math

import boot  # noqa: F401
import torch

ZERO = torch.tensor([0.0])

# fixed scripts (the random ones are drawn by the oracle); each entry = one call
LOGLIK_SCRIPTS = [
    # a fully sampled k-space retrospectively under-sampled with several masks
    [{"mask": "full"}, {"y": "same", "mask": "new"}, {"y": "same", "mask": "empty"}, {"y": "same", "mask": "new"}],
    # same k-space, another scaling
    [{"scaling": 0.5}, {"y": "same", "scaling": 3.0}, {"y": "same", "scaling": None}, {"y": "same", "mask": "same", "x": "new"}],
    # k-space buffer refilled in place / re-allocated / equal content in another object
    [{}, {"y": "inplace"}, {"y": "realloc", "mask": "new"}, {"y": "equal", "mask": "invert"}, {"y": "view", "mask": "new"}],
    # mask and sensitivity-map buffers refilled in place
    [{}, {"y": "same", "mask": "inplace"}, {"y": "same", "sens": "inplace"}, {"y": "same", "mask": "invert-inplace", "x": "same"}],
    # two alternating problems of equal shape
    [{"slot": 0}, {"slot": 1}, {"slot": 0, "y": "same", "mask": "new"}, {"slot": 1, "y": "same", "sens": "new"},
     {"slot": 0, "y": "same", "x": "same"}],
]
CG_SCRIPTS = [
    [{"mask": "full"}, {"y": "same", "mask": "new"}, {"y": "same", "mask": "empty"}, {"y": "same", "mask": "new"}],
    [{"lam": 0.05}, {"y": "same", "lam": 5.0}, {"y": "same", "x": "new"}, {"y": "same", "x": "same", "lam": 0.7}],
    [{}, {"y": "inplace"}, {"y": "realloc", "mask": "new"}, {"y": "equal", "mask": "invert"}, {"y": "view", "sens": "inplace"}],
    [{"slot": 0}, {"slot": 1}, {"slot": 0, "y": "same", "mask": "inplace"}, {"slot": 1, "y": "same", "sens": "new"},
     {"slot": 0, "y": "same", "x": "same"}],
]


def random_script(rng, kind: str, length: int = 5):
    out = [{}]
    for _ in range(length - 1):
        st = {"slot": rng.choice([0, 0, 0, 1]), "y": rng.choice(["same", "same", "same", "inplace", "equal", "realloc", "new", "view"]),
              "mask": rng.choice(["same", "new", "new", "inplace", "empty", "full", "invert", "invert-inplace"]),
              "sens": rng.choice(["same", "same", "new", "inplace"]), "x": rng.choice(["same", "new"])}
        if kind == "loglik":
            st["scaling"] = rng.choice(["same", None, 0.5, 2.0])
        else:
            st["lam"] = rng.choice(["same", 0.05, 0.3, 2.0, 10.0])
        out.append(st)
    return out


class _Slot:
    def __init__(self, g, shape, dtype, coilmask=False):
        n_, c_, h_, w_ = shape
        self.shape, self.dtype, self.g = shape, dtype, g
        self.S = torch.randn(n_, c_, h_, w_, 2, generator=g, dtype=dtype)
        self.y = torch.randn(n_, c_, h_, w_, 2, generator=g, dtype=dtype)
        self.x = torch.randn(n_, h_, w_, 2, generator=g, dtype=dtype)
        self.mshape = (n_, c_ if coilmask else 1, h_, w_, 1)
        self.m = torch.rand(self.mshape, generator=g) < 0.5
        self.par = None

    def apply(self, st: dict, default_par):
        g, dt = self.g, self.dtype
        yk = st.get("y", "same")
        if yk == "inplace":
            self.y.copy_(torch.randn(self.y.shape, generator=g, dtype=dt))
        elif yk == "equal":
            self.y = self.y.clone()
        elif yk == "realloc":
            shp = self.y.shape
            self.y = None                      # free first: the allocator may hand out the same block / the same id()
            self.y = torch.randn(shp, generator=g, dtype=dt)
        elif yk == "new":
            self.y = torch.randn(self.y.shape, generator=g, dtype=dt)
        elif yk == "view":
            self.y = self.y.view(self.y.shape)
        mk = st.get("mask", "same")
        if mk == "new":
            self.m = torch.rand(self.mshape, generator=g) < 0.5
        elif mk == "inplace":
            self.m.copy_(torch.rand(self.mshape, generator=g) < 0.5)
        elif mk == "empty":
            self.m = torch.zeros(self.mshape, dtype=torch.bool)
        elif mk == "full":
            self.m = torch.ones(self.mshape, dtype=torch.bool)
        elif mk == "invert":
            self.m = ~self.m
        elif mk == "invert-inplace":
            self.m.copy_(~self.m)
        sk = st.get("sens", "same")
        if sk == "new":
            self.S = torch.randn(self.S.shape, generator=g, dtype=dt)
        elif sk == "inplace":
            self.S.copy_(torch.randn(self.S.shape, generator=g, dtype=dt))
        if st.get("x", "same") == "new":
            self.x = torch.randn(self.x.shape, generator=g, dtype=dt)
        key = "scaling" if "scaling" in st else "lam"
        if self.par is None:
            self.par = default_par
        if key in st and st[key] != "same":
            self.par = st[key]


def _ops(centered, normalized, dtype=torch.float32):
    """the repo's fft2 / ifft2 (float32 — they reject every other dtype), or for float64 the harness's own centred / plain,
    orthonormal / un-normalised FFT pair with the same signature (the blocks take the operators as arguments)"""
    import functools

    import direct.data.transforms as T

    if dtype == torch.float32:
        return (functools.partial(T.fft2, centered=centered, normalized=normalized),
                functools.partial(T.ifft2, centered=centered, normalized=normalized))

    def make(inverse):
        def op(data, dim=(2, 3), **kw):
            dim = tuple(dim)
            c = torch.view_as_complex(data.contiguous())
            if centered:
                c = torch.fft.ifftshift(c, dim=dim)
            f = torch.fft.ifftn if inverse else torch.fft.fftn
            c = f(c, dim=dim, norm="ortho" if normalized else ("backward"))
            if centered:
                c = torch.fft.fftshift(c, dim=dim)
            return torch.view_as_real(c)
        return op

    return make(False), make(True)


def _tols(dtype):
    return (1e-4, 2e-3) if dtype == torch.float32 else (1e-10, 1e-7)


def _unchanged(before, after):
    return all(torch.equal(a, b) for a, b in zip(before, after))


def loglik_history(prm: dict):
    """-> (fails, info); prm: shape, seed, centered, normalized, dtype, script[, coilmask]"""
    import direct.data.transforms as T
    from direct.nn.rim.rim import MRILogLikelihood

    dtype = torch.float64 if prm.get("dtype") == "float64" else torch.float32
    tol, _ = _tols(dtype)
    g = torch.Generator().manual_seed(prm["seed"])
    fop, bop = _ops(prm["centered"], prm["normalized"], dtype)
    n_, c_, h_, w_ = prm["shape"]
    slots = [_Slot(g, prm["shape"], dtype, prm.get("coilmask", False)) for _ in range(2)]
    mode = prm.get("mode", "train")
    blk = MRILogLikelihood(fop, bop).train(mode == "train")
    base = 1.0 if prm["normalized"] else 1.0 / (h_ * w_)
    zero = torch.zeros(1, dtype=dtype)
    fails, worst = [], 0.0
    for k, st in enumerate(prm["script"]):
        sl = slots[st.get("slot", 0)]
        sl.apply(st, None)
        S, y, m, x, s = sl.S, sl.y, sl.m, sl.x, sl.par
        xi = x.clone().requires_grad_(True)
        Ax = torch.where(m == 0, zero, fop(T.expand_operator(xi, S, dim=1), dim=(2, 3)))
        grad, = torch.autograd.grad(0.5 * ((Ax - y) ** 2).sum(), xi)
        ref = grad.permute(0, 3, 1, 2) * base * (1.0 if s is None else float(s))
        st_t = None if s is None else torch.tensor([float(s)], dtype=dtype)
        args = (x.permute(0, 3, 1, 2), y, S, m)
        before = [a.clone() for a in args]
        with torch.no_grad():
            out = blk(*args, st_t)
            fresh = MRILogLikelihood(fop, bop).train(mode == "train")(*[a.clone() for a in args], None if st_t is None else st_t.clone())
        smax = float(S.abs().max()) * math.sqrt(c_)
        scale = float(ref.norm()) + base * abs(1.0 if s is None else float(s)) * smax * (float(y.norm()) + smax * float(x.norm())) * 1e-2 + 1e-12
        err = float((out - ref).norm()) / scale
        worst = max(worst, err)
        where = f"call {k} of the history ({st or 'first call'})"
        if not _unchanged(before, args):
            fails.append(("loglik-mutates-argument", f"MRILogLikelihood modified one of its arguments in place at {where}"))
            break
        if tuple(out.shape) != (n_, 2, h_, w_) or not err <= tol:
            same_as_fresh = tuple(out.shape) == tuple(fresh.shape) and torch.equal(out, fresh)
            if same_as_fresh:
                fails.append(("loglik-gradient", f"MRILogLikelihood differs from the autograd gradient at {where}: rel {err:.3g}"))
            else:
                fails.append(("loglik-history-dependent",
                              f"a persistent MRILogLikelihood instance differs from the autograd gradient of 1/2||M F E x - y||^2 at {where} "
                              f"(rel {err:.3g}) although a new instance on the same arguments agrees: the output depends on earlier calls"))
            break
        if not torch.equal(out, fresh):
            fails.append(("loglik-history-dependent", f"persistent and new MRILogLikelihood instance differ bit-wise at {where}"))
            break
    return fails, {"worst_rel_err": worst, "calls": len(prm["script"])}


def cg_history(prm: dict):
    """-> (fails, info); prm: shape, seed, centered, dtype, update, iters, script"""
    from direct.nn.conjgradnet.conjgrad import CGUpdateType, ConjGrad
    from props.c19 import _dense_A

    dtype = torch.float64 if prm.get("dtype") == "float64" else torch.float32
    _, tol = _tols(dtype)
    g = torch.Generator().manual_seed(prm["seed"])
    fop, bop = _ops(prm["centered"], True, dtype)
    n_, c_, h_, w_ = prm["shape"]
    npx = h_ * w_
    slots = [_Slot(g, prm["shape"], dtype) for _ in range(2)]
    upd = CGUpdateType(prm["update"])
    iters = prm.get("iters", 3 * npx + 10)
    mode = prm.get("mode", "train")
    blk = ConjGrad(fop, bop, num_iters=iters, tol=prm.get("tol", 1e-9), bk_update_type=upd).train(mode == "train")
    fails, worst = [], 0.0
    for k, st in enumerate(prm["script"]):
        sl = slots[st.get("slot", 0)]
        sl.apply(st, 0.5)
        S, y, m, z, lam = sl.S, sl.y, sl.m, sl.x, float(sl.par)
        lam_t = torch.tensor([lam], dtype=dtype)
        args = (y, S, m, z, lam_t)
        before = [a.clone() for a in args]
        with torch.no_grad():
            out = blk(*args)
            fresh = ConjGrad(fop, bop, num_iters=iters, tol=prm.get("tol", 1e-9), bk_update_type=upd).train(mode == "train")(
                *[a.clone() for a in args])
        where = f"call {k} of the history ({st or 'first call'})"
        if not _unchanged(before, args):
            fails.append(("cg-mutates-argument", f"ConjGrad modified one of its arguments in place at {where}"))
            break
        As = _dense_A(fop, S, m, (n_, c_, h_, w_))
        yc = torch.view_as_complex(y.contiguous()).reshape(n_, c_ * npx).to(torch.complex128)
        zc = torch.view_as_complex(z.contiguous()).reshape(n_, npx).to(torch.complex128)
        sol = torch.stack([torch.linalg.solve(As[b].conj().T @ As[b] + lam * torch.eye(npx, dtype=torch.complex128),
                                              As[b].conj().T @ yc[b] + lam * zc[b]) for b in range(n_)])
        oc = torch.view_as_complex(out.contiguous()).reshape(n_, npx).to(torch.complex128)
        rel = float((oc - sol).norm()) / (float(sol.norm()) + 1e-12)
        worst = max(worst, rel)
        if tuple(out.shape) != (n_, h_, w_, 2) or not rel <= tol:
            same_as_fresh = tuple(out.shape) == tuple(fresh.shape) and torch.equal(out, fresh)
            key = f"cg-solution-{prm['update']}" if same_as_fresh else "cg-history-dependent"
            fails.append((key, f"a persistent ConjGrad({prm['update']}) instance differs from the dense solve of (A^H A + λ) x = A^H y + λ z at "
                               f"{where}: rel {rel:.3g}" + ("" if same_as_fresh else " although a new instance on the same arguments agrees")))
            break
        if not torch.equal(out, fresh):
            fails.append(("cg-history-dependent", f"persistent and new ConjGrad instance differ bit-wise at {where}"))
            break
    return fails, {"worst_rel_to_dense": worst, "calls": len(prm["script"])}
