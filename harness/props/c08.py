"""C08 — the training transform pipeline is scale-equivariant and self-consistent."""
from __future__ import annotations

import functools
import itertools
import logging
import warnings
from fractions import Fraction

import boot  # noqa: F401
import numpy as np
import torch

from core import Ctx, Violation, err_name, ints

logging.disable(logging.CRITICAL)   # the repository logs warnings (and exceptions, on construction) through `logging`

PROP = "C08"
MANIFEST = {
    "text": "Lean 4 theorems about a degree type system for the transform pipeline: every primitive (safe divide, "
            "percentile/max of the modulus, relative zero-padding threshold, RSS, masking, SENSE combination, ...) is "
            "homogeneous of the degree its rule claims over any ordered field and any c > 0; for every valid combination "
            "of the 24 builder flags the composed stage list of build_mri_transforms type-checks with all normalised outputs "
            "of degree 0 and the scaling factor of degree 1, hence run(c*x) = run(x) on normalised keys and scaling_factor "
            "scales by c; masked_kspace = mask x (kspace / s), target = ComputeImage(kspace / s) (SSL variant too), shape tags "
            "for every flag combination, mask and random-crop seed = file name only, ModuleWrapper batching equivalence. "
            "Phase 3: the same for the second builder pair build_pre_mri_transforms ++ build_post_mri_transforms (target "
            "computed before Normalize and normalised by its default key list: prepost_degrees_ok / _equivariant / "
            "_consistent); for samples that already contain sampling_mask + acs_mask (no mask function) or a sensitivity_map "
            "(given_masks_equivariant, given_map_equivariant, from any initial sample: pipeline_equivariant_from); the "
            "IndexError branch of the percentile scaling is modelled (runE refines run; runE_equivariant: the error is raised "
            "for c*x exactly when for x and is the only error of a well-typed pipeline); the homogeneity of the externals is "
            "a theorem for the executed model (driver_externals_hom: identity operators and C10's centerCrop lifted along both "
            "spatial axes, via naturality of Tensor.alongAxis) and for every external that is a linear map with "
            "size-dependent coefficients (linear_externals_hom). Translated from the current source and bridged (rfl / "
            "decide): the stage lists of all four builders, the program of every transform class, NormalizeModule's default "
            "key list, the parameter lists of the four builders with the class of every parameter (a new parameter breaks a "
            "bridge), the configuration denoted by the default arguments, the ModuleWrapper alias table and toggle_dims, the "
            "form (alias vs raw module) in which every builder composes every class, and the table of writes to instance / "
            "class / module state outside __init__ of all 37 classes (must be empty). Exact differential correspondence of "
            "stages and whole pipelines (both builder families, samples with given masks / maps, identically zero samples "
            "incl. the IndexError) against the Lean model over rationals.",
    "note": "Trusted: Lean kernel (+propext, Classical.choice, Quot.sound), the AST translator (symbolic execution of the "
            "forward/__call__ bodies with register coalescing; the three random augmentations and the percentile loop are "
            "matched as wholes), the semantics of the primitives (tied by correspondence), sqrt(q^2 x) = q sqrt(x). Externals: "
            "homogeneity is proved for the driver's externals and for linear externals; for the real FFT / interpolation / SVD "
            "coil compression it remains the hypothesis ExtHom (torch.fft is linear: C01; checked bit-exactly under 2^k on the "
            "implementation). Partial: ESPIRiT maps (opaque) and random augmentations (SystemRandom, probability 0) are outside "
            "the quantifier; float rounding/overflow and NaN/Inf freedom are checked on the implementation only (bit-exact for "
            "2^k, 1e-4 for arbitrary scales); shape tags are rank-agnostic (real 2-D/3-D shapes are checked on the "
            "implementation). The model is pure: storage aliasing, in-place updates, state kept on transform objects and "
            "mutation of the raw input are invisible to the theorems; they are covered by the translated no-instance-state "
            "table and checked on the real modules (stage-by-stage storage / in-place checks, call histories on one transform "
            "object vs fresh ones on data of large dynamic range, raw array untouched, complex128 / Fortran / non-contiguous "
            "inputs, stale entries in the raw sample, batch of two through the post-transform). Observations outside the "
            "quantifier are recorded with repros in the evidence notes (percentile on an all-zero or exactly cancelling coil "
            "raises IndexError; with PadKspace and un-centred operators the coil test of the percentile is decided by rounding "
            "noise; sensitivity maps in zero-padded rows are normalised noise; rank-4 masks for 3-D samples with a tuple crop; "
            "scaling_key=body_coil_image; tuple crop + pad).",
    "technique": "Lean 4 proof (type-soundness induction, decide +kernel on the builders, naturality of alongAxis) + AST "
                 "translation bridge (rfl / decide on generated tables) + differential correspondence + property oracle on the "
                 "real pipeline (configurations, options, histories, input forms)",
}
TRUSTED = [
    "Lean 4.33 kernel; axioms ⊆ {propext, Classical.choice, Quot.sound}",
    "harness/translate/recipes/c08.py (Python AST -> stage tables of the four builders, threshold expression, seed expressions, "
    "signature / default / wrapper / call-form / instance-state tables)",
    "harness/translate/recipes/c08.py StageExec (class bodies -> List Instr): vocabulary of call patterns, layout-only "
    "calls treated as identity, register coalescing; `evalOp` (semantics of the primitives) validated by correspondence",
    "externals of the real pipeline: FFT operators, interpolation, SVD coil compression (homogeneity assumed: ExtHom; proved for "
    "the driver's externals and for linear externals), mask functions, splitters",
    "torch elementwise float32 arithmetic is exact on the dyadic probe set",
]
ASSUMPTIONS = [
    "random augmentations have probability 0 (they draw from SystemRandom); ESPIRiT maps excluded (opaque, slow)",
    "exact correspondence: identity forward/backward operators, one non-zero coil per pixel, values ±2^k on an axis, "
    "so that every square root, mean and division is exact in float32",
    "an identically zero scaling tensor with scale_percentile raises IndexError (torch.kthvalue on an empty tensor): modelled by "
    "runE and compared exactly in the correspondence; the oracle's random data is never identically zero after masking",
    "a tuple crop is not combined with pad/rescale (CreateSamplingMask would build the mask for the crop shape)",
    "with PadKspace the sensitivity map (and a SENSE target) in zero-padded image rows is normalised FFT rounding noise: "
    "excluded from the arbitrary-scale comparison there (bit-exact invariance under 2^k is still required)",
    "use_seed=False is exercised with a wrapper that substitutes a fixed seed for None (the mask function re-seeds from the OS)",
]
RULE = ("cases: static verdict vs. observed equivariance on random flag combinations; every stage module and whole "
        "pipelines (build_mri_transforms supervised/SSL, build_pre + collate + build_post, samples with given masks / maps, "
        "all-zero samples; 2-D/3-D, coils 1..4, sizes 4..12 odd/even, crop on/off) compared exactly with the Lean model; "
        "oracle: bit-exact invariance under 2^k, 1e-4 under arbitrary scales, masked = mask x normalised k-space, target = "
        "ComputeImage(normalised k-space), crop / pad / rescale shapes, finiteness with zero coils/borders, one mask per file "
        "name, rarely used options (pad, rescale, compress with more coils than requested, unseeded, stale entries), call "
        "histories on one transform object, default arguments, input forms, batch of two. non-trivial = at least 2 pixels "
        "per axis and a non-constant sample; distinct = distinct (config, shape, data seed)")
PENDING_FINDINGS: list[str] = []
# helper lemma modules of phase 3: hygiene-checked and axiom-audited too (the enumeration modules C08Enum / C08Given are
# compiled as dependencies of Props/C08.lean)
EXTRA_LEAN_MODULES = ["DirectVerif.Lemmas.C08PrePost", "DirectVerif.Lemmas.C08Err", "DirectVerif.Lemmas.C08Ext",
                      "DirectVerif.Lemmas.C08Recon"]

KEY_ORDER = ["kspace", "masked_kspace", "sampling_mask", "acs_mask", "padding", "sensitivity_map", "scaling_factor",
             "target", "body_coil_image", "input_kspace", "input_sampling_mask", "target_sampling_mask"]
NORMALISED = ["kspace", "masked_kspace", "target", "sensitivity_map", "sampling_mask", "acs_mask", "padding",
              "input_kspace", "input_sampling_mask", "target_sampling_mask"]
RECON = ["ifft", "rss", "complex", "complex_mod", "sense", "sense_mod"]
SMAP = ["espirit", "rss_estimate", "unit"]
SPLIT = ["uniform", "gaussian", "half"]
SK = ["masked_kspace", "kspace", "body_coil_image", "scaling_factor", None]
FLAG_NAMES = ["crop", "image_center_crop", "rescale", "pad", "rotation", "flip", "reverse", "padding_eps", "mask_func",
              "compress_coils", "pad_coils", "body_coil", "estimate_smaps", "smap_type", "smap_gaussian", "delete_acs",
              "delete_kspace", "recon", "scaling_key", "percentile", "use_seed", "ssl", "split", "keep_acs"]


def _ident(data, dim=None, **kw):
    return data


class _RecordingMask:
    """wraps the real mask function and records what it returns (sampling / ACS masks)"""

    def __init__(self, fn):
        self.fn = fn
        self.calls = []

    def __call__(self, *a, **kw):
        out = self.fn(*a, **kw)
        self.calls.append((bool(kw.get("return_acs", False)), kw.get("seed"), tuple(kw.get("shape", ())), out.clone()))
        return out


@functools.lru_cache(maxsize=None)
def _mask_func(acc=2, cf=0.34):      # (acceleration 4 / centre fraction 0.25 leaves no budget for random columns — ACS only, the
    # same mask for every seed; 2 / 0.34 has at least one ACS column for every width >= 2 and random columns beside it)
    """(one instance per parameter pair: every call the pipeline makes is seeded or goes through `_FixedWhenUnseeded`, and a
    seeded call restores the generator's state — C05)"""
    from direct.common.subsample import build_masking_function
    return build_masking_function("FastMRIRandom", accelerations=[acc], center_fractions=[cf])


class _ConstMask:
    """a mask function returning a constant mask (all zeros), in the layout of the repository's mask functions"""

    def __init__(self, value: bool):
        self.value = value

    def __call__(self, shape, seed=None, return_acs=False):
        shape = tuple(shape)
        out = [1] * (len(shape) - 3) + [1, shape[-3], shape[-2], 1] if len(shape) > 3 else [1, shape[-3], shape[-2], 1]
        return torch.full(out, bool(self.value), dtype=torch.bool)


class _FixedWhenUnseeded:
    """the wrapped mask function with `seed=None` replaced by a fixed seed; records that the pipeline did ask unseeded"""

    def __init__(self, fn, seed: int):
        self.fn, self.seed, self.unseeded_calls = fn, seed, 0

    def __call__(self, shape, seed=None, return_acs=False):
        if seed is None:
            self.unseeded_calls += 1
            seed = self.seed
        return self.fn(shape=shape, seed=seed, return_acs=return_acs)


@functools.lru_cache(maxsize=None)
def _mask_func_multi():
    """list-valued options: the mask function chooses among several (acceleration, centre fraction) pairs with its own RNG"""
    from direct.common.subsample import build_masking_function
    return build_masking_function("FastMRIRandom", accelerations=[2, 3, 2], center_fractions=[0.34, 0.25, 0.5])


def mask_func_of(kind: str):
    """random (acceleration 4) / full (the repository's mask function with acceleration 1: fully sampled) / zero"""
    if kind == "multi":
        return _mask_func_multi()
    if kind == "full":
        return _mask_func(1, 0.5)
    if kind == "zero":
        return _ConstMask(False)
    return _mask_func()


def default_flags() -> dict:
    return dict(crop=0, image_center_crop=1, rescale=0, pad=0, rotation=0, flip=0, reverse=0, padding_eps=1, mask_func=1,
                compress_coils=0, pad_coils=0, body_coil=0, estimate_smaps=1, smap_type=1, smap_gaussian=0, delete_acs=1,
                delete_kspace=1, recon=1, scaling_key=0, percentile=1, use_seed=1, ssl=0, split=1, keep_acs=0)


def flag_list(f: dict) -> list[int]:
    return [int(f[n]) for n in FLAG_NAMES]


def build_real(f: dict, mask_func, fwd, bwd, *, crop_shape=None, pad_shape=None, rescale_shape=None, eps=1e-4,
               percentile=0.99, pad_to=None, compress_to=None, gaussian=0.6, ratio=0.4):
    """the real composed transform for a flag assignment"""
    from direct.data.mri_transforms import TransformsType, build_mri_transforms

    crop = None if f["crop"] == 0 else (tuple(crop_shape) if f["crop"] == 1 else "reconstruction_size")
    return build_mri_transforms(
        forward_operator=fwd, backward_operator=bwd, mask_func=mask_func if f["mask_func"] else None,
        crop=crop, crop_type="uniform", image_center_crop=bool(f["image_center_crop"]),
        rescale=tuple(rescale_shape) if f["rescale"] else None, pad=tuple(pad_shape) if f["pad"] else None,
        random_rotation_probability=0.0, random_flip_probability=0.0, random_reverse_probability=0.0,
        padding_eps=eps if f["padding_eps"] else 0.0, estimate_body_coil_image=bool(f["body_coil"]),
        estimate_sensitivity_maps=bool(f["estimate_smaps"]), sensitivity_maps_type=SMAP[f["smap_type"]],
        sensitivity_maps_gaussian=gaussian if f["smap_gaussian"] else None,
        delete_acs_mask=bool(f["delete_acs"]), delete_kspace=bool(f["delete_kspace"]),
        image_recon_type=RECON[f["recon"]], compress_coils=compress_to if f["compress_coils"] else None,
        pad_coils=pad_to if f["pad_coils"] else None, scaling_key=SK[f["scaling_key"]],
        scale_percentile=percentile if f["percentile"] else None, use_seed=bool(f["use_seed"]),
        transforms_type=TransformsType.SSL_SSDU if f["ssl"] else TransformsType.SUPERVISED,
        mask_split_ratio=ratio, mask_split_keep_acs=bool(f["keep_acs"]), mask_split_type=SPLIT[f["split"]],
    )


def build_prepost_real(f: dict, mask_func, fwd, bwd, *, crop_shape=None, pad_shape=None, rescale_shape=None, eps=1e-4,
                       percentile=0.99, pad_to=None, gaussian=0.6):
    """the second builder pair: (`build_pre_mri_transforms`, `build_post_mri_transforms`) for a flag assignment"""
    from direct.data.mri_transforms import build_post_mri_transforms, build_pre_mri_transforms

    crop = None if f["crop"] == 0 else (tuple(crop_shape) if f["crop"] == 1 else "reconstruction_size")
    pre = build_pre_mri_transforms(
        forward_operator=fwd, backward_operator=bwd, mask_func=mask_func if f["mask_func"] else None,
        crop=crop, crop_type="uniform", rescale=tuple(rescale_shape) if f["rescale"] else None,
        pad=tuple(pad_shape) if f["pad"] else None, image_center_crop=bool(f["image_center_crop"]),
        random_rotation_probability=0.0, random_flip_probability=0.0, padding_eps=eps if f["padding_eps"] else 0.0,
        estimate_body_coil_image=bool(f["body_coil"]), use_seed=bool(f["use_seed"]),
        pad_coils=pad_to if f["pad_coils"] else None)
    post = build_post_mri_transforms(
        backward_operator=bwd, estimate_sensitivity_maps=bool(f["estimate_smaps"]),
        sensitivity_maps_type=SMAP[f["smap_type"]], sensitivity_maps_gaussian=gaussian if f["smap_gaussian"] else None,
        delete_acs_mask=bool(f["delete_acs"]), delete_kspace=bool(f["delete_kspace"]),
        image_recon_type=RECON[f["recon"]], scaling_key=SK[f["scaling_key"]],
        scale_percentile=percentile if f["percentile"] else None)
    return pre, post


def collate(samples: list[dict]) -> dict:
    """what the data loader does between the pre- and the post-transform: stack tensors, list the rest"""
    out = {}
    for k in samples[0]:
        vs = [s_[k] for s_ in samples]
        out[k] = torch.stack(vs, 0) if isinstance(vs[0], torch.Tensor) else list(vs)
    return out


def uncollate(batch: dict, i: int) -> dict:
    out = {}
    for k, v in batch.items():
        if isinstance(v, torch.Tensor) and v.ndim > 0:
            out[k] = v[i]
        elif isinstance(v, (list, tuple)):
            out[k] = v[i]
        else:
            out[k] = v          # a plain value written by a module (`scaling_diff`)
    return out


class PrePost:
    """pre-transform on the un-batched sample, collate (batch of one), post-transform, un-collate"""

    def __init__(self, pre, post):
        self.pre, self.post = pre, post

    def __call__(self, sample):
        return uncollate(self.post(collate([self.pre(sample)])), 0)


def raw_sample(k: np.ndarray, filename="file_a.h5", slice_no=0, crop_shape=None) -> dict:
    s = {"kspace": k.copy(), "filename": filename, "slice_no": slice_no}
    if crop_shape is not None:
        s["reconstruction_size"] = tuple(crop_shape) + (1,)
    return s


class ImplError(Exception):
    """an exception of the implementation (direct's own exceptions derive from BaseException)"""

    def __init__(self, inner):
        super().__init__(f"{type(inner).__name__}: {inner}")
        self.inner = inner


def run_real(tr, sample):
    with warnings.catch_warnings():
        warnings.simplefilter("ignore")
        try:
            return tr(sample)
        except (KeyboardInterrupt, SystemExit):
            raise
        except BaseException as e:  # noqa: BLE001
            raise ImplError(e) from e


# --------------------------------------------------------------------------------------------------
# exact (dyadic) data and canonical form
def exact_kspace(rng, nc, ns, h, w, border=0, zero_coil=False, pyth=False) -> np.ndarray:
    """one non-zero coil per pixel, value ±2^k on the real or the imaginary axis; optional zero border / coil.
    `pyth`: additionally 3-4-5 pixels (two coils 3·2^j and 4·2^j, or one coil (3+4i)·2^j) — moduli and root sums of
    squares stay exact but differ from sums of moduli; only for stages that do not divide."""
    shape = (nc, ns, h, w) if ns else (nc, h, w)
    k = np.zeros(shape, dtype=np.complex64)
    live = [c for c in range(nc) if not (zero_coil and c == nc - 1 and nc > 1)]
    for idx in itertools.product(*[range(n) for n in shape[1:]]):
        y, x = idx[-2], idx[-1]
        if y < border or x < border or y >= h - border or x >= w - border:
            continue
        if rng.random() < 0.1:
            continue
        c = rng.choice(live)
        v = rng.choice([1, 2, 4, 8]) * rng.choice([1, -1])
        if pyth and rng.random() < 0.5:
            j = rng.choice([1, 2])
            if len(live) >= 2 and rng.random() < 0.6:
                c1, c2 = rng.sample(live, 2)
                k[(c1,) + idx] = 3 * j * rng.choice([1, -1, 1j])
                k[(c2,) + idx] = 4 * j * rng.choice([1, -1, -1j])
            else:
                k[(c,) + idx] = (3 + 4j) * j * rng.choice([1, -1])
            continue
        k[(c,) + idx] = v if rng.random() < 0.5 else 1j * v
    if not np.any(k):
        k[(0,) + tuple(n // 2 for n in shape[1:])] = 2
    return k


def cplx_ints(k: np.ndarray) -> list[int]:
    out = np.stack([k.real, k.imag], axis=-1).reshape(-1)
    return [int(v) for v in out]


def layout(key: str, t: torch.Tensor, three_d: bool, recon: int) -> tuple[int, int, int]:
    """(coils, slices, complex) of an output tensor, as the model lays it out"""
    if key in ("kspace", "masked_kspace", "sensitivity_map", "input_kspace"):
        return t.shape[0], (t.shape[1] if three_d else 1), 1
    if key in ("sampling_mask", "acs_mask", "padding", "input_sampling_mask", "target_sampling_mask", "scaling_factor"):
        return 1, 1, 0
    if key == "body_coil_image":
        return 1, (t.shape[0] if three_d else 1), 0
    if key == "target":
        r = RECON[recon]
        if r == "ifft":
            return t.shape[0], (t.shape[1] if three_d else 1), 1
        if r in ("complex", "sense"):
            return 1, (t.shape[0] if three_d else 1), 1
        if r == "complex_mod":      # modulus of the coil sum keeps the model's (1, ns) layout
            return 1, (t.shape[0] if three_d else 1), 0
        return 1, (t.shape[0] if three_d else 1), 0
    raise KeyError(key)


def canon_out(out: dict, three_d: bool, recon: int) -> str:
    groups = []
    for i, key in enumerate(KEY_ORDER):
        if key not in out or not isinstance(out[key], torch.Tensor):
            continue
        t = out[key]
        nc, ns, cplx = layout(key, t, three_d, recon)
        vals = [Fraction(float(v)) for v in t.to(torch.float64).reshape(-1).tolist()]
        groups.append(ints([i, nc, ns, cplx]))
        groups.append(ints(v.numerator for v in vals))
        groups.append(ints(v.denominator for v in vals))
    return "ok " + " | ".join(groups)


def _err(e: BaseException) -> str:
    n = err_name(e.inner if isinstance(e, ImplError) else e)
    return "err " + ("KeyError" if n in ("KeyError", "ValueError", "ItemNotFoundException") else n)


# --------------------------------------------------------------------------------------------------
# correspondence
def _pipeline_case(ctx, rng, f: dict, nc, ns, h, w, crop_shape, eps_pow, pct, pad_to, border, zero_coil, bucket, mask_fn=None,
                   op="pipeline", given=(0, 0, 0), all_zero=False):
    """whole composed pipeline with identity operators on dyadic data; masks are taken from the real run.
    `op`: pipeline (`build_mri_transforms`) / prepost (`build_pre…` + `build_post…`) / given (`build_mri_transforms` on a
    sample that already contains `sampling_mask`+`acs_mask` (`given[0:2]`) or a `sensitivity_map` (`given[2]`))."""
    k = exact_kspace(rng, nc, ns, h, w, border=border, zero_coil=zero_coil)
    if all_zero:
        k = np.zeros_like(k)
    rec = _RecordingMask(mask_fn if mask_fn is not None else _mask_func(2, 0.5))
    eps = 2.0 ** eps_pow
    if op == "prepost":
        tr = PrePost(*build_prepost_real(f, rec, _ident, _ident, crop_shape=crop_shape, eps=eps, percentile=pct, pad_to=pad_to))
    else:
        tr = build_real(f, rec, _ident, _ident, crop_shape=crop_shape, eps=eps, percentile=pct, pad_to=pad_to)
    smp = raw_sample(k, crop_shape=crop_shape if f["crop"] == 2 else None)
    gmask = gacs = None
    smap_ints: list[int] = []
    if op == "given":
        mshape = (1, 1, h, w, 1) if ns else (1, h, w, 1)
        probe = (mask_fn if mask_fn is not None else _mask_func(2, 0.5))
        kshape = (ns, h, w, 2) if ns else (h, w, 2)
        if given[0]:
            gmask = probe(shape=kshape, seed=(7, nc, h, w), return_acs=False).reshape(mshape).numpy().astype(bool)
            smp["sampling_mask"] = gmask.copy()
        if given[1]:
            gacs = probe(shape=kshape, seed=(7, nc, h, w), return_acs=True).reshape(mshape).numpy().astype(bool)
            smp["acs_mask"] = gacs.copy()
        if given[2]:
            phase = np.array([1, 1j, -1, -1j], dtype=np.complex64)     # unit-modulus entries: SENSE sums stay exact
            idx = np.array([rng.randrange(4) for _ in range(k.size)]).reshape(k.shape)
            sm = phase[idx].astype(np.complex64)
            smp["sensitivity_map"] = sm
            smap_ints = cplx_ints(sm)
    try:
        out = run_real(tr, smp)
        ans = canon_out(out, bool(ns), f["recon"])
    except Exception as e:  # noqa: BLE001
        out, ans = None, _err(e)
    hh, ww = (crop_shape if f["crop"] else (h, w))
    npix = hh * ww
    samp = next((m for acs, _, _, m in rec.calls if not acs), None)
    acs = next((m for acs, _, _, m in rec.calls if acs), None)
    if gmask is not None and not f["mask_func"]:
        mask = [int(v) for v in gmask.reshape(-1).tolist()]
    else:
        mask = [int(v) for v in samp.reshape(-1).tolist()] if samp is not None else [0] * npix
    if gacs is not None and not (f["mask_func"] and f["estimate_smaps"]):
        acsm = [int(v) for v in gacs.reshape(-1).tolist()]
    else:
        acsm = [int(v) for v in acs.reshape(-1).tolist()] if acs is not None else [0] * npix
    nc_eff = max(nc, pad_to) if f["pad_coils"] else nc
    chunk = npix * max(ns, 1)
    ktab = [int((1 - pct) * (j * chunk)) + 1 for j in range(nc_eff + 1)]
    inm = tgm = []
    if out is not None and "input_sampling_mask" in out:
        inm = [int(v) for v in out["input_sampling_mask"].reshape(-1).tolist()]
        tgm = [int(v) for v in out["target_sampling_mask"].reshape(-1).tolist()]
    groups = [
        ints(flag_list(f)), ints([nc, max(ns, 1), h, w]), ints(cplx_ints(k)), ints(mask), ints(acsm),
        ints(crop_shape if f["crop"] else (0, 0)), ints([1, 2 ** (-eps_pow)]), ints(ktab), ints([pad_to or 0]),
        ints(inm), ints(tgm)]
    if op == "given":
        groups = [ints(given), ints(smap_ints)] + groups
    line = op + " " + " | ".join(groups)
    return {"line": line, "impl": (lambda a=ans: a), "nontrivial": min(h, w) >= 2 and (all_zero or np.unique(np.abs(k)).size > 1),
            "bucket": bucket + ("/IndexError" if ans == "err IndexError" else ""),
            "key": (op, tuple(given), tuple(flag_list(f)), nc, ns, h, w, tuple(crop_shape or ()), k.tobytes())}


def _store_groups(store: dict) -> list[str]:
    g = []
    for key, (nc, ns, cplx, data) in store.items():
        g.append(ints([KEY_ORDER.index(key), nc, ns, cplx]))
        g.append(ints(data))
    return g


def _stage_cases(ctx, rng):
    """every transform class on its own, on an explicit sample"""
    import direct.data.mri_transforms as M
    from direct.types import KspaceKey, TransformKey

    n = ctx.budget(30, 300)
    for _ in range(n):
        yield from _stage_set(rng)


def _stage_set(rng):
    import direct.data.mri_transforms as M
    from direct.types import KspaceKey, TransformKey

    if True:
        nc = rng.choice([1, 2, 3, 4])
        ns = rng.choice([0, 0, 2, 3])
        h, w = rng.choice([2, 3, 4, 5, 6, 7]), rng.choice([2, 3, 4, 5, 6])
        three_d = bool(ns)
        k = exact_kspace(rng, nc, ns, h, w, border=rng.choice([0, 0, 1]) if min(h, w) > 3 else 0,
                         zero_coil=rng.random() < 0.3)
        kt = torch.from_numpy(np.stack([k.real, k.imag], -1)).float()
        kdesc = (nc, max(ns, 1), 1, cplx_ints(k))
        kp = exact_kspace(rng, nc, ns, h, w, zero_coil=rng.random() < 0.3, pyth=True)
        kpt = torch.from_numpy(np.stack([kp.real, kp.imag], -1)).float()
        kpdesc = (nc, max(ns, 1), 1, cplx_ints(kp))

        def freshp():
            return {"kspace": kpt.clone(), "filename": "f", "slice_no": 0}

        mshape = ((1, 1, h, w, 1) if three_d else (1, h, w, 1))
        g = torch.Generator().manual_seed(rng.randrange(2 ** 31))
        mask = torch.rand(mshape, generator=g) < 0.6
        acs = torch.zeros(mshape, dtype=torch.bool)
        acs[..., w // 2 - (1 if w > 2 else 0): w // 2 + 1, :] = True
        mdesc = lambda m: (1, 1, 0, [int(v) for v in m.reshape(-1).tolist()])  # noqa: E731
        eps_pow = rng.choice([-1, -2, -3, -13])
        pad_to = nc + rng.choice([0, 1, 2])
        npix = h * w * max(ns, 1)
        pct = rng.choice([0.99, 0.9, 0.75, 0.5])

        def fresh():
            return {"kspace": kt.clone(), "filename": "f", "slice_no": 0}

        def case(code, a, b, store, thunk, bucket, aux):
            line = "stage " + " | ".join([ints([code, a, b]), ints(aux)] + _store_groups(store))

            def impl():
                try:
                    return canon_out(run_real(thunk, None), three_d, a if code == 5 else 1)
                except Exception as e:  # noqa: BLE001
                    return _err(e)
            return {"line": line, "impl": impl, "nontrivial": min(h, w) >= 2, "bucket": bucket}

        aux0 = [1, 2 ** (-eps_pow), 1, pad_to]
        # ComputeZeroPadding + ApplyZeroPadding
        yield case(0, 0, 0, {"kspace": kdesc},
                   lambda s, e=eps_pow: M.ComputeZeroPadding(KspaceKey.KSPACE, "padding", 2.0 ** e)(fresh()),
                   "stage/ComputeZeroPadding" + ("3d" if three_d else ""), aux0)
        yield case(0, 0, 0, {"kspace": kpdesc},
                   lambda s, e=eps_pow: M.ComputeZeroPadding(KspaceKey.KSPACE, "padding", 2.0 ** e)(freshp()),
                   "stage/ComputeZeroPadding/pythagorean", aux0)
        yield case(3, 1, 0, {"kspace": kpdesc},
                   lambda s: M.ComputeScalingFactor(normalize_key="kspace", percentile=None,
                                                    scaling_factor_key=TransformKey.SCALING_FACTOR)(freshp()),
                   "stage/ComputeScalingFactor/max/pythagorean", aux0)
        for r in (1, 2, 3):
            yield case(5, r, 0, {"kspace": kpdesc},
                       lambda s, r=r: M.ComputeImage(kspace_key=KspaceKey.KSPACE, target_key=TransformKey.TARGET,
                                                     backward_operator=_ident, type_reconstruction=RECON[r])(freshp()),
                       "stage/ComputeImage/" + RECON[r] + "/pythagorean", aux0)
        pad = M.ComputeZeroPadding(KspaceKey.KSPACE, "padding", 2.0 ** eps_pow)(fresh())["padding"]
        yield case(1, 0, 0, {"kspace": kdesc, "padding": mdesc(pad)},
                   lambda s, p=pad: M.ApplyZeroPadding()({**fresh(), "padding": p}), "stage/ApplyZeroPadding", aux0)
        # ApplyMask
        yield case(2, 0, 0, {"kspace": kdesc, "sampling_mask": mdesc(mask)},
                   lambda s, m=mask: M.ApplyMask()({**fresh(), "sampling_mask": m}), "stage/ApplyMask", aux0)
        masked = torch.where(mask == 0, torch.tensor([0.0]), kt)
        mk_desc = (nc, max(ns, 1), 1, [int(v) for v in masked.reshape(-1).tolist()])
        # ComputeScalingFactor (percentile / max; key kspace / masked_kspace)
        for sk, use_pct in ((0, True), (1, False), (1, True)):
            src = masked if sk == 0 else kt
            nz = int((src.reshape(nc, -1) != 0).any(1).sum())          # coils with a non-zero entry (the repaired test)
            kk = int((1 - pct) * (nz * npix)) + 1
            if nz == 0 and use_pct:
                continue
            yield case(3, sk, int(use_pct), {"kspace": kdesc, "masked_kspace": mk_desc},
                       lambda s, sk=sk, up=use_pct: M.ComputeScalingFactor(
                           normalize_key=SK[sk], percentile=pct if up else None,
                           scaling_factor_key=TransformKey.SCALING_FACTOR)({**fresh(), "masked_kspace": masked.clone()}),
                       "stage/ComputeScalingFactor/" + ("percentile" if use_pct else "max"), [1, 2, kk, pad_to])
        # Normalize by a dyadic factor (and by zero: safe divide)
        sf = rng.choice([0.0, 0.5, 1.0, 2.0, 4.0, 8.0])
        fr = Fraction(sf)
        yield case(4, 0, 0, {"kspace": kdesc, "masked_kspace": mk_desc,
                             "scaling_factor": (1, 1, 0, [int(fr * 2)])},
                   lambda s, sf=sf: M.Normalize(scaling_factor_key=TransformKey.SCALING_FACTOR,
                                                keys_to_normalize=[KspaceKey.KSPACE, KspaceKey.MASKED_KSPACE])(
                       {**fresh(), "masked_kspace": masked.clone(), "scaling_factor": torch.tensor(sf * 2)}),
                   "stage/Normalize" + ("/zero" if sf == 0 else ""), aux0)
        # ComputeImage (identity backward operator), all six types; SENSE with a ±1/±i map
        smap = torch.zeros_like(kt)
        smap[..., 0] = 1.0
        if rng.random() < 0.5:
            smap = torch.stack([-smap[..., 1], smap[..., 0]], -1)  # multiply by i
        sm_desc = (nc, max(ns, 1), 1, [int(v) for v in smap.reshape(-1).tolist()])
        for r in range(6):
            store = {"kspace": kdesc}
            if r >= 4 and rng.random() < 0.85:
                store["sensitivity_map"] = sm_desc
            yield case(5, r, 0, store,
                       lambda s, r=r, has=("sensitivity_map" in store): M.ComputeImage(
                           kspace_key=KspaceKey.KSPACE, target_key=TransformKey.TARGET, backward_operator=_ident,
                           type_reconstruction=RECON[r])({**fresh(), **({"sensitivity_map": smap.clone()} if has else {})}),
                       "stage/ComputeImage/" + RECON[r] + ("" if (r < 4 or "sensitivity_map" in store) else "/missing-map"),
                       aux0)
        # PadCoilDimension
        yield case(6, 0, 0, {"kspace": kdesc},
                   lambda s, p=pad_to: M.PadCoilDimension(pad_coils=p, key=KspaceKey.KSPACE)(fresh()),
                   "stage/PadCoilDimension", aux0)
        # EstimateSensitivityMap: RSS estimate (any coil count), unit (1 or 4 coils: 1/sqrt(coils) exact)
        yield case(7, 1, 0, {"kspace": kdesc, "acs_mask": mdesc(acs)},
                   lambda s, a=acs: M.EstimateSensitivityMap(kspace_key=KspaceKey.KSPACE, backward_operator=_ident,
                                                             type_of_map="rss_estimate")({**fresh(), "acs_mask": a}),
                   "stage/EstimateSensitivityMap/rss", aux0)
        if nc in (1, 4):
            yield case(7, 2, 0, {"kspace": kdesc},
                       lambda s: M.EstimateSensitivityMap(kspace_key=KspaceKey.KSPACE, backward_operator=_ident,
                                                          type_of_map="unit")(fresh()),
                       "stage/EstimateSensitivityMap/unit", aux0)
        # DeleteKeys / RenameKeys
        yield case(8, 0, 0, {"kspace": kdesc, "acs_mask": mdesc(acs), "sampling_mask": mdesc(mask)},
                   lambda s, a=acs, m=mask: M.DeleteKeys(keys=["acs_mask", "kspace"])(
                       {**fresh(), "acs_mask": a, "sampling_mask": m}), "stage/DeleteKeys", aux0)
        yield case(9, 0, 0, {"kspace": kdesc, "masked_kspace": mk_desc},
                   lambda s: M.RenameKeys(["masked_kspace", "acs_mask"], ["input_kspace", "kspace"])(
                       {**fresh(), "masked_kspace": masked.clone()}), "stage/RenameKeys", aux0)


def _verdict_case(ctx, rng, f: dict, bucket):
    """static verdict of the type checker vs. observed behaviour of the real pipeline under x8"""
    def impl():
        return "ok " + str(int(observed_equivariant(f, rng_seed)))
    rng_seed = rng.randrange(2 ** 31)
    return {"line": "degrees " + ints(flag_list(f)), "impl": impl, "nontrivial": True, "bucket": bucket,
            "key": ("degrees", tuple(flag_list(f)))}


def observed_equivariant(f: dict, seed: int) -> bool:
    import direct.data.transforms as T

    g = np.random.RandomState(seed)
    nc, h, w = 3, 10, 8
    k = (g.randn(nc, h, w) + 1j * g.randn(nc, h, w)).astype(np.complex64)
    outs = []
    for scale in (1.0, 8.0):
        tr = build_real(f, _mask_func(), T.fft2, T.ifft2, crop_shape=(6, 6), pad_shape=(12, 12), rescale_shape=(8, 8),
                        pad_to=4, compress_to=2)
        try:
            outs.append(run_real(tr, raw_sample(k * np.float32(scale), crop_shape=(6, 6) if f["crop"] == 2 else None)))
        except Exception:  # noqa: BLE001
            return False
    a, b = outs
    need = ["target", "scaling_factor"] + (["input_kspace", "kspace"] if f["ssl"] else ["masked_kspace"])
    if any(kk not in a for kk in need):
        return False
    for kk in NORMALISED:
        if (kk in a) != (kk in b):
            return False
        if kk in a and isinstance(a[kk], torch.Tensor):
            if a[kk].shape != b[kk].shape or not _close(a[kk], b[kk], 1e-4):
                return False
    sa, sb = float(a["scaling_factor"]), float(b["scaling_factor"])
    return sa > 0 and abs(sb / sa - 8.0) < 1e-3


def random_flags(rng, valid_only=False) -> dict:
    f = default_flags()
    f["crop"] = rng.choice([0, 0, 1, 2])
    f["image_center_crop"] = rng.choice([0, 1])
    f["padding_eps"] = rng.choice([0, 1, 1])
    f["pad_coils"] = rng.choice([0, 0, 1])
    f["body_coil"] = rng.choice([0, 0, 1])
    f["estimate_smaps"] = rng.choice([0, 1, 1])
    f["smap_type"] = rng.choice([1, 2])
    f["smap_gaussian"] = rng.choice([0, 0, 1])
    f["delete_acs"] = rng.choice([0, 1])
    f["delete_kspace"] = rng.choice([0, 1])
    f["recon"] = rng.randrange(6)
    f["scaling_key"] = rng.choice([0, 1]) if valid_only else rng.choice([0, 0, 1, 1, 3, 4])
    f["percentile"] = rng.choice([0, 1])
    f["ssl"] = rng.choice([0, 0, 1])
    f["split"] = rng.randrange(3)
    f["keep_acs"] = rng.choice([0, 0, 1]) if f["ssl"] else 0
    if not valid_only:
        f["mask_func"] = rng.choice([1, 1, 1, 1, 0])
        if f["crop"] == 0:
            f["rescale"], f["pad"] = rng.choice([(0, 0), (0, 0), (1, 0), (0, 1)])
        f["compress_coils"] = rng.choice([0, 0, 0, 1])
    if valid_only:
        if f["recon"] >= 4:
            f["estimate_smaps"] = 1
        if f["keep_acs"]:
            f["estimate_smaps"] = 1
    return f


def correspondence(ctx: Ctx):
    rng = ctx.rng
    # (1) static verdict vs observed behaviour, valid and invalid flag combinations
    fixed = [default_flags(), {**default_flags(), "ssl": 1}, {**default_flags(), "scaling_key": 4},
             {**default_flags(), "recon": 4, "estimate_smaps": 0}, {**default_flags(), "mask_func": 0},
             {**default_flags(), "ssl": 1, "keep_acs": 1, "estimate_smaps": 0}]
    for f in fixed:
        yield _verdict_case(ctx, rng, f, "verdict/fixed")
    for _ in range(ctx.budget(90, 2000)):
        f = random_flags(rng)
        yield _verdict_case(ctx, rng, f, "verdict/" + ("ssl" if f["ssl"] else "sup"))
    # (2) every stage on its own
    yield from _stage_cases(ctx, rng)
    # (3) whole pipelines, exactly
    for i in range(ctx.budget(150, 4000)):
        f = random_flags(rng, valid_only=True)
        f.update(rescale=0, pad=0, compress_coils=0, smap_gaussian=0, image_center_crop=1)
        nc = rng.choice([1, 2, 3, 4])
        ns = rng.choice([0, 0, 0, 2, 3])
        if ns and f["crop"] == 2:
            f["crop"] = 1
        if f["estimate_smaps"] and f["smap_type"] == 2 and not (nc in (1, 4) and not f["pad_coils"]):
            f["smap_type"] = 1
        h, w = rng.choice([4, 5, 6, 7, 8, 9, 11, 12]), rng.choice([4, 5, 6, 7, 8, 9, 10])
        crop_shape = (rng.randint(2, h), rng.randint(2, w)) if f["crop"] else None
        pad_to = nc + rng.choice([0, 1, 2]) if f["pad_coils"] else None
        if f["pad_coils"] and f["estimate_smaps"] and f["smap_type"] == 2:
            f["smap_type"] = 1
        bucket = "pipeline/" + ("ssl" if f["ssl"] else "sup") + ("/3d" if ns else "/2d") + ("/crop" if f["crop"] else "")
        mk = rng.choice(["random", "random", "random", "full", "zero"])
        if mk == "zero" and f["ssl"]:
            mk = "full"
        if mk != "random":
            bucket += "/mask-" + mk
        c = _pipeline_case(ctx, rng, f, nc, ns, h, w, crop_shape, rng.choice([-13, -13, -1, -2]),
                           rng.choice([0.99, 0.9, 0.5]), pad_to, rng.choice([0, 0, 1]), rng.random() < 0.25, bucket,
                           mask_fn=None if mk == "random" else mask_func_of(mk))
        yield c
    # (3a) the error branch of the percentile scaling: identically zero k-space (IndexError with the percentile, a zero
    #      scaling factor with the maximum), for both builder families
    for i in range(ctx.budget(8, 120)):
        f = {**default_flags(), "percentile": i % 2, "scaling_key": rng.choice([0, 1]), "recon": rng.randrange(4),
             "padding_eps": rng.choice([0, 1]), "delete_kspace": rng.choice([0, 1])}
        op = "prepost" if i % 4 >= 2 else "pipeline"
        nc, ns = rng.choice([1, 2, 3]), rng.choice([0, 0, 2])
        yield _pipeline_case(ctx, rng, f, nc, ns, rng.choice([4, 5, 6]), rng.choice([4, 5, 7]), None, -13, 0.9, None, 0, False,
                             f"{op}/all-zero", op=op, all_zero=True)
    # (3b) the second builder pair (pre-transform, collate, post-transform), exactly
    for i in range(ctx.budget(40, 800)):
        f = random_flags(rng, valid_only=True)
        f.update(rescale=0, pad=0, compress_coils=0, smap_gaussian=0, image_center_crop=1, ssl=0, keep_acs=0)
        nc = rng.choice([1, 2, 3, 4])
        ns = rng.choice([0, 0, 0, 2, 3])
        if ns and f["crop"] == 2:
            f["crop"] = 1
        if f["estimate_smaps"] and f["smap_type"] == 2 and not (nc in (1, 4) and not f["pad_coils"]):
            f["smap_type"] = 1
        h, w = rng.choice([4, 5, 6, 7, 8, 9, 11]), rng.choice([4, 5, 6, 7, 8, 10])
        crop_shape = (rng.randint(2, h), rng.randint(2, w)) if f["crop"] else None
        pad_to = nc + rng.choice([0, 1, 2]) if f["pad_coils"] else None
        mk = rng.choice(["random", "random", "random", "full", "zero"])
        bucket = "prepost" + ("/3d" if ns else "/2d") + ("/crop" if f["crop"] else "") + ("" if mk == "random" else "/mask-" + mk)
        yield _pipeline_case(ctx, rng, f, nc, ns, h, w, crop_shape, rng.choice([-13, -13, -1, -2]), rng.choice([0.99, 0.9, 0.5]),
                             pad_to, rng.choice([0, 0, 1]), rng.random() < 0.25, bucket,
                             mask_fn=None if mk == "random" else mask_func_of(mk), op="prepost")
    # (3c) samples that already contain tensor entries: (A) sampling_mask + acs_mask and no mask function (with and
    #      without a crop: CropKspace crops the given masks), (B) a sensitivity map from the dataset
    for i in range(ctx.budget(36, 600)):
        f = random_flags(rng, valid_only=True)
        f.update(rescale=0, pad=0, compress_coils=0, smap_gaussian=0, image_center_crop=1, body_coil=0)
        nc = rng.choice([1, 2, 3, 4])
        ns = rng.choice([0, 0, 0, 2])
        scen = "A" if i % 2 == 0 else "B"
        if scen == "A":
            f["mask_func"] = 0
            given = (1, 1, 0)
            if ns and f["crop"] == 2:
                f["crop"] = 1
        else:
            given = (0, 0, 1)
            f["crop"] = 0                        # CropKspace does not crop a given sensitivity map
            f["pad_coils"] = 0
            if rng.random() < 0.6:
                f["estimate_smaps"] = 0
                f["keep_acs"] = 0
        if f["estimate_smaps"] and f["smap_type"] == 2 and not (nc in (1, 4) and not f["pad_coils"]):
            f["smap_type"] = 1
        h, w = rng.choice([4, 5, 6, 7, 8, 9]), rng.choice([4, 5, 6, 7, 8])
        crop_shape = (rng.randint(2, h), rng.randint(2, w)) if f["crop"] else None
        pad_to = nc + rng.choice([0, 1, 2]) if f["pad_coils"] else None
        bucket = "given/" + scen + ("/ssl" if f["ssl"] else "/sup") + ("/3d" if ns else "/2d") + ("/crop" if f["crop"] else "")
        yield _pipeline_case(ctx, rng, f, nc, ns, h, w, crop_shape, rng.choice([-13, -1, -2]), rng.choice([0.99, 0.9, 0.5]),
                             pad_to, rng.choice([0, 0, 1]), rng.random() < 0.25, bucket, op="given", given=given)
    # (4) malformed: the pipeline must reject, and so must the model
    for f in ({**default_flags(), "mask_func": 0, "estimate_smaps": 0},
              {**default_flags(), "recon": 4, "estimate_smaps": 0},
              {**default_flags(), "recon": 5, "estimate_smaps": 0, "ssl": 1},
              {**default_flags(), "ssl": 1, "keep_acs": 1, "estimate_smaps": 0},
              {**default_flags(), "scaling_key": 3}):
        yield _pipeline_case(ctx, rng, f, 2, 0, 6, 5, None, -13, 0.9, None, 0, False, "pipeline/malformed")
    # a given sampling mask without the ACS mask and a crop: CropKspace raises, and so does the model
    yield _pipeline_case(ctx, rng, {**default_flags(), "mask_func": 0, "estimate_smaps": 0, "crop": 1}, 2, 0, 6, 5, (4, 3), -13,
                         0.9, None, 0, False, "given/malformed", op="given", given=(1, 0, 0))


# --------------------------------------------------------------------------------------------------
# oracle on the real code
def _close(a: torch.Tensor, b: torch.Tensor, rel: float) -> bool:
    """max-norm closeness relative to the magnitude of the tensor (rounding of a cancelling sum is relative to
    its terms, not to the result)"""
    if tuple(a.shape) != tuple(b.shape):
        return False            # a difference in shape *is* a difference
    if a.numel() == 0:
        return True
    a, b = a.double(), b.double()
    return bool((a - b).abs().max() <= rel * max(a.abs().max().item(), b.abs().max().item(), 1e-30))


def _maxdiff(a: torch.Tensor, b: torch.Tensor):
    if tuple(a.shape) != tuple(b.shape):
        return f"shapes {tuple(a.shape)} vs {tuple(b.shape)}"
    return (a.double() - b.double()).abs().max().item() if a.numel() else 0.0


def _tensor_keys(out):
    # keys may be str-enum members (`TransformKey.TARGET`): report them by their plain value
    return [str.__str__(k) for k, v in out.items() if isinstance(v, torch.Tensor)]


def _gauss_sample(seed, nc, ns, h, w, border, zero_coil):
    g = np.random.RandomState(seed)
    shape = (nc, ns, h, w) if ns else (nc, h, w)
    k = (g.randn(*shape) + 1j * g.randn(*shape)).astype(np.complex64)
    if border:
        m = np.zeros(shape[-2:], dtype=np.float32)
        m[:] = 0.0 if border == 1 else 1e-6      # an exactly zero border, or one far below the relative threshold
        b = 1
        m[b:h - b, b:w - b] = 1.0
        k = k * m
    if zero_coil and nc > 1:
        k[nc - 1] = 0
    return k.astype(np.complex64)


def _ops(centered):
    import direct.data.transforms as T
    return functools.partial(T.fft2, centered=centered), functools.partial(T.ifft2, centered=centered)


def oracle_configs(ctx: Ctx, deep: bool):
    rng = ctx.rng
    base = []
    # a fixed spread: every reconstruction type × map type, both scaling keys, percentile / max, supervised / SSL
    for recon in range(6):
        for sm in ((1, 1, 0), (1, 1, 1), (1, 2, 0), (0, 1, 0)):
            if recon >= 4 and not sm[0]:
                continue
            f = default_flags()
            f.update(recon=recon, estimate_smaps=sm[0], smap_type=sm[1], smap_gaussian=sm[2],
                     scaling_key=(recon + sm[1]) % 2, percentile=(recon + sm[2]) % 2, delete_kspace=0,
                     ssl=int((recon + sm[1] + sm[2]) % 3 == 0), split=recon % 3, crop=(recon + sm[2]) % 3,
                     image_center_crop=int((recon + sm[1]) % 2 == 0), pad_coils=int(recon % 3 == 1),
                     compress_coils=0, body_coil=int(recon == 2), delete_acs=recon % 2)
            base.append(f)
    n = ctx.budget(70, 2500) * (3 if deep else 1)
    for _ in range(n):
        base.append({**random_flags(rng, valid_only=True), "delete_kspace": rng.choice([0, 0, 1]),
                     "compress_coils": rng.choice([0, 0, 0, 1])})
    return base


# builder parameter -> harness flag, with the values that switch the option away from its default (and exercise it)
PARAM_TO_FLAG = {
    "crop": ("crop", (1, 2)), "image_center_crop": ("image_center_crop", (0,)), "rescale": ("rescale", (1,)), "pad": ("pad", (1,)),
    "padding_eps": ("padding_eps", (0,)), "estimate_body_coil_image": ("body_coil", (1,)),
    "estimate_sensitivity_maps": ("estimate_smaps", (0,)), "sensitivity_maps_type": ("smap_type", (2,)),
    "sensitivity_maps_gaussian": ("smap_gaussian", (1,)), "delete_acs_mask": ("delete_acs", (0,)),
    "delete_kspace": ("delete_kspace", (0,)), "image_recon_type": ("recon", (0, 2, 3, 4, 5)), "compress_coils": ("compress_coils", (1,)),
    "pad_coils": ("pad_coils", (1,)), "scaling_key": ("scaling_key", (1,)), "scale_percentile": ("percentile", (0,)),
    "use_seed": ("use_seed", (0,)), "transforms_type": ("ssl", (1,)), "mask_split_keep_acs": ("keep_acs", (1,)),
    "mask_split_type": ("split", (0, 2)),
}
NOT_PAIRED = {"forward_operator", "backward_operator", "mask_func",            # required arguments
              "random_rotation_probability", "random_flip_probability", "random_reverse_probability"}   # SystemRandom: outside the quantifier


def option_flags(ctx=None) -> list[tuple[str, tuple]]:
    """the option flags of the builders, read off the *current* signature of build_mri_transforms through the translator's
    classification (flag / positive / enum / crop / transforms type); a classified parameter the harness has no recipe for is
    recorded in the evidence notes (it also breaks the `outer_params_eq` bridge)"""
    from translate.recipes import c08 as R
    try:
        tr = R.Tr()
        names = [n for n, _ in tr.params_of("build_mri_transforms")]
    except Exception:  # noqa: BLE001  (signature not understood: fall back to the known list)
        names = list(PARAM_TO_FLAG)
    out = []
    for n in names:
        structural = (n in R.FLAGS or n in R.POSITIVE or n in R.ENUM_PARAMS or n in ("crop", "transforms_type"))
        if not structural or n in NOT_PAIRED:
            continue
        if n in PARAM_TO_FLAG:
            out.append(PARAM_TO_FLAG[n])
        elif ctx is not None:
            ctx.notes.append({"observation": f"builder parameter `{n}` decides the stage table but the option search has no recipe for it"})
    return out


def _pair_fixups(f: dict, rng) -> dict:
    """make a flag assignment a configuration of the quantifier, changing as few of the switched-on options as possible"""
    if f["recon"] >= 4:
        f["estimate_smaps"] = 1
    if not f["ssl"]:
        f["keep_acs"] = 0
    if f["keep_acs"]:
        f["estimate_smaps"] = 1
    if (f["pad"] or f["rescale"]) and f["crop"] == 1:
        f["crop"] = 2                      # a tuple crop cannot be combined with pad / rescale (documented)
    if f["compress_coils"] and f["estimate_smaps"] and f["smap_type"] == 2:
        pass
    if not f["use_seed"] and f["ssl"]:
        f["ssl"], f["keep_acs"] = 0, 0      # the unseeded splitter draws from the OS-seeded generator: runs cannot be compared
    return f


COINCIDENCES = ("slices==height", "coils==height", "width==crop-height", "crop==size-on-one-axis", "cubic-volume",
                "crop==size", "height==width==crop", "pad==size-on-one-axis", "rescale==size")


def coincidence_config(rng, cls: str) -> tuple[dict, np.ndarray]:
    """a crop / pad / rescale configuration whose axis lengths coincide in the named way (2-D and 3-D); a shape computation
    that pairs the wrong axes, or a shortcut on equal sizes, shows up only on such shapes"""
    f = {**random_flags(rng, valid_only=True), "rescale": 0, "pad": 0, "compress_coils": 0}
    f["crop"] = rng.choice([1, 2])
    three_d = rng.random() < 0.5
    nc, ns, h, w = rng.choice([1, 2, 3]), (rng.choice([2, 3, 4]) if three_d else 0), rng.choice([7, 8, 9, 10]), rng.choice([7, 8, 9, 10, 12])
    ch, cw = rng.randint(3, h - 1), rng.randint(3, w - 1)
    cfg = {}
    if cls == "slices==height":
        three_d = True
        if rng.random() < 0.3:
            h = ns = rng.choice([6, 8])
            w = rng.choice([6, 7, 9])
            ch, cw = rng.randint(3, h), rng.randint(3, w - 1)
        else:                                        # … and width == crop height (the 8x8x8 volume with crop (8, 6) family)
            ch = rng.choice([5, 6, 8])
            w = ch
            h = ns = rng.choice([v for v in (6, 7, 8) if v >= ch])
            cw = rng.randint(3, w - 1)
    elif cls == "coils==height":
        nc = h = rng.choice([4, 5, 6])
        ch = rng.randint(3, h - 1) if h > 3 else 3
    elif cls == "width==crop-height":
        ch = rng.choice([5, 6, 7])
        w, h = ch, ch + rng.choice([1, 2, 3])
        cw = rng.randint(3, w - 1)
    elif cls == "crop==size-on-one-axis":
        if rng.random() < 0.5:
            ch = h
        else:
            cw = w
    elif cls == "cubic-volume":
        three_d = True
        ns = h = w = rng.choice([6, 7, 8])
        ch, cw = rng.choice([(h, rng.randint(3, w - 1)), (rng.randint(3, h - 1), w), (rng.randint(3, h - 1), rng.randint(3, w - 1))])
    elif cls == "crop==size":
        ch, cw = h, w
    elif cls == "height==width==crop":
        h = w = rng.choice([6, 8, 9])
        ch, cw = h, rng.randint(3, w - 1)
    elif cls == "pad==size-on-one-axis":
        f.update(crop=rng.choice([0, 2]), pad=1)
        base = (ch, cw) if f["crop"] else (h, w)
        cfg["pad_shape"] = [base[0], base[1] + rng.choice([1, 3])] if rng.random() < 0.5 else [base[0] + rng.choice([1, 2]), base[1]]
    elif cls == "rescale==size":
        three_d = False
        f.update(crop=0, rescale=1)
        cfg["rescale_shape"] = [h, w] if rng.random() < 0.5 else [w, h]
    if not three_d:
        ns = 0
    if f["rescale"]:
        ns = 0
    seed = rng.randrange(2 ** 31)
    cfg.update({"flags": f, "shape": [nc] + ([ns] if ns else []) + [h, w], "crop_shape": [ch, cw], "seed": seed, "border": 0,
                "zero_coil": False, "centered": rng.random() < 0.7, "pad_to": nc + rng.choice([0, 1]), "percentile": rng.choice([0.99, 0.9]),
                "coincidence": cls})
    return cfg, _gauss_sample(seed, nc, ns, h, w, 0, False)


def pairwise_configs(ctx, n: int):
    """`n` configurations chosen greedily so that every *pair* of builder options is switched on together (non-default values
    of both, inputs that exercise both) as early as possible; yields (cfg, k) for `check_config`"""
    rng = ctx.rng
    opts = option_flags(ctx)
    names = [o[0] for o in opts]
    uncovered = {(a, b) for i, a in enumerate(names) for b in names[i + 1:]}
    for it in range(n):
        best = None
        dens = 0.5 if it % 2 == 0 else 0.22      # dense configurations cover pairs fast; sparse ones show a pair without the others
        for _try in range(10):
            f = default_flags()
            on = [o for o in opts if rng.random() < dens]
            for flag, values in on:
                f[flag] = rng.choice(values)
            f = _pair_fixups(f, rng)
            d = default_flags()
            active = [nm for nm in names if f[nm] != d[nm]]
            gain = sum(1 for i, a in enumerate(active) for b in active[i + 1:] if (a, b) in uncovered or (b, a) in uncovered)
            if best is None or gain > best[0]:
                best = (gain, f, active)
        _, f, active = best
        for i, a in enumerate(active):
            for b in active[i + 1:]:
                uncovered.discard((a, b))
                uncovered.discard((b, a))
        three_d = (not f["rescale"]) and f["crop"] != 2 and rng.random() < 0.3
        nc = rng.choice([3, 4]) if f["compress_coils"] else rng.choice([1, 2, 3])
        ns = 3 if three_d else 0
        h, w = rng.choice([7, 8, 9, 10]), rng.choice([7, 8, 9, 10])
        seed = rng.randrange(2 ** 31)
        crop_shape = [rng.randint(4, h - 1), rng.randint(4, w - 1)]
        base_hw = crop_shape if f["crop"] else [h, w]
        rescale_shape = [rng.choice([5, 8, 9]), rng.choice([6, 7, 10])]
        pad_from = rescale_shape if f["rescale"] else base_hw
        cfg = {"flags": f, "shape": [nc] + ([ns] if ns else []) + [h, w], "crop_shape": crop_shape, "seed": seed, "border": 0,
               "zero_coil": False, "centered": rng.random() < 0.7, "percentile": rng.choice([0.99, 0.9]),
               "pad_to": (rng.choice([1, 2]) if f["compress_coils"] else nc) + rng.choice([1, 2]),     # always more than the coils present
               "compress_to": rng.choice([1, 2]), "rescale_shape": rescale_shape,
               "pad_shape": [pad_from[0] + rng.choice([1, 2, 3]), pad_from[1] + rng.choice([0, 1, 4])],
               "stale": rng.random() < 0.2, "pair": sorted(active)}
        yield cfg, _gauss_sample(seed, nc, ns, h, w, 0, False)
    ctx.hist["oracle/pairwise/uncovered-pairs"] = len(uncovered)
    ctx.hist["oracle/pairwise/option-pairs"] = len(names) * (len(names) - 1) // 2


def _guarded(gen, rep):
    """an exception of the implementation escaping from a check is a finding, not a tool failure"""
    try:
        yield from gen
    except ImplError as e:
        yield Violation("pipeline-raises", f"the composed transform raises {e}", {**rep, "observed": str(e)})
    except (RuntimeError, ValueError, IndexError, KeyError, TypeError) as e:
        # the relation between output keys could not even be evaluated (shapes that do not broadcast, a key that vanished)
        yield Violation("outputs-inconsistent", f"a self-consistency relation between the outputs cannot be evaluated: "
                        f"{type(e).__name__}: {str(e)[:200]}", {**rep, "observed": f"{type(e).__name__}: {e}"})


def observations() -> list[dict]:
    """Three behaviours of the current code that lie outside the property's quantifier, each with an exact repro
    (run on every check; recorded in the evidence notes, never reported as violations)."""
    import direct.data.transforms as T

    out = []

    def attempt(title, repro, thunk):
        try:
            thunk()
            observed = "no exception"
        except ImplError as e:
            observed = f"{type(e.inner).__name__}: {str(e.inner)[:160]}"
        except Exception as e:  # noqa: BLE001
            observed = f"{type(e).__name__}: {str(e)[:160]}"
        out.append({"observation": title, "repro": repro, "observed": observed})

    zero = np.zeros((2, 8, 6), dtype=np.complex64)
    attempt("an identically zero masked k-space with scale_percentile set makes ComputeScalingFactor raise "
            "(torch.kthvalue on an empty tensor); scale_percentile=None returns scaling_factor 0 and all-zero outputs",
            "build_mri_transforms(fft2, ifft2, FastMRIRandom(acc=4, cf=0.25), scale_percentile=0.99)"
            "({'kspace': np.zeros((2, 8, 6), complex64), 'filename': 'file_a.h5', 'slice_no': 0})",
            lambda: run_real(build_real(default_flags(), _mask_func(), T.fft2, T.ifft2), raw_sample(zero)))
    g = np.random.RandomState(0)
    k = (g.randn(2, 8, 6) + 1j * g.randn(2, 8, 6)).astype(np.complex64)
    attempt("scaling_key='body_coil_image' cannot work: ComputeScalingFactor applies T.modulus, which asserts a complex "
            "(last axis 2) tensor, to the real body-coil image",
            "build_mri_transforms(fft2, ifft2, mask, estimate_body_coil_image=True, scaling_key='body_coil_image')"
            "({'kspace': RandomState(0) randn (2, 8, 6) complex64, 'filename': 'file_a.h5', 'slice_no': 0})",
            lambda: run_real(build_real({**default_flags(), "body_coil": 1, "scaling_key": 2}, _mask_func(), T.fft2, T.ifft2),
                             raw_sample(k)))
    attempt("a tuple `crop` combined with `pad` (or `rescale`): CreateSamplingMask builds the mask for the crop shape while "
            "the k-space has the padded shape, so ApplyMask fails to broadcast",
            "build_mri_transforms(fft2, ifft2, mask, crop=(6, 4), pad=(8, 6))"
            "({'kspace': RandomState(0) randn (2, 8, 6) complex64, 'filename': 'file_a.h5', 'slice_no': 0})",
            lambda: run_real(build_real({**default_flags(), "crop": 1, "pad": 1}, _mask_func(), T.fft2, T.ifft2,
                                        crop_shape=(6, 4), pad_shape=(8, 6)), raw_sample(k)))
    def pad_map_instability():
        tr = lambda: build_real({**default_flags(), "pad": 1, "padding_eps": 0, "delete_kspace": 0}, _mask_func(), T.fft2, T.ifft2,  # noqa: E731
                                pad_shape=(12, 6))
        a = run_real(tr(), raw_sample(k[:1]))["sensitivity_map"]
        b = run_real(tr(), raw_sample((k[:1] * np.float32(4.37)).astype(np.complex64)))["sensitivity_map"]
        d = float((a - b).abs().max())
        if d > 1e-3:
            raise RuntimeError(f"max |difference| of the sensitivity map under scaling by 4.37: {d:.3f} (entries of unit magnitude)")
    attempt("with PadKspace the zero-padded image rows hold FFT rounding noise only; EstimateSensitivityMap normalises it to unit "
            "magnitude (safe_divide guards exact zeros only), so the map there is not stable under non-dyadic scaling (bit-exact "
            "under 2^k); the oracle therefore excludes `sensitivity_map` / SENSE targets of padded pipelines from the "
            "arbitrary-scale comparison",
            "build_mri_transforms(fft2, ifft2, mask, pad=(12, 6), padding_eps=0)({'kspace': RandomState(0) randn (1, 8, 6) complex64, ...}) "
            "vs the same on 4.37 * kspace", pad_map_instability)
    def rank_of_3d_masks():
        tr = build_real({**default_flags(), "crop": 1, "padding_eps": 0, "delete_acs": 0}, _mask_func(), T.fft2, T.ifft2, crop_shape=(6, 4))
        g3 = np.random.RandomState(1)
        k3 = (g3.randn(2, 3, 8, 6) + 1j * g3.randn(2, 3, 8, 6)).astype(np.complex64)
        o = run_real(tr, raw_sample(k3))
        raise RuntimeError(f"masked_kspace {tuple(o['masked_kspace'].shape)}, sampling_mask {tuple(o['sampling_mask'].shape)}, "
                           f"acs_mask {tuple(o['acs_mask'].shape)}")
    attempt("3-D sample with a tuple `crop`: CreateSamplingMask asks the mask function for the 2-D crop shape, so `sampling_mask` / "
            "`acs_mask` have rank 4 while the k-space has rank 5.  Un-batched this broadcasts correctly (alignment from the right); "
            "after a collate (data loader, or between build_pre_mri_transforms and build_post_mri_transforms) the masks' batch axis "
            "is aligned with the coil axis: an error, or a silent mis-broadcast when batch size == number of coils",
            "build_mri_transforms(fft2, ifft2, mask, crop=(6, 4), padding_eps=0, delete_acs_mask=False)({'kspace': (2, 3, 8, 6) complex64, ...})",
            rank_of_3d_masks)
    return out


def oracle(ctx: Ctx, deep: bool = False):
    if not any(isinstance(n, dict) and "observation" in n for n in ctx.notes):
        ctx.notes.extend(observations())
    yield from _oracle(ctx, deep)


def _oracle(ctx: Ctx, deep: bool = False):
    """The property stated directly on the implementation."""
    import direct.data.transforms as T
    from direct.data.mri_transforms import ComputeImage
    from direct.types import KspaceKey, TransformKey

    rng = ctx.rng
    for f in oracle_configs(ctx, deep):
        nc = rng.choice([1, 2, 3, 4])
        ns = rng.choice([0, 0, 0, 3])
        if ns and f["crop"] == 2:
            f["crop"] = 1
        h, w = rng.choice([6, 7, 8, 9, 10, 11, 12]), rng.choice([6, 7, 8, 9, 10, 12])
        crop_shape = (rng.randint(3, h - 1), rng.randint(3, w - 1))
        border = rng.choice([0, 1, 2])
        zero_coil = rng.random() < 0.3
        seed = rng.randrange(2 ** 31)
        centered = rng.random() < 0.7
        fwd, bwd = _ops(centered)
        pad_to = nc + rng.choice([0, 1])
        pct = rng.choice([0.99, 0.9, 0.8])
        k = _gauss_sample(seed, nc, ns, h, w, border, zero_coil)
        cfg = {"flags": f, "shape": list(k.shape), "crop_shape": list(crop_shape), "seed": seed, "border": border,
               "zero_coil": zero_coil, "centered": centered, "pad_to": pad_to, "percentile": pct}
        bucket = "oracle/" + ("ssl" if f["ssl"] else "sup") + ("/3d" if ns else "/2d") + ("/crop" if f["crop"] else "")
        ctx.count(("oracle", tuple(flag_list(f)), tuple(k.shape), seed), True, bucket=bucket,
                  sample={"flags": {n: f[n] for n in ("crop", "recon", "smap_type", "scaling_key", "percentile", "ssl")},
                          "shape": list(k.shape)})
        yield from _guarded(check_config(cfg, k), {"op": "pipeline", **cfg})
    # (i-pp) the second builder pair, same checks (plus: batch of two through the post-transform)
    for i in range(ctx.budget(18, 300) * (3 if deep else 1)):
        f = {**random_flags(rng, valid_only=True), "ssl": 0, "keep_acs": 0, "compress_coils": 0, "delete_kspace": rng.choice([0, 0, 1])}
        if i < 6:
            f["recon"] = i
            if i >= 4:
                f["estimate_smaps"] = 1
        nc = rng.choice([1, 2, 3, 4])
        ns = rng.choice([0, 0, 0, 3])
        if ns and f["crop"] == 2:
            f["crop"] = 1
        h, w = rng.choice([6, 7, 8, 9, 10, 11]), rng.choice([6, 7, 8, 9, 10, 12])
        seed = rng.randrange(2 ** 31)
        cfg = {"family": "prepost", "flags": f, "shape": [nc] + ([ns] if ns else []) + [h, w], "crop_shape": [rng.randint(3, h - 1), rng.randint(3, w - 1)],
               "seed": seed, "border": 0, "zero_coil": False, "centered": rng.random() < 0.7, "pad_to": nc + rng.choice([0, 1]),
               "percentile": rng.choice([0.99, 0.9, 0.8]), "stale": rng.random() < 0.3}
        k = _gauss_sample(seed, nc, ns, h, w, 0, False)
        ctx.count(("oracle-pp", tuple(flag_list(f)), tuple(k.shape), seed), True,
                  bucket="oracle/prepost" + ("/3d" if ns else "/2d") + ("/crop" if f["crop"] else "") + ("/stale" if cfg["stale"] else ""))
        yield from _guarded(check_config(cfg, k), {"op": "pipeline", **cfg})
    # (i-opt) rarely used options of the single builder: pad / rescale (string crop or none), coil compression, seeding
    #         switched off (mask function RNG re-seeded by the harness so that two runs can be compared), stale entries
    for i in range(ctx.budget(12, 200) * (3 if deep else 1)):
        f = random_flags(rng, valid_only=True)
        kind = ("pad", "rescale", "compress", "unseeded", "stale", "pad")[i % 6]
        nc = rng.choice([1, 2, 3, 4])
        ns = rng.choice([0, 0, 3]) if kind in ("pad", "compress", "stale") else 0
        h, w = rng.choice([6, 7, 8, 9, 10]), rng.choice([6, 7, 8, 9, 10])
        seed = rng.randrange(2 ** 31)
        cfg = {"flags": f, "crop_shape": [rng.randint(3, h - 1), rng.randint(3, w - 1)], "seed": seed, "border": 0,
               "zero_coil": False, "centered": rng.random() < 0.7, "pad_to": nc + rng.choice([0, 1]), "percentile": rng.choice([0.99, 0.9])}
        if kind in ("pad", "rescale"):
            f["crop"] = rng.choice([0, 0, 2]) if not ns else 0
            f[kind] = 1
            base_hw = cfg["crop_shape"] if f["crop"] else [h, w]
            cfg["pad_shape"] = [base_hw[0] + rng.choice([0, 1, 2, 3]), base_hw[1] + rng.choice([0, 1, 4])]
            cfg["rescale_shape"] = [rng.choice([5, 8, 9]), rng.choice([6, 7, 10])]
        elif kind == "compress":
            nc = rng.choice([3, 4])
            f.update(compress_coils=1, pad_coils=0)
            cfg["compress_to"] = rng.choice([1, 2])
            if f["estimate_smaps"] and f["smap_type"] == 2:
                f["smap_type"] = 1
        elif kind == "unseeded":
            f.update(use_seed=0, ssl=0, keep_acs=0, image_center_crop=1)
        else:
            cfg["stale"] = True
        if ns and f["crop"] == 2:
            f["crop"] = 1
        k = _gauss_sample(seed, nc, ns, h, w, 0, False)
        cfg["shape"] = list(k.shape)
        ctx.count(("oracle-opt", kind, tuple(flag_list(f)), tuple(k.shape), seed), True, bucket="oracle/option/" + kind)
        yield from _guarded(check_config(cfg, k), {"op": "pipeline", **cfg})
    # (i-pair) option *combinations*: pairwise coverage of all builder options (read off the current signature), each with inputs
    #          that exercise both options, and the self-consistency relations between all surviving keys
    for cfg, k in pairwise_configs(ctx, ctx.budget(26, 400) * (3 if deep else 1)):
        ctx.count(("oracle-pair", tuple(flag_list(cfg["flags"])), tuple(k.shape), cfg["seed"]), True,
                  bucket="oracle/pairwise/" + str(min(len(cfg["pair"]), 9)) + "-options-on")
        yield from _guarded(check_config(cfg, k), {"op": "pipeline", **cfg})
    # (i-co) coincidence classes of axis lengths for crop / pad / rescale, 2-D and 3-D: the crop-shape statement (`crop_shape`,
    #         `shape_tags` in Lean are about tags; here the real shapes) is checked on the implementation for each class
    for i in range(ctx.budget(27, 270) * (3 if deep else 1)):
        cls = COINCIDENCES[i % len(COINCIDENCES)]
        cfg, k = coincidence_config(rng, cls)
        ctx.count(("oracle-coincidence", cls, tuple(flag_list(cfg["flags"])), tuple(k.shape), cfg["seed"]), True,
                  bucket="oracle/coincidence/" + cls + ("/3d" if k.ndim == 4 else "/2d"))
        yield from _guarded(check_config(cfg, k), {"op": "pipeline", **cfg})
    # (i-list) list-valued options: several split ratios, several accelerations / centre fractions
    for i in range(ctx.budget(8, 120) * (3 if deep else 1)):
        f = {**random_flags(rng, valid_only=True), "ssl": 1 if i % 4 != 3 else 0, "split": (1, 0, 1, 2)[i % 4], "compress_coils": 0}
        if not f["ssl"]:
            f["keep_acs"] = 0
        elif f["keep_acs"]:
            f["estimate_smaps"] = 1
        if f["crop"] == 2:
            f["crop"] = 1
        nc, h, w = rng.choice([1, 2, 3]), rng.choice([8, 9, 10, 12]), rng.choice([10, 12, 15])
        seed = rng.randrange(2 ** 31)
        cfg = {"flags": f, "shape": [nc, h, w], "crop_shape": [rng.randint(4, h - 1), rng.randint(6, w - 1)], "seed": seed, "border": 0,
               "zero_coil": False, "centered": rng.random() < 0.7, "pad_to": nc + 1, "percentile": 0.9,
               "ratio": [0.2, 0.4, 0.6], "mask": "multi"}
        ctx.count(("oracle-list", tuple(flag_list(f)), seed), True, bucket="oracle/list-valued/" + ("ssl-" + SPLIT[f["split"]] if f["ssl"] else "sup"))
        yield from _guarded(check_config(cfg, _gauss_sample(seed, nc, 0, h, w, 0, False)), {"op": "pipeline", **cfg})
    # (o') the standing determinism check across processes: one second interpreter per run, a handful of configurations
    xc = xproc_configs(rng)
    for c in xc:
        ctx.count(("xproc", tuple(flag_list(c["flags"])), c["seed"], c["name"]), True, bucket="oracle/cross-process")
    yield from _guarded(check_cross_process(xc), {"op": "cross_process", "configs": len(xc)})
    # (viii) call histories on one transform object (no state kept across calls), raw input left untouched, input forms
    for i in range(ctx.budget(6, 60) * (3 if deep else 1)):
        f = {**random_flags(rng, valid_only=True), "delete_kspace": rng.choice([0, 1])}
        fam = "prepost" if i % 3 == 2 else "single"
        if fam == "prepost":
            f.update(ssl=0, keep_acs=0, compress_coils=0)
        cfg = {"family": fam, "flags": f, "seed": rng.randrange(2 ** 31), "shape": [rng.choice([1, 2, 3]), rng.choice([8, 9, 10]), rng.choice([8, 10, 11])],
               "crop_shape": [rng.randint(3, 7), rng.randint(3, 7)], "centered": rng.random() < 0.7, "percentile": rng.choice([0.99, 0.9]),
               "pad_to": 4}
        if f["crop"] == 2:
            f["crop"] = 1
        if fam == "single" and i % 3 == 1:
            f.update(compress_coils=1, pad_coils=0, smap_type=1)
            cfg["shape"][0] = 3
            cfg["compress_to"] = rng.choice([1, 2])
        if i == 0 or deep:
            f["padding_eps"] = 1
        ctx.count(("history", fam, tuple(flag_list(f)), cfg["seed"], tuple(cfg["shape"])), True, bucket="oracle/history/" + fam)
        yield from _guarded(check_history(cfg), {"op": "history", **cfg})
    # (ix) the builders' default arguments denote the default configuration (only operators and the mask function given)
    for fam in ("single", "supervised", "prepost"):
        for _ in range(ctx.budget(1, 12)):
            cfg = {"family": fam, "seed": rng.randrange(2 ** 31), "shape": [rng.choice([1, 3]), rng.choice([8, 10, 11]), rng.choice([16, 20, 23])],
                   "name": "def_%d.h5" % rng.randrange(1000)}
            ctx.count(("defaults", fam, cfg["seed"], tuple(cfg["shape"])), True, bucket="oracle/defaults/" + fam)
            yield from _guarded(check_defaults(cfg), {"op": "defaults", **cfg})
    # (x) samples that already contain masks (no mask function) or a sensitivity map
    for i in range(ctx.budget(8, 100)):
        f = {**random_flags(rng, valid_only=True), "delete_kspace": 0, "body_coil": 0, "compress_coils": 0}
        scen = "A" if i % 2 == 0 else "B"
        if scen == "A":
            f["mask_func"] = 0
        else:
            f.update(crop=0, pad_coils=0)
            if rng.random() < 0.6:
                f.update(estimate_smaps=0, keep_acs=0)
        if f["crop"] == 2:
            f["crop"] = 1
        cfg = {"flags": f, "scenario": scen, "seed": rng.randrange(2 ** 31), "shape": [rng.choice([1, 2, 4]), rng.choice([8, 9, 10]), rng.choice([8, 10, 11])],
               "crop_shape": [rng.randint(3, 7), rng.randint(3, 7)], "centered": rng.random() < 0.7, "percentile": rng.choice([0.99, 0.9]),
               "pad_to": 5}
        ctx.count(("given", scen, tuple(flag_list(f)), cfg["seed"], tuple(cfg["shape"])), True, bucket="oracle/given/" + scen)
        yield from _guarded(check_given(cfg), {"op": "given", **cfg})
    # (xi) the coil selection of the percentile scaling (repaired finding, `fixed:` — quiet now): the two recorded repros and
    #      random instances of the three situations
    fixed_cs = [{"case": "pad-uncentred-single-coil", "seed": 1612761905, "shape": [8, 10], "pad_shape": [11, 11], "scaling_key": 1},
                {"case": "pad-uncentred-two-coils", "seed": 378735690, "shape": [6, 7], "pad_shape": [7, 8], "scaling_key": 0},
                {"case": "recorded-two-coils", "seed": 378735690},
                {"case": "cancelling-coil", "seed": 1, "coils": 1, "scaling_key": 0}, {"case": "cancelling-coil", "seed": 2, "coils": 3, "scaling_key": 1}]
    for i in range(ctx.budget(6, 60) * (3 if deep else 1)):
        h, w = rng.choice([6, 8, 9]), rng.choice([7, 8, 10])
        fixed_cs.append({"case": COIL_SELECTION_CASES[1 + i % 2], "seed": rng.randrange(2 ** 31), "shape": [h, w],
                         "pad_shape": [h + rng.choice([1, 2, 3]), w + rng.choice([0, 1, 3])], "scaling_key": rng.choice([0, 1])})
    for cfg in fixed_cs:
        ctx.count(("coil-selection", cfg["case"], cfg["seed"], tuple(cfg.get("shape", ()))), True, bucket="oracle/coil-selection/" + cfg["case"])
        yield from _guarded(check_coil_selection(cfg), {"op": "coil_selection", **cfg})
    # (i') extreme power-of-two scales (k-space magnitudes far below float32 eps / far above 1): nothing in the pipeline
    #      may compare against an absolute constant (a clamp of the scaling factor, an absolute threshold, ...)
    for sk, pct, ssl in itertools.product((0, 1), (0, 1), (0, 1)):
        if ssl and (sk, pct) not in ((0, 1), (1, 0)):
            continue
        for _ in range(ctx.budget(1, 6)):
            f = {**default_flags(), "scaling_key": sk, "percentile": pct, "ssl": ssl, "delete_kspace": 0,
                 "recon": rng.randrange(6), "smap_type": rng.choice([1, 2]), "padding_eps": rng.choice([0, 1])}
            cfg = {"flags": f, "seed": rng.randrange(2 ** 31), "shape": [rng.choice([1, 3]), rng.choice([8, 9, 10]), rng.choice([8, 11])],
                   "percentile": rng.choice([0.99, 0.9]), "centered": rng.random() < 0.7}
            ctx.count(("ladder", tuple(flag_list(f)), cfg["seed"], tuple(cfg["shape"])), True, bucket="oracle/scale-ladder")
            yield from _guarded(check_scale_ladder(cfg), {"op": "scale_ladder", **cfg})
    # (i'') fully sampled masks (acceleration 1) and all-zero masks: scale ladder, stage-by-stage aliasing / in-place
    #       checks on the real modules, and masked_kspace × scaling_factor == apply_mask(raw k-space)
    for mask, sk, pct, ssl in itertools.product(("full", "zero", "random"), (0, 1), (0, 1), (0, 1)):
        if mask == "zero" and (pct or ssl):
            continue            # percentile of an identically zero masked k-space raises (documented observation)
        for _ in range(ctx.budget(1, 4)):
            f = {**default_flags(), "scaling_key": sk, "percentile": pct, "ssl": ssl, "delete_kspace": 0,
                 "recon": rng.randrange(6), "smap_type": rng.choice([1, 2]), "padding_eps": rng.choice([0, 1]),
                 "delete_acs": rng.choice([0, 1])}
            cfg = {"flags": f, "seed": rng.randrange(2 ** 31), "shape": [rng.choice([1, 3]), rng.choice([6, 8, 9]), rng.choice([6, 8, 11])],
                   "percentile": rng.choice([0.99, 0.9]), "centered": rng.random() < 0.7, "mask": mask}
            ctx.count(("mask-kind", mask, tuple(flag_list(f)), cfg["seed"], tuple(cfg["shape"])), True, bucket="oracle/mask-" + mask)
            if not (mask == "zero" and sk == 0):
                yield from _guarded(check_scale_ladder(cfg), {"op": "scale_ladder", **cfg})
            yield from _guarded(check_stagewise(cfg), {"op": "stagewise", **cfg})
    # (v') a scaling factor of exactly zero (empty slice, or signal only where the mask does not sample): the safe
    #      division must leave every output finite (zero), never NaN/Inf
    for sk, mode in ((0, "all-zero"), (1, "all-zero"), (0, "unsampled")):
        for ssl in (0, 1):
            for _ in range(ctx.budget(1, 5)):
                f = {**default_flags(), "scaling_key": sk, "percentile": 0, "ssl": ssl, "delete_kspace": 0,
                     "padding_eps": rng.choice([0, 1]) if mode == "all-zero" else 0, "recon": rng.randrange(6),
                     "smap_type": rng.choice([1, 2])}
                cfg = {"flags": f, "seed": rng.randrange(2 ** 31), "shape": [rng.choice([1, 3]), rng.choice([8, 10]), rng.choice([12, 16, 17])],
                       "mode": mode, "centered": rng.random() < 0.7}
                ctx.count(("zero-sf", tuple(flag_list(f)), cfg["seed"], tuple(cfg["shape"]), mode), True,
                          bucket="oracle/zero-scaling-factor/" + mode)
                yield from _guarded(check_zero_sf(cfg), {"op": "zero_scaling_factor", **cfg})
    # (vi') random crop seeded by the file name: all slices of a file are cropped at the same offset
    for _ in range(ctx.budget(6, 40)):
        cfg = {"seed": rng.randrange(2 ** 31), "name": "vol_%d.h5" % rng.randrange(1000),
               "shape": [rng.choice([1, 2]), rng.choice([0, 0, 3]), rng.choice([9, 12, 13]), rng.choice([10, 14, 15])],
               "crop": [rng.randint(3, 8), rng.randint(3, 9)], "sampler": rng.choice(["uniform", "gaussian"])}
        ctx.count(("samecrop", cfg["seed"], cfg["name"], tuple(cfg["shape"]), tuple(cfg["crop"])), True, bucket="oracle/same-filename-crop")
        yield from _guarded(check_same_crop(cfg), {"op": "same_crop", **cfg})
    # (vii) ModuleWrapper(toggle_dims=True): the wrapped module on an un-batched sample == element 0 of `forward` on a
    #       batch of two copies (and of one), for every wrapped module class
    for _ in range(ctx.budget(3, 20)):
        cfg = {"seed": rng.randrange(2 ** 31), "shape": [rng.choice([2, 3, 4]), rng.choice([0, 0, 2]), rng.choice([6, 7, 8]), rng.choice([8, 9])]}
        for name in WRAPPED:
            c2 = {**cfg, "module": name}
            ctx.count(("wrapper", name, cfg["seed"], tuple(cfg["shape"])), True, bucket="oracle/module-wrapper/" + name.split("/")[0])
            yield from _guarded(check_wrapper(c2), {"op": "wrapper", **c2})
    # (vi) one mask per file name — also across different k-space values and slice numbers
    for f in (default_flags(), {**default_flags(), "ssl": 1, "delete_kspace": 0}, {**default_flags(), "crop": 1, "padding_eps": 0}):
        for _ in range(ctx.budget(6, 40)):
            seed = rng.randrange(2 ** 31)
            name = "file_%d.h5" % rng.randrange(1000)
            nc, h, w = rng.choice([1, 3]), rng.choice([8, 10, 11]), rng.choice([16, 20, 23])
            ctx.count(("samefile", tuple(flag_list(f)), name, h, w), True, bucket="oracle/same-filename")
            sf_cfg = {"flags": f, "seed": seed, "name": name, "shape": [nc, h, w]}
            yield from _guarded(check_same_filename(sf_cfg), {"op": "same_filename", **sf_cfg})


def _build_for(cfg, mask_func=None):
    """the real transform of a recorded configuration (`family`: single = build_mri_transforms, prepost = the
    pre-/post-transform pair with a batch-of-one collate in between)"""
    fwd, bwd = _ops(cfg.get("centered", True))
    mf = mask_func or mask_func_of(cfg.get("mask", "random"))
    if not cfg["flags"].get("use_seed", 1):
        # `use_seed=False` hands `seed=None` to the mask function, which then re-seeds its RNG from the OS: substitute a fixed
        # seed for `None` so that two runs of the pipeline can be compared (the branch of the pipeline is the unseeded one)
        mf = _FixedWhenUnseeded(mf, cfg.get("seed", 0) % 9973)
        np.random.seed(cfg.get("seed", 0) % (2 ** 31))
    kw = dict(crop_shape=tuple(cfg.get("crop_shape", (4, 4))), percentile=cfg.get("percentile", 0.99), pad_to=cfg.get("pad_to"),
              pad_shape=cfg.get("pad_shape"), rescale_shape=cfg.get("rescale_shape"))
    if cfg.get("family") == "prepost":
        return PrePost(*build_prepost_real(cfg["flags"], mf, fwd, bwd, **kw))
    return build_real(cfg["flags"], mf, fwd, bwd, compress_to=cfg.get("compress_to"), ratio=cfg.get("ratio", 0.4), **kw)


STALE = ("target", "masked_kspace", "scaling_factor")


def add_stale(sample: dict, shape) -> dict:
    """entries a previous pass / a dataset may have left in the raw sample and that the pipeline (re)computes"""
    sp = tuple(shape[1:])
    sample["target"] = np.full(sp, 7.0, dtype=np.float32)
    sample["masked_kspace"] = np.full(tuple(shape) + (2,), 5.0, dtype=np.float32)
    sample["scaling_factor"] = 3.0
    return sample


PER_COIL = ("kspace", "masked_kspace", "input_kspace", "sensitivity_map")
MASKS = ("sampling_mask", "acs_mask", "padding", "input_sampling_mask", "target_sampling_mask")


def check_relations(out: dict, f: dict, three_d: bool, rep: dict, tag=""):
    """Self-consistency between ALL surviving tensor entries of one output sample, shapes first: every per-coil entry
    (fully sampled / masked / input k-space, sensitivity map) has one and the same shape; masks have the spatial shape of the
    k-space and singleton axes elsewhere; the target has the spatial shape (and the coil axis only for `ifft`); the masked
    k-space vanishes outside the sampling mask and equals the k-space inside; zero coils of the k-space are zero coils of
    the masked k-space and of the map."""
    t = {str.__str__(kk): v for kk, v in out.items() if isinstance(v, torch.Tensor)}
    coil = [(kk, t[kk]) for kk in PER_COIL if kk in t]
    if not coil:
        return
    ref_key, ref = coil[0]
    for kk, v in coil[1:]:
        if tuple(v.shape) != tuple(ref.shape):
            yield Violation("outputs-inconsistent-shape-" + kk, f"{tag}`{kk}` has shape {tuple(v.shape)} but `{ref_key}` has {tuple(ref.shape)}",
                            {**rep, "keys": [ref_key, kk], "shapes": [list(ref.shape), list(v.shape)]})
            return
    sp = tuple(ref.shape[-3:-1])
    lead = tuple(ref.shape[1:-3])          # slice axis of a 3-D sample
    for kk in MASKS:
        if kk in t:
            m = t[kk]
            if tuple(m.shape[-3:-1]) != sp or m.shape[-1] != 1 or any(n not in (1,) + lead for n in m.shape[:-3]):
                yield Violation("outputs-inconsistent-shape-" + kk, f"{tag}`{kk}` has shape {tuple(m.shape)} but `{ref_key}` has {tuple(ref.shape)}",
                                {**rep, "keys": [ref_key, kk], "shapes": [list(ref.shape), list(m.shape)]})
                return
    if "target" in t:
        r = RECON[f["recon"]]
        want = {"ifft": tuple(ref.shape), "complex": lead + sp + (2,), "sense": lead + sp + (2,)}.get(r, lead + sp)
        if tuple(t["target"].shape) != want:
            yield Violation("outputs-inconsistent-shape-target", f"{tag}`target` has shape {tuple(t['target'].shape)}, `{ref_key}` "
                            f"{tuple(ref.shape)} and reconstruction `{r}` give {want}", {**rep, "expected": list(want)})
    if "body_coil_image" in t and tuple(t["body_coil_image"].shape) != lead + sp:
        yield Violation("outputs-inconsistent-shape-body_coil_image", f"{tag}`body_coil_image` has shape {tuple(t['body_coil_image'].shape)}, "
                        f"expected {lead + sp}", rep)
    for mk, kk in (("sampling_mask", "masked_kspace"), ("input_sampling_mask", "input_kspace")):
        if mk in t and kk in t and bool((t[kk] * (~t[mk])).abs().max() > 0):
            yield Violation("masked-nonzero-outside-mask", f"{tag}`{kk}` is not zero outside `{mk}`", rep)
    if "kspace" in t and "masked_kspace" in t and "sampling_mask" in t:
        if not torch.equal(t["masked_kspace"], t["kspace"] * t["sampling_mask"]):
            yield Violation("masked-not-mask-of-normalised", f"{tag}masked_kspace != sampling_mask x kspace (max diff "
                            f"{_maxdiff(t['masked_kspace'], t['kspace'] * t['sampling_mask'])})", rep)
    if "sensitivity_map" in t and "masked_kspace" in t:
        zero_coils = t["masked_kspace"].reshape(ref.shape[0], -1).abs().sum(1) == 0
        full_zero = (t["kspace"].reshape(ref.shape[0], -1).abs().sum(1) == 0) if "kspace" in t and not f["ssl"] else None
        if full_zero is not None and bool((full_zero & ~zero_coils).any()):
            yield Violation("outputs-inconsistent-zero-coils", f"{tag}a coil that is zero in `kspace` is not zero in `masked_kspace`", rep)


def check_config(cfg, k: np.ndarray):
    import direct.data.transforms as T
    from direct.data.mri_transforms import ComputeImage
    from direct.types import KspaceKey, TransformKey

    f = cfg["flags"]
    fl = "".join(str(v) for v in flag_list(f))
    three_d = k.ndim == 4
    crop_shape = tuple(cfg["crop_shape"])
    rs = (((k.shape[1],) if three_d else ()) + crop_shape) if f["crop"] == 2 else None

    def run(scale, slice_no=0, keep_kspace=False, stale=False):
        ff = dict(f)
        if keep_kspace:
            ff["delete_kspace"] = 0
        tr = _build_for({**cfg, "flags": ff})
        smp = raw_sample((k * np.float32(scale)).astype(np.complex64), slice_no=slice_no, crop_shape=rs)
        if stale:
            add_stale(smp, k.shape)
        return run_real(tr, smp)

    rep = {"op": "pipeline", **cfg}
    try:
        base = run(1.0)
    except Exception as e:  # noqa: BLE001
        yield Violation("pipeline-raises", f"the composed transform raises {err_name(e)}: {e}", {**rep, "observed": repr(e)})
        return
    # (v) finiteness
    for kk in _tensor_keys(base):
        if not torch.isfinite(base[kk].float()).all():
            yield Violation("nonfinite-" + kk, f"output `{kk}` contains NaN/Inf", {**rep, "key": kk})
    for kk in ["target", "scaling_factor"] + (["input_kspace", "kspace"] if f["ssl"] else ["masked_kspace"]):
        if kk not in base:
            yield Violation("missing-output-" + kk, f"the output lacks `{kk}`", {**rep, "missing": [kk]})
            return
    yield from check_relations(base, f, three_d, rep)
    # (o) standing check: with seeding, the same sample twice through ONE pipeline object is bit-identical (every draw of the
    #     mask function / the splitters — also the choice among several ratios / accelerations — is inside the seeded region)
    if f["use_seed"]:
        tr1 = _build_for(cfg)
        first = run_real(tr1, raw_sample(k.copy(), crop_shape=rs))
        np.random.seed((cfg["seed"] + 17) % (2 ** 31))          # the global generators move on between two calls of a data loader
        torch.manual_seed(cfg["seed"] % (2 ** 31))
        again = run_real(tr1, raw_sample(k.copy(), crop_shape=rs))
        yield from _same_outputs(first, again, "the same sample a second time through the same pipeline object", rep, "not-deterministic")
        yield from _same_outputs(base, first, "the same sample through two pipeline objects built alike", rep, "not-deterministic")
    # (i) scaling by 2^k bit-exact, arbitrary positive reals to 1e-4
    for kpow in (-14, 1, 12):
        sc = 2.0 ** kpow
        try:
            o = run(sc)
        except Exception as e:  # noqa: BLE001
            yield Violation("scaled-raises", f"the transform raises on the scaled input: {e}", {**rep, "scale": sc})
            continue
        for kk in NORMALISED:
            if (kk in base) != (kk in o):
                yield Violation("equivariance-keys", f"key `{kk}` present for one scale only", {**rep, "scale": sc, "key": kk})
            elif kk in base and isinstance(base[kk], torch.Tensor) and not torch.equal(base[kk], o[kk]):
                d = (base[kk].float() - o[kk].float()).abs().max().item() if base[kk].shape == o[kk].shape else "shape"
                yield Violation("equivariance-pow2-" + kk, f"`{kk}` changes under scaling by {sc} (max diff {d})",
                                {**rep, "scale": sc, "key": kk, "max_abs_diff": d})
        s0, s1 = float(base["scaling_factor"]), float(o["scaling_factor"])
        if s1 != s0 * sc:
            yield Violation("scaling-factor-pow2", f"scaling_factor {s0} -> {s1} under scale {sc}",
                            {**rep, "scale": sc, "expected": s0 * sc, "observed": s1})
    sc = 0.37 + (cfg["seed"] % 1000) / 97.0
    try:
        o = run(sc)
    except Exception as e:  # noqa: BLE001
        yield Violation("scaled-raises", f"the transform raises on the scaled input: {e}", {**rep, "scale": sc})
        return
    # with PadKspace the zero-padded image rows carry only FFT rounding noise, which EstimateSensitivityMap normalises to unit
    # magnitude (the safe division guards exact zeros only): the map — and a SENSE target — is not stable under a
    # non-dyadic scale there (recorded observation); bit-exactness under 2^k is still required above
    unstable = {"sensitivity_map"} | ({"target"} if f["recon"] >= 4 else set()) if f["pad"] else set()
    # the sensitivity map is a quotient by the local signal: at the few pixels where the ACS image nearly vanishes (two ACS
    # columns beat against each other, a single compressed coil, …) rounding is amplified without bound.  Under a non-dyadic
    # scale it is therefore judged on all but 2 % of its entries (a real defect moves all of them); 2^k stays bit-exact.
    illcond = {"sensitivity_map"} | ({"target"} if f["recon"] >= 4 else set())
    for kk in NORMALISED:
        if kk in unstable:
            continue
        if kk in illcond and kk in base and kk in o and isinstance(base[kk], torch.Tensor) and base[kk].shape == o[kk].shape:
            dd = (base[kk].double() - o[kk].double()).abs()
            scale_ = max(float(base[kk].abs().max()), 1e-30)
            if float((dd > 1e-3 * scale_).double().mean()) <= 0.02:
                continue
        if kk in base and isinstance(base[kk], torch.Tensor):
            if kk not in o or base[kk].shape != o[kk].shape or not _close(base[kk], o[kk], 1e-4):
                yield Violation("equivariance-real-" + kk, f"`{kk}` changes under scaling by {sc}",
                                {**rep, "scale": sc, "key": kk})
    s0, s1 = float(base["scaling_factor"]), float(o["scaling_factor"])
    if not abs(s1 - s0 * sc) <= 1e-4 * abs(s0 * sc):
        yield Violation("scaling-factor-real", f"scaling_factor {s0} -> {s1} under scale {sc}",
                        {**rep, "scale": sc, "expected": s0 * sc, "observed": s1})
    # (ii)/(iii) self-consistency, with the normalised fully sampled k-space kept in the sample
    full = run(1.0, keep_kspace=True)
    _, bwd = _ops(cfg.get("centered", True))
    need = ["target", "scaling_factor", "kspace"] + (
        ["input_kspace", "input_sampling_mask", "target_sampling_mask"] if f["ssl"] else ["masked_kspace", "sampling_mask"])
    missing = [kk for kk in need if kk not in full]
    if missing:
        yield Violation("missing-output-" + missing[0], f"with delete_kspace=False the output lacks {missing}",
                        {**rep, "missing": missing})
        return
    shape_bad = list(check_relations(full, f, three_d, rep, tag="with delete_kspace=False: "))
    if shape_bad:
        yield from shape_bad
        return
    if not f["ssl"]:
        kn = full["kspace"]
        exp_masked, _ = T.apply_mask(kn, full["sampling_mask"])
        if not torch.equal(full["masked_kspace"], exp_masked):
            d = _maxdiff(full["masked_kspace"], exp_masked)
            yield Violation("masked-not-mask-of-normalised", f"masked_kspace != apply_mask(kspace, sampling_mask) (max diff {d})",
                            {**rep, "max_abs_diff": d})
        if not f["delete_kspace"] is None and "masked_kspace" in base and not torch.equal(base["masked_kspace"], full["masked_kspace"]):
            yield Violation("delete-kspace-changes-output", "masked_kspace depends on delete_kspace", rep)
        smp = {"kspace": kn.clone(), "filename": "f", "slice_no": 0}
        if "sensitivity_map" in full:
            smp["sensitivity_map"] = full["sensitivity_map"].clone()
        exp_t = ComputeImage(kspace_key=KspaceKey.KSPACE, target_key=TransformKey.TARGET, backward_operator=bwd,
                             type_reconstruction=RECON[f["recon"]])(smp)["target"]
        if full["target"].shape != exp_t.shape or not _close(full["target"], exp_t, 1e-5):
            yield Violation("target-not-recon-of-normalised", "target != ComputeImage(normalised k-space)", rep)
        if not torch.allclose(base["target"], full["target"], rtol=0, atol=0):
            yield Violation("delete-kspace-changes-output", "target depends on delete_kspace", rep)
    else:
        # the masked normalised k-space, reassembled from the two splits (they may share the ACS region)
        mk = torch.where(full["input_sampling_mask"], full["input_kspace"], full["kspace"])
        for side in ("input", "target"):
            got = full["input_kspace" if side == "input" else "kspace"]
            exp, _ = T.apply_mask(mk, full[side + "_sampling_mask"])
            if not torch.equal(got, exp):
                yield Violation("ssl-split-not-mask-of-kspace", f"{side} k-space != apply_mask(masked k-space, {side} mask)", rep)
        if (full["input_sampling_mask"] & full["target_sampling_mask"]).any() and not f["keep_acs"]:
            yield Violation("ssl-split-overlap", "input and target masks overlap although keep_acs is off", rep)
        smp = {"kspace": full["kspace"].clone(), "filename": "f", "slice_no": 0}
        if "sensitivity_map" in full:
            smp["sensitivity_map"] = full["sensitivity_map"].clone()
        exp_t = ComputeImage(kspace_key=KspaceKey.KSPACE, target_key=TransformKey.TARGET, backward_operator=bwd,
                             type_reconstruction=RECON[f["recon"]])(smp)["target"]
        if full["target"].shape != exp_t.shape or not _close(full["target"], exp_t, 1e-5):
            yield Violation("target-not-recon-of-normalised", "SSL target != ComputeImage(output k-space)", rep)
    # (vi'') entries left in the raw sample that the pipeline recomputes (`target`, `masked_kspace`, `scaling_factor`) must not
    #        change anything
    if cfg.get("stale") and f["scaling_key"] in (0, 1):
        try:
            st = run(1.0, stale=True)
        except Exception as e:  # noqa: BLE001
            yield Violation("stale-keys-raise", f"a raw sample that already contains {STALE} makes the transform raise: {e}", rep)
            st = None
        if st is not None:
            for kk in _tensor_keys(base):
                if kk not in st or not isinstance(st[kk], torch.Tensor) or st[kk].shape != base[kk].shape or not torch.equal(st[kk], base[kk]):
                    yield Violation("stale-keys-change-" + kk, f"`{kk}` differs when the raw sample already contains {STALE}",
                                    {**rep, "key": kk})
    # (iii') the pre/post pair computes the target from the un-normalised k-space and divides afterwards
    # (not for a 3-D sample with a tuple crop: CreateSamplingMask then builds rank-4 masks for the 2-D crop shape while the
    #  k-space has rank 5 — harmless on an un-batched sample, where broadcasting aligns from the right, but after a collate
    #  the masks' batch axis meets the coil axis; recorded observation)
    if cfg.get("family") == "prepost" and float(full["scaling_factor"]) > 0 and not (three_d and f["crop"] == 1):
        pre, post = build_prepost_real({**f, "delete_kspace": 0}, mask_func_of(cfg.get("mask", "random")), *_ops(cfg.get("centered", True)),
                                       crop_shape=crop_shape, percentile=cfg.get("percentile", 0.99), pad_to=cfg.get("pad_to"),
                                       pad_shape=cfg.get("pad_shape"), rescale_shape=cfg.get("rescale_shape"))
        # batch of two different samples through the post-transform: element 0 must be the un-batched result
        s0 = run_real(pre, raw_sample(k.copy(), crop_shape=rs))
        s1 = run_real(pre, raw_sample((k[::-1] * np.float32(3.0)).astype(np.complex64).copy(), filename="file_b.h5", crop_shape=rs))
        try:
            both = run_real(post, collate([s0, s1]))
        except Exception as e:  # noqa: BLE001
            yield Violation("prepost-batch-raises", f"the post-transform raises on a batch of two: {e}", rep)
            both = None
        if both is not None:
            e0 = uncollate(both, 0)
            for kk in _tensor_keys(full):
                if kk not in e0 or e0[kk].shape != full[kk].shape or not (
                        torch.equal(e0[kk], full[kk]) if full[kk].dtype == torch.bool else _close(e0[kk], full[kk], 1e-6)):
                    yield Violation("prepost-batch-" + kk, f"`{kk}` of element 0 of a batch of two differs from the un-batched result",
                                    {**rep, "key": kk})
    # (iv') pad / rescale: the requested spatial size
    for flag, key in (("pad", "pad_shape"), ("rescale", "rescale_shape")):
        if f[flag] and cfg.get(key) and not (flag == "rescale" and f["pad"]):
            want = tuple(cfg[key])
            for kk in ("masked_kspace", "input_kspace", "sensitivity_map"):
                if kk in base and tuple(base[kk].shape[-3:-1]) != want[-2:]:
                    yield Violation("crop-shape-" + kk, f"`{kk}` has spatial shape {tuple(base[kk].shape[-3:-1])}, requested {flag} gives {want}",
                                    {**rep, "key": kk, "expected": list(want), "observed": list(base[kk].shape)})
    # (iv) crop shapes
    if f["crop"] and not f["pad"] and not f["rescale"]:
        sp = crop_shape
        nc_out = base["masked_kspace"].shape[0] if "masked_kspace" in base else base["input_kspace"].shape[0]
        lead = (k.shape[1],) if three_d else ()
        exp_shapes = {"masked_kspace": (nc_out,) + lead + sp + (2,), "input_kspace": (nc_out,) + lead + sp + (2,),
                      "kspace": (nc_out,) + lead + sp + (2,), "sensitivity_map": (nc_out,) + lead + sp + (2,),
                      "sampling_mask": (1,) + (1,) * len(lead) + sp + (1,),
                      "input_sampling_mask": (1,) + (1,) * len(lead) + sp + (1,),
                      "target_sampling_mask": (1,) + (1,) * len(lead) + sp + (1,)}
        r = RECON[f["recon"]]
        exp_shapes["target"] = {"ifft": (nc_out,) + lead + sp + (2,), "complex": lead + sp + (2,), "sense": lead + sp + (2,)}.get(
            r, lead + sp)
        for kk, es in exp_shapes.items():
            if kk in base and kk.endswith("sampling_mask"):
                # masks: (1, [1,] h, w, 1) — the number of leading singleton axes is the splitter's business
                got = tuple(base[kk].shape)
                ok = got[-3:] == sp + (1,) and all(n == 1 for n in got[:-3])
            else:
                ok = kk not in base or tuple(base[kk].shape) == tuple(es)
            if not ok:
                yield Violation("crop-shape-" + kk, f"`{kk}` has shape {tuple(base[kk].shape)}, requested crop gives {es}",
                                {**rep, "key": kk, "expected": list(es), "observed": list(base[kk].shape)})


def _int_sample(seed, nc, h, w):
    """integer-valued complex data, |re|,|im| ≤ 64, no zero entries"""
    g = np.random.RandomState(seed)
    re = g.randint(1, 65, size=(nc, h, w)) * g.choice([-1, 1], size=(nc, h, w))
    im = g.randint(1, 65, size=(nc, h, w)) * g.choice([-1, 1], size=(nc, h, w))
    k = (re + 1j * im).astype(np.complex64)
    # no subset of columns of a coil may sum to exactly zero (`ComputeScalingFactor` drops coils whose entries sum to zero and
    # raises IndexError when none is left — the documented precondition, modelled by `runE`): make the column sums of
    # re + im positive by flipping the sign of whole columns
    cs = (k.real + k.imag).sum(axis=-2, keepdims=True)
    return (k * np.where(cs < 0, -1, 1) + (cs == 0) * np.float32(1.0)).astype(np.complex64)


LADDER = (-40, -30, -24, 30, 40)


def check_scale_ladder(cfg):
    f = cfg["flags"]
    nc, h, w = cfg["shape"]
    k = _int_sample(cfg["seed"], nc, h, w)
    rep = {"op": "scale_ladder", **cfg}

    def run(scale):
        return run_real(_build_for(cfg), raw_sample((k * np.float32(scale)).astype(np.complex64)))

    try:
        base = run(1.0)
    except Exception as e:  # noqa: BLE001
        yield Violation("pipeline-raises", f"the composed transform raises {e}", {**rep, "observed": repr(e)})
        return
    for kpow in LADDER:
        sc = 2.0 ** kpow
        try:
            o = run(sc)
        except Exception as e:  # noqa: BLE001
            yield Violation("scaled-raises", f"the transform raises on the input scaled by 2^{kpow}: {e}", {**rep, "kpow": kpow})
            continue
        for kk in _tensor_keys(o):
            if not torch.isfinite(o[kk].float()).all():
                yield Violation("nonfinite-" + kk, f"`{kk}` contains NaN/Inf for the input scaled by 2^{kpow}", {**rep, "kpow": kpow})
        for kk in NORMALISED:
            if kk in base and isinstance(base[kk], torch.Tensor) and (kk not in o or not torch.equal(base[kk], o[kk])):
                d = (base[kk].float() - o[kk].float()).abs().max().item() if kk in o and base[kk].shape == o[kk].shape else "shape"
                yield Violation("equivariance-pow2-" + kk, f"`{kk}` changes under scaling by 2^{kpow} (max diff {d})",
                                {**rep, "kpow": kpow, "key": kk, "max_abs_diff": d})
        s0, s1 = float(base["scaling_factor"]), float(o["scaling_factor"])
        if s1 != s0 * sc:
            yield Violation("scaling-factor-pow2", f"scaling_factor {s0} -> {s1} under scale 2^{kpow} (expected {s0 * sc})",
                            {**rep, "kpow": kpow, "expected": s0 * sc, "observed": s1})


def _storage(t: torch.Tensor) -> int:
    return t.untyped_storage().data_ptr()


def check_stagewise(cfg):
    """Run the stages of the real composed transform one at a time.  After every stage: (a) no two distinct keys share
    storage (the code documents no aliasing between sample entries); (b) a tensor that stays stored under a key the
    stage does not rewrite keeps its values (no in-place modification of another entry).  At the end:
    masked_kspace × scaling_factor == apply_mask(raw k-space, sampling_mask) and kspace × scaling_factor == raw k-space."""
    import direct.data.transforms as T

    f = cfg["flags"]
    nc, h, w = cfg["shape"]
    k = _int_sample(cfg["seed"], nc, h, w)
    rep = {"op": "stagewise", **cfg}
    tr = _build_for(cfg)
    sample = raw_sample(k)
    raw = None
    for idx, st in enumerate(tr.transforms):
        mod = getattr(st, "_transform", st)
        name = type(mod).__name__
        before = {str.__str__(kk): (id(v), v.clone()) for kk, v in sample.items() if isinstance(v, torch.Tensor)}
        sample = run_real(st, sample)
        own = set(str.__str__(x) for x in getattr(mod, "keys_to_normalize", [])) if name == "NormalizeModule" else set()
        tensors = {str.__str__(kk): v for kk, v in sample.items() if isinstance(v, torch.Tensor)}
        for kk, v in tensors.items():
            if kk in before and before[kk][0] == id(v) and kk not in own and not torch.equal(before[kk][1], v):
                yield Violation("inplace-modification-" + kk, f"stage {idx} ({name}) modifies the tensor stored under `{kk}` in place",
                                {**rep, "stage": name, "key": kk})
        seen: dict[int, str] = {}
        for kk, v in tensors.items():
            if v.numel() == 0:
                continue
            p = _storage(v)
            if p in seen:
                yield Violation("aliased-outputs", f"after stage {idx} ({name}) `{seen[p]}` and `{kk}` share storage",
                                {**rep, "stage": name, "keys": [seen[p], kk]})
            seen[p] = kk
        if name == "ToTensor":
            raw = sample["kspace"].clone()
    out = sample
    for kk in _tensor_keys(out):
        if not torch.isfinite(out[kk].float()).all():
            yield Violation("nonfinite-" + kk, f"`{kk}` contains NaN/Inf (mask kind {cfg.get('mask')})", {**rep, "key": kk})
    pad = out.get("padding")
    simple = raw is not None and not f["crop"] and not f["pad_coils"] and not f["compress_coils"] and (pad is None or not pad.any())
    if simple and "scaling_factor" in out:
        sf = out["scaling_factor"]
        if "kspace" in out and not f["ssl"] and float(sf) != 0 and not _close(out["kspace"] * sf, raw, 1e-5):
            yield Violation("kspace-times-scaling-factor", "kspace × scaling_factor != raw k-space", rep)
        if "masked_kspace" in out and float(sf) != 0:
            exp, _ = T.apply_mask(raw, out["sampling_mask"])
            if not _close(out["masked_kspace"] * sf, exp, 1e-5) and (exp.abs().max() > 0 or (out["masked_kspace"] * sf).abs().max() > 0):
                yield Violation("masked-times-scaling-factor", "masked_kspace × scaling_factor != apply_mask(raw k-space, sampling_mask)",
                                rep)
        if f["ssl"] and float(sf) != 0 and "input_kspace" in out:
            both = torch.where(out["input_sampling_mask"], out["input_kspace"], out["kspace"])
            m_all = out["input_sampling_mask"] | out["target_sampling_mask"]
            exp, _ = T.apply_mask(raw, m_all)
            if not _close(both * sf, exp, 1e-5):
                yield Violation("masked-times-scaling-factor", "SSL: (input ∪ target k-space) × scaling_factor != apply_mask(raw k-space)", rep)


def check_zero_sf(cfg):
    """inputs whose scaling factor is exactly 0 (maximum of an identically zero tensor)"""
    import direct.data.transforms as T

    f = cfg["flags"]
    nc, h, w = cfg["shape"]
    rep = {"op": "zero_scaling_factor", **cfg}
    regular = _gauss_sample(cfg["seed"], nc, 0, h, w, 0, False)
    if cfg["mode"] == "all-zero":
        k = np.zeros_like(regular)
    else:
        # the mask the pipeline generates for this file name / shape, then signal only where it does not sample
        probe = run_real(_build_for({**cfg, "flags": {**f, "ssl": 0}}), raw_sample(regular))
        cols = probe["sampling_mask"].reshape(h, w).any(0).numpy()
        if cols.all():
            return
        k = regular * (~cols)[None, None, :]
    try:
        out = run_real(_build_for(cfg), raw_sample(k.astype(np.complex64)))
    except Exception as e:  # noqa: BLE001
        yield Violation("zero-scaling-factor-raises", f"the transform raises on a sample with scaling factor 0: {e}",
                        {**rep, "observed": repr(e)})
        return
    sf = float(out["scaling_factor"])
    if sf != 0.0:
        yield Violation("zero-scaling-factor-not-zero", f"maximum of an identically zero tensor reported as {sf}",
                        {**rep, "observed": sf})
    for kk in _tensor_keys(out):
        bad = int((~torch.isfinite(out[kk].float())).sum())
        if bad:
            yield Violation("nonfinite-zero-scaling-factor-" + kk,
                            f"`{kk}` contains {bad} NaN/Inf entries when the scaling factor is 0 ({cfg['mode']})",
                            {**rep, "key": kk, "bad_entries": bad})
    if not f["ssl"] and all(torch.isfinite(out[kk]).all() for kk in ("kspace", "masked_kspace")):
        exp, _ = T.apply_mask(out["kspace"], out["sampling_mask"])
        if not torch.equal(out["masked_kspace"], exp):
            yield Violation("masked-not-mask-of-normalised", "masked_kspace != apply_mask(kspace, sampling_mask) (scaling factor 0)", rep)


def check_same_crop(cfg):
    """CropKspace(random, seeded) with identity operators on a position-labelled k-space: the labels that survive
    reveal the crop offset, which must be the same for all slices of one file"""
    from direct.data.mri_transforms import CropKspace

    nc, ns, h, w = cfg["shape"]
    shape = (nc, ns, h, w) if ns else (nc, h, w)
    lab = np.arange(int(np.prod(shape)), dtype=np.float32).reshape(shape) + 1
    k = torch.from_numpy(np.stack([lab, -lab], -1))
    tr = CropKspace(crop=tuple(cfg["crop"]), forward_operator=_ident, backward_operator=_ident, image_space_center_crop=False,
                    random_crop_sampler_type=cfg["sampler"], random_crop_sampler_use_seed=True)
    outs = []
    for sl in (0, 1, 5):
        np.random.seed(cfg["seed"] + sl)          # the global numpy state differs between slices, as in a data loader
        outs.append(run_real(tr, {"kspace": k.clone(), "filename": cfg["name"], "slice_no": sl})["kspace"])
    want = tuple(shape[:-2]) + tuple(cfg["crop"]) + (2,)
    for o, sl in zip(outs, (0, 1, 5)):
        if tuple(o.shape) != want:
            yield Violation("crop-shape-kspace", f"random crop gives shape {tuple(o.shape)}, requested {want}",
                            {"op": "same_crop", **cfg, "slice": sl})
        elif not torch.equal(o, outs[0]):
            yield Violation("crop-differs-within-file", f"slices 0 and {sl} of one file are cropped at different offsets",
                            {"op": "same_crop", **cfg, "slice": sl})


WRAPPED = ["ComputeImage/ifft", "ComputeImage/rss", "ComputeImage/complex", "ComputeImage/complex_mod", "ComputeImage/sense",
           "ComputeImage/sense_mod", "EstimateSensitivityMap/unit", "EstimateSensitivityMap/rss_estimate", "CompressCoil",
           "PadCoilDimension", "ComputeScalingFactor/percentile", "ComputeScalingFactor/max", "GaussianMaskSplitter",
           "UniformMaskSplitter"]


def check_wrapper(cfg):
    import direct.data.mri_transforms as M
    import direct.data.transforms as T
    from direct.types import KspaceKey, TransformKey

    nc, ns, h, w = cfg["shape"]
    name = cfg["module"]
    if ns and name.endswith("MaskSplitter"):
        ns = 0          # the splitters' 3-D mask layout is produced by the pipeline itself (covered by pipeline/ssl/3d)
    k = _gauss_sample(cfg["seed"], nc, ns, h, w, 0, False)
    kt = torch.from_numpy(np.stack([k.real, k.imag], -1)).float()
    mshape = (1, 1, h, w, 1) if ns else (1, h, w, 1)
    g = torch.Generator().manual_seed(cfg["seed"])
    mask = torch.rand(mshape, generator=g) < 0.5
    mask[..., w // 2 - 1: w // 2 + 1, :] = True
    acs = torch.zeros(mshape, dtype=torch.bool)
    acs[..., w // 2 - 1: w // 2 + 1, :] = True
    smap = torch.from_numpy(np.stack([_gauss_sample(cfg["seed"] + 1, nc, ns, h, w, 0, False).real,
                                      _gauss_sample(cfg["seed"] + 2, nc, ns, h, w, 0, False).imag], -1)).float()
    masked = torch.where(mask == 0, torch.tensor([0.0]), kt)
    sample = {"kspace": kt, "masked_kspace": masked, "sampling_mask": mask, "acs_mask": acs, "sensitivity_map": smap,
              "filename": "file_w.h5", "slice_no": 3}
    kind, _, arg = name.partition("/")
    bwd = functools.partial(T.ifft2, centered=True)
    if kind == "ComputeImage":
        wrapped = M.ComputeImage(kspace_key=KspaceKey.KSPACE, target_key=TransformKey.TARGET, backward_operator=bwd,
                                 type_reconstruction=arg)
    elif kind == "EstimateSensitivityMap":
        wrapped = M.EstimateSensitivityMap(kspace_key=KspaceKey.KSPACE, backward_operator=bwd, type_of_map=arg)
    elif kind == "CompressCoil":
        wrapped = M.CompressCoil(num_coils=max(1, nc - 1), kspace_key=KspaceKey.KSPACE)
    elif kind == "PadCoilDimension":
        wrapped = M.PadCoilDimension(pad_coils=nc + 2, key=KspaceKey.KSPACE)
    elif kind == "ComputeScalingFactor":
        wrapped = M.ComputeScalingFactor(normalize_key=TransformKey.MASKED_KSPACE, percentile=0.9 if arg == "percentile" else None,
                                         scaling_factor_key=TransformKey.SCALING_FACTOR)
    elif kind == "GaussianMaskSplitter":
        wrapped = M.GaussianMaskSplitter(ratio=0.4, acs_region=(0, 0), keep_acs=False, use_seed=True,
                                         kspace_key=KspaceKey.MASKED_KSPACE, std_scale=3.0)
    else:
        wrapped = M.UniformMaskSplitter(ratio=0.4, acs_region=(0, 0), keep_acs=False, use_seed=True,
                                        kspace_key=KspaceKey.MASKED_KSPACE)
    if not getattr(wrapped, "toggle_dims", False):
        yield Violation("module-wrapper-not-toggling", f"{name} is not wrapped with toggle_dims=True", {"op": "wrapper", **cfg})
        return

    def clone(s_):
        return {kk: (v.clone() if isinstance(v, torch.Tensor) else v) for kk, v in s_.items()}

    got = run_real(wrapped, clone(sample))
    module = wrapped._transform
    for batch in (1, 2):
        # element 0 is the sample; a second element (different values) must not leak into element 0
        def other(v):
            return v.clone() if v.dtype == torch.bool else 3.0 * torch.flip(v, dims=(0,))
        b = {kk: (torch.stack([v.clone()] + [other(v) for _ in range(batch - 1)], 0) if isinstance(v, torch.Tensor)
                  else [v] * batch) for kk, v in sample.items()}
        try:
            out = module.forward(b)
        except (KeyboardInterrupt, SystemExit):
            raise
        except BaseException as e:  # noqa: BLE001
            raise ImplError(e) from e
        for kk, v in out.items():
            kk = str.__str__(kk)
            exp = v[0]
            have = got.get(kk)
            if isinstance(exp, torch.Tensor):
                same = isinstance(have, torch.Tensor) and have.shape == exp.shape and (
                    torch.equal(have, exp) if have.dtype == torch.bool else _close(have, exp, 1e-5))
            else:
                same = have == exp
            if not same:
                yield Violation("module-wrapper-" + kind, f"{name}: key `{kk}` of the wrapped call differs from element 0 of "
                                f"forward on a batch of {batch}", {"op": "wrapper", **cfg, "key": kk, "batch": batch})
        if set(str.__str__(x) for x in out) != set(str.__str__(x) for x in got):
            yield Violation("module-wrapper-" + kind, f"{name}: key sets differ", {"op": "wrapper", **cfg, "batch": batch})


def check_same_filename(cfg):
    f = cfg["flags"]
    nc, h, w = cfg["shape"]
    tr = _build_for({**cfg, "crop_shape": (h - 2, w - 2)})
    masks = []
    for sl in (0, 1, 7):
        k = _gauss_sample(cfg["seed"] + sl, nc, 0, h, w, 0, False)
        out = run_real(tr, raw_sample(k, filename=cfg["name"], slice_no=sl))
        if f["ssl"]:
            m = out["input_sampling_mask"] | out["target_sampling_mask"]
        else:
            m = out["sampling_mask"]
        pad = out["padding"] if "padding" in out else torch.zeros_like(m)
        masks.append((m, pad))
    m0, p0 = masks[0]
    for (m, p), sl in zip(masks[1:], (1, 7)):
        diff = (m ^ m0) & ~(p | p0)
        if m.shape != m0.shape or diff.any():
            yield Violation("mask-differs-within-file", f"slices 0 and {sl} of one file get different sampling masks",
                            {"op": "same_filename", **cfg, "slice": sl, "differing_positions": int(diff.sum())})


def _same_outputs(a: dict, b: dict, what: str, rep: dict, key: str, exact=True, rel=1e-4):
    """key sets and every tensor entry equal (`exact=False`: to rounding — a differently laid out input takes another FFT
    path, and normalised outputs amplify that at low-signal pixels, as under a non-dyadic scale)"""
    ka, kb = sorted(str.__str__(x) for x in a), sorted(str.__str__(x) for x in b)
    if ka != kb:
        yield Violation(key + "-keys", f"{what}: key sets differ ({sorted(set(ka) ^ set(kb))})", rep)
        return
    bb = {str.__str__(x): v for x, v in b.items()}
    for kk, v in a.items():
        kk = str.__str__(kk)
        w = bb[kk]
        if isinstance(v, torch.Tensor):
            ok = isinstance(w, torch.Tensor) and v.shape == w.shape and v.dtype == w.dtype and (
                torch.equal(v, w) if exact or v.dtype == torch.bool else _close(v, w, rel))
            if not ok:
                yield Violation(key + "-" + kk, f"{what}: `{kk}` differs", {**rep, "key": kk})


def _dynamic_sample(seed, nc, h, w):
    g = np.random.RandomState(seed)
    k = (g.randn(nc, h, w) + 1j * g.randn(nc, h, w)).astype(np.complex64)
    yy, xx = np.meshgrid(np.arange(h) - h // 2, np.arange(w) - w // 2, indexing="ij")
    r = np.sqrt((yy / max(h // 2, 1)) ** 2 + (xx / max(w // 2, 1)) ** 2) / np.sqrt(2.0)
    return (k * (10.0 ** (-6.0 * r)).astype(np.float32)).astype(np.complex64)


def check_history(cfg):
    """One transform object applied to a sequence of samples (two files, several slices, a repeated sample, a scaled
    sample): every output equals that of a freshly built transform on the same sample — nothing is remembered across
    calls.  The raw numpy k-space handed in is left untouched, and complex128 / non-contiguous / Fortran-ordered inputs
    with the same values give the same outputs."""
    f = cfg["flags"]
    nc, h, w = cfg["shape"]
    rep = {"op": "history", **cfg}
    # k-space with a large dynamic range (magnitudes decaying by 10^-6 from the centre, like measured data): entries exist on
    # both sides of every relative threshold, so a threshold / factor remembered from another call changes the outputs
    ks = {("hist_a.h5", 0): _dynamic_sample(cfg["seed"], nc, h, w), ("hist_a.h5", 1): _dynamic_sample(cfg["seed"] + 1, nc, h, w),
          ("hist_b.h5", 0): _dynamic_sample(cfg["seed"] + 2, nc, h, w)}
    # x, then c·x of the same file name and shape right after it; a slice of very different energy; another file in between
    seq = [("hist_a.h5", 0, 1.0), ("hist_a.h5", 0, 2.0 ** 10), ("hist_a.h5", 1, 2.0 ** -12), ("hist_b.h5", 0, 1.0), ("hist_a.h5", 0, 1.0),
           ("hist_a.h5", 1, 8.0)]
    tr = _build_for(cfg)
    for step, (name, sl, scale) in enumerate(seq):
        k = (ks[(name, sl)] * np.float32(scale)).astype(np.complex64)
        keep = k.copy()
        got = run_real(tr, {"kspace": k, "filename": name, "slice_no": sl})      # the array itself, not a copy
        if not np.array_equal(k.view(np.float32), keep.view(np.float32)):
            yield Violation("raw-input-modified", f"the raw k-space array handed to the transform is modified in place (call {step})",
                            {**rep, "step": step})
        ref = run_real(_build_for(cfg), raw_sample(keep.copy(), filename=name, slice_no=sl))
        yield from _same_outputs(ref, got, f"call {step} ({name}, slice {sl}, scale {scale}) on a reused transform vs a fresh one",
                                 {**rep, "step": step}, "history")
    # input forms of one sample
    name, sl = "hist_a.h5", 0
    k = ks[(name, sl)]
    ref = run_real(_build_for(cfg), raw_sample(k.copy(), filename=name, slice_no=sl))
    forms = {"complex128": k.astype(np.complex128), "fortran": np.asfortranarray(k),
             "non-contiguous": np.stack([k, -k], axis=-1)[..., 0]}
    for fname, arr in forms.items():
        s_ = {"kspace": arr, "filename": name, "slice_no": sl}
        try:
            got = run_real(_build_for(cfg), s_)
        except Exception as e:  # noqa: BLE001
            yield Violation("input-form-raises", f"a {fname} k-space array makes the transform raise: {e}", {**rep, "form": fname})
            continue
        yield from _same_outputs(ref, got, f"{fname} input vs contiguous complex64", {**rep, "form": fname}, "input-form", exact=False)


def check_defaults(cfg):
    """Transforms built with the *default* arguments (only the operators and the mask function are given) behave as
    the default configuration: identical to the explicitly parametrised build, seeded by the file name, scale-equivariant."""
    import direct.data.mri_transforms as M

    nc, h, w = cfg["shape"]
    fam = cfg["family"]
    rep = {"op": "defaults", **cfg}
    fwd, bwd = _ops(True)

    def default_built():
        if fam == "single":
            return M.build_mri_transforms(fwd, bwd, _mask_func())
        if fam == "supervised":
            return M.build_supervised_mri_transforms(fwd, bwd, _mask_func())
        return PrePost(M.build_pre_mri_transforms(fwd, bwd, _mask_func()), M.build_post_mri_transforms(bwd))

    def explicit():
        c = {"family": "prepost" if fam == "prepost" else "single", "flags": default_flags(), "centered": True}
        return _build_for(c)

    k = _gauss_sample(cfg["seed"], nc, 0, h, w, 0, False)
    a = run_real(default_built(), raw_sample(k.copy(), filename=cfg["name"]))
    b = run_real(explicit(), raw_sample(k.copy(), filename=cfg["name"]))
    if fam == "supervised":
        b = {kk: v for kk, v in b.items() if str.__str__(kk) != "is_ssl"}
    yield from _same_outputs(b, a, "default arguments vs the explicit default configuration", rep, "defaults")
    tr = default_built()
    masks = []
    for sl in (0, 1, 4):
        o = run_real(tr, raw_sample(_gauss_sample(cfg["seed"] + sl, nc, 0, h, w, 0, False), filename=cfg["name"], slice_no=sl))
        masks.append(o["sampling_mask"] & ~o["padding"] if "padding" in o else o["sampling_mask"])
    pads = []
    for sl, m_ in zip((1, 4), masks[1:]):
        if m_.shape != masks[0].shape or bool(((m_ ^ masks[0])).sum() > 2 * h):   # padding may differ by a few border columns
            yield Violation("mask-differs-within-file", f"default arguments: slices 0 and {sl} of one file get different sampling masks",
                            {**rep, "slice": sl})
    c8 = run_real(default_built(), raw_sample((k * np.float32(8.0)).astype(np.complex64), filename=cfg["name"]))
    for kk in NORMALISED:
        if kk in a and isinstance(a[kk], torch.Tensor) and (kk not in c8 or not torch.equal(a[kk], c8[kk])):
            yield Violation("equivariance-pow2-" + kk, f"default arguments: `{kk}` changes under scaling by 8", {**rep, "key": kk})
    if float(c8["scaling_factor"]) != 8.0 * float(a["scaling_factor"]):
        yield Violation("scaling-factor-pow2", "default arguments: scaling_factor is not multiplied by 8", rep)


COIL_SELECTION_CASES = ("cancelling-coil", "pad-uncentred-single-coil", "pad-uncentred-two-coils")


def check_coil_selection(cfg):
    """ComputeScalingFactor's percentile branch must select the coils that have a non-zero entry.  Repaired finding (`fixed:`):
    the selection used to be `data[_].sum(...).bool()`, which drops a coil whose entries cancel and — with PadKspace and
    un-centred operators, where that sum is theoretically zero — let float32 rounding noise decide (IndexError on ordinary
    single-coil samples, a scaling factor off by 13 % under a non-dyadic scale)."""
    case = cfg["case"]
    rep = {"op": "coil_selection", **cfg}

    def judge(make, k, scales, what):
        try:
            base = run_real(make(), raw_sample(k.copy()))
        except Exception as e:  # noqa: BLE001
            yield Violation("percentile-coil-selection/raises", f"{what}: the transform raises {e}", {**rep, "observed": str(e)})
            return
        s0 = float(base["scaling_factor"])
        if not s0 > 0:
            yield Violation("percentile-coil-selection/scaling-factor", f"{what}: scaling_factor {s0} for a non-zero k-space", rep)
        for sc in scales:
            try:
                o = run_real(make(), raw_sample((k * np.float32(sc)).astype(np.complex64)))
            except Exception as e:  # noqa: BLE001
                yield Violation("percentile-coil-selection/raises", f"{what}: the transform raises on the input scaled by {sc}: {e}",
                                {**rep, "scale": sc, "observed": str(e)})
                continue
            s1 = float(o["scaling_factor"])
            if abs(s1 - s0 * sc) > 1e-4 * abs(s0 * sc):
                yield Violation("percentile-coil-selection/scaling-factor",
                                f"{what}: scaling_factor {s0} -> {s1} under scale {sc} (expected {s0 * sc})",
                                {**rep, "scale": sc, "expected": s0 * sc, "observed": s1})
            for kk in ("masked_kspace", "kspace"):
                if kk in base and (kk not in o or not _close(base[kk], o[kk], 1e-4)):
                    yield Violation("percentile-coil-selection/" + kk, f"{what}: `{kk}` changes under scaling by {sc}", {**rep, "scale": sc})

    if case == "cancelling-coil":
        # integer data, one coil, every sampled column cancels: [3, -3, 4i, -4i] per column (plus a second, ordinary coil or not)
        nc = cfg.get("coils", 1)
        k = np.zeros((nc, 4, 6), dtype=np.complex64)
        k[0, :, :] = np.array([3, -3, 4j, -4j], dtype=np.complex64)[:, None]
        if nc > 1:
            k[1:] = _int_sample(cfg["seed"], nc - 1, 4, 6)
        fl = {**default_flags(), "padding_eps": 0, "delete_kspace": 0, "scaling_key": cfg.get("scaling_key", 0)}
        yield from judge(lambda: build_real(fl, mask_func_of("full"), _ident, _ident, percentile=0.9), k, (8.0, 0.37), "a coil whose entries cancel")
    elif case == "recorded-two-coils":
        # the recorded repro: scaling_factor 0.746866 -> 6.313450 under scale 7.4834 (expected 5.589099) on the pinned tree
        k = _gauss_sample(378735690, 2, 0, 6, 7, 0, False)
        fl = {**default_flags(), "crop": 2, "pad": 1, "estimate_smaps": 0, "delete_acs": 0, "delete_kspace": 0, "recon": 0}

        def make():
            return build_real(fl, _mask_func(3, 0.15), *_ops(False), crop_shape=(5, 4), pad_shape=(7, 8), percentile=0.9)

        def judge_rs(scales):
            base = run_real(make(), raw_sample(k.copy(), crop_shape=(5, 4)))
            s0 = float(base["scaling_factor"])
            for sc in scales:
                o = run_real(make(), raw_sample((k * np.float32(sc)).astype(np.complex64), crop_shape=(5, 4)))
                s1 = float(o["scaling_factor"])
                if abs(s1 - s0 * sc) > 1e-4 * abs(s0 * sc):
                    yield Violation("percentile-coil-selection/scaling-factor",
                                    f"PadKspace with un-centred operators: scaling_factor {s0} -> {s1} under scale {sc} (expected {s0 * sc})",
                                    {**rep, "scale": sc, "expected": s0 * sc, "observed": s1})
        yield from judge_rs((7.48340206185567,))
    else:
        nc = 1 if case.endswith("single-coil") else 2
        h, w = cfg["shape"]
        k = _gauss_sample(cfg["seed"], nc, 0, h, w, 0, False)
        fl = {**default_flags(), "pad": 1, "estimate_smaps": 0, "delete_kspace": 0, "recon": 3, "scaling_key": cfg.get("scaling_key", 1)}
        pad = tuple(cfg["pad_shape"])
        yield from judge(lambda: build_real(fl, _mask_func(), *_ops(False), pad_shape=pad, percentile=0.9), k,
                         (7.48340206185567, 0.37, 3.0), "PadKspace with un-centred operators")


XPROC_KEYS = ("sampling_mask", "acs_mask", "kspace", "masked_kspace", "input_sampling_mask", "target_sampling_mask", "target", "body_coil_image")


def _digest(out: dict) -> dict:
    import hashlib
    d = {}
    for kk, v in out.items():
        kk = str.__str__(kk)
        if kk in XPROC_KEYS and isinstance(v, torch.Tensor):
            d[kk] = [list(v.shape), hashlib.sha1(v.contiguous().numpy().tobytes()).hexdigest()[:16]]
    return d


def _xproc_run(cfg) -> dict:
    """one seeded pipeline run of a recorded configuration; used in-process and by the worker interpreter"""
    shape = cfg["shape"]
    nc, ns = shape[0], (shape[1] if len(shape) == 4 else 0)
    k = _gauss_sample(cfg["seed"], nc, ns, shape[-2], shape[-1], 0, False)
    three_d = bool(ns)
    rs = (((ns,) if three_d else ()) + tuple(cfg["crop_shape"])) if cfg["flags"]["crop"] == 2 else None
    out = run_real(_build_for(cfg), raw_sample(k, filename=cfg["name"], slice_no=cfg.get("slice", 0), crop_shape=rs))
    return _digest(out)


def _xproc_worker():
    """entry point of the second interpreter: configurations as JSON on stdin, digests as JSON on stdout"""
    import json
    import sys
    cfgs = json.load(sys.stdin)
    res = []
    for c in cfgs:
        try:
            res.append(_xproc_run(c))
        except Exception as e:  # noqa: BLE001
            res.append({"error": f"{type(e).__name__}: {e}"})
    sys.stdout.write("XPROC" + json.dumps(res) + "\n")


def check_cross_process(cfgs: list[dict]):
    """With seeding, the masks / crops / splits of a sample are a function of the file name (and slice number): the same
    sample through the same configuration in ANOTHER interpreter — another `PYTHONHASHSEED`, as in spawned data-loader workers,
    other ranks, a resumed run — must give bit-identical outputs."""
    import json
    import os
    import pathlib
    import subprocess
    import sys
    here = [_xproc_run(c) for c in cfgs]
    env = dict(os.environ)
    env["PYTHONHASHSEED"] = "2" if os.environ.get("PYTHONHASHSEED") == "1" else "1"
    harness = str(pathlib.Path(__file__).resolve().parent.parent)
    code = f"import sys; sys.path.insert(0, {harness!r}); import boot; from props import c08; c08._xproc_worker()"
    r = subprocess.run([sys.executable, "-c", code], input=json.dumps(cfgs), capture_output=True, text=True, env=env, timeout=600)
    line = next((ln for ln in r.stdout.splitlines() if ln.startswith("XPROC")), None)
    if r.returncode != 0 or line is None:
        from core import ToolFailure
        raise ToolFailure("cross-process worker failed: " + (r.stdout + r.stderr)[-1500:])
    there = json.loads(line[5:])
    for c, a, b in zip(cfgs, here, there):
        rep = {"op": "cross_process", **c}
        if "error" in b:
            yield Violation("pipeline-raises", f"the transform raises in a second interpreter: {b['error']}", {**rep, "observed": b["error"]})
            continue
        for kk in sorted(set(a) | set(b)):
            if a.get(kk) != b.get(kk):
                yield Violation("not-deterministic-across-processes-" + kk,
                                f"`{kk}` of the same sample / file name differs between two interpreters (PYTHONHASHSEED) although use_seed=True: "
                                f"{a.get(kk)} vs {b.get(kk)}", {**rep, "key": kk})


def xproc_configs(rng) -> list[dict]:
    base = {"centered": True, "percentile": 0.9, "pad_to": 4}
    out = []
    for extra in ({}, {"crop": 1, "image_center_crop": 0}, {"body_coil": 1, "delete_acs": 0}, {"ssl": 1, "split": 1, "delete_kspace": 0},
                  {"ssl": 1, "split": 0, "crop": 1, "image_center_crop": 0}):
        f = {**default_flags(), "delete_kspace": 0, **extra}
        out.append({**base, "flags": f, "seed": rng.randrange(2 ** 31), "shape": [rng.choice([1, 2]), rng.choice([10, 12]), rng.choice([16, 20])],
                    "crop_shape": [rng.randint(5, 8), rng.randint(8, 12)], "name": "xproc_%d.h5" % rng.randrange(1000), "slice": rng.randrange(5),
                    "ratio": [0.3, 0.5] if extra.get("ssl") else 0.4})
    return out


def check_given(cfg):
    """The sample already contains (A) `sampling_mask` + `acs_mask` (no mask function) or (B) a `sensitivity_map`:
    scale-equivariance and self-consistency on the real pipeline."""
    import direct.data.transforms as T

    f = cfg["flags"]
    nc, h, w = cfg["shape"]
    rep = {"op": "given", **cfg}
    k = _gauss_sample(cfg["seed"], nc, 0, h, w, 0, False)
    extra = {}
    if cfg["scenario"] == "A":
        mf = _mask_func()
        extra["sampling_mask"] = mf(shape=(h, w, 2), seed=(cfg["seed"] % 1000,), return_acs=False).numpy().astype(bool)
        extra["acs_mask"] = mf(shape=(h, w, 2), seed=(cfg["seed"] % 1000,), return_acs=True).numpy().astype(bool)
    else:
        g = np.random.RandomState(cfg["seed"] + 5)
        sm = (g.randn(nc, h, w) + 1j * g.randn(nc, h, w)).astype(np.complex64)
        sm = sm / np.sqrt((np.abs(sm) ** 2).sum(0, keepdims=True))
        extra["sensitivity_map"] = sm.astype(np.complex64)

    def run(scale):
        smp = raw_sample((k * np.float32(scale)).astype(np.complex64))
        smp.update({kk: v.copy() for kk, v in extra.items()})
        return run_real(_build_for(cfg), smp)

    try:
        base = run(1.0)
    except Exception as e:  # noqa: BLE001
        yield Violation("pipeline-raises", f"the composed transform raises on a sample that already contains {sorted(extra)}: {e}",
                        {**rep, "observed": repr(e)})
        return
    for kk in _tensor_keys(base):
        if not torch.isfinite(base[kk].float()).all():
            yield Violation("nonfinite-" + kk, f"output `{kk}` contains NaN/Inf", {**rep, "key": kk})
    for kpow in (-9, 4):
        o = run(2.0 ** kpow)
        for kk in NORMALISED:
            if kk in base and isinstance(base[kk], torch.Tensor) and (kk not in o or not torch.equal(base[kk], o[kk])):
                yield Violation("equivariance-pow2-" + kk, f"`{kk}` changes under scaling by 2^{kpow} (sample with given {sorted(extra)})",
                                {**rep, "kpow": kpow, "key": kk})
        if float(o["scaling_factor"]) != float(base["scaling_factor"]) * 2.0 ** kpow:
            yield Violation("scaling-factor-pow2", f"scaling_factor not multiplied by 2^{kpow} (sample with given {sorted(extra)})",
                            {**rep, "kpow": kpow})
    if cfg["scenario"] == "A" and not f["ssl"]:
        want = torch.from_numpy(extra["sampling_mask"])
        if f["crop"]:
            want = T.complex_center_crop(want, tuple(cfg["crop_shape"]))
        if tuple(base["sampling_mask"].shape) != tuple(want.shape) or not torch.equal(base["sampling_mask"], want):
            yield Violation("given-mask-changed", "the sample's own sampling mask is not the one the outputs carry", rep)
        exp, _ = T.apply_mask(base["kspace"], base["sampling_mask"])
        if not torch.equal(base["masked_kspace"], exp):
            yield Violation("masked-not-mask-of-normalised", "masked_kspace != apply_mask(kspace, given sampling_mask)", rep)
    if cfg["scenario"] == "B" and not f["estimate_smaps"]:
        want = T.to_tensor(extra["sensitivity_map"]).float()
        if "sensitivity_map" not in base or not torch.equal(base["sensitivity_map"], want):
            yield Violation("given-map-changed", "the sample's own sensitivity map is not the one the outputs carry", rep)


# --------------------------------------------------------------------------------------------------
def replay(rep: dict) -> bool:
    """Re-run a recorded failing case on the implementation; True when it still fails."""
    op = rep.get("op")
    try:
        if op == "pipeline":
            shape = rep["shape"]
            nc, ns = shape[0], (shape[1] if len(shape) == 4 else 0)
            k = _gauss_sample(rep["seed"], nc, ns, shape[-2], shape[-1], rep.get("border", 0), rep.get("zero_coil", False))
            cfg = {kk: rep[kk] for kk in ("flags", "shape", "crop_shape", "seed", "border", "zero_coil", "centered", "pad_to",
                                          "percentile", "family", "stale", "pad_shape", "rescale_shape", "compress_to", "ratio", "mask") if kk in rep}
            return any(True for _ in check_config(cfg, k))
        if op == "history":
            cfg = {kk: rep[kk] for kk in ("family", "flags", "seed", "shape", "crop_shape", "centered", "percentile", "pad_to", "compress_to") if kk in rep}
            return any(True for _ in check_history(cfg))
        if op == "defaults":
            cfg = {kk: rep[kk] for kk in ("family", "seed", "shape", "name")}
            return any(True for _ in check_defaults(cfg))
        if op == "cross_process":
            cfg = {kk: rep[kk] for kk in ("flags", "seed", "shape", "crop_shape", "name", "slice", "ratio", "centered", "percentile", "pad_to") if kk in rep}
            return any(True for _ in check_cross_process([cfg]))
        if op == "coil_selection":
            cfg = {kk: rep[kk] for kk in ("case", "seed", "shape", "pad_shape", "scaling_key", "coils") if kk in rep}
            return any(True for _ in check_coil_selection(cfg))
        if op == "given":
            cfg = {kk: rep[kk] for kk in ("flags", "scenario", "seed", "shape", "crop_shape", "centered", "percentile", "pad_to") if kk in rep}
            return any(True for _ in check_given(cfg))
        if op == "scale_ladder":
            cfg = {kk: rep[kk] for kk in ("flags", "seed", "shape", "percentile", "centered", "mask") if kk in rep}
            return any(True for _ in check_scale_ladder(cfg))
        if op == "zero_scaling_factor":
            cfg = {kk: rep[kk] for kk in ("flags", "seed", "shape", "mode", "centered") if kk in rep}
            return any(True for _ in check_zero_sf(cfg))
        if op == "stagewise":
            cfg = {kk: rep[kk] for kk in ("flags", "seed", "shape", "percentile", "centered", "mask") if kk in rep}
            return any(True for _ in check_stagewise(cfg))
        if op == "same_crop":
            cfg = {kk: rep[kk] for kk in ("seed", "name", "shape", "crop", "sampler")}
            return any(True for _ in check_same_crop(cfg))
        if op == "wrapper":
            cfg = {kk: rep[kk] for kk in ("seed", "shape", "module")}
            return any(True for _ in check_wrapper(cfg))
        if op == "same_filename":
            cfg = {kk: rep[kk] for kk in ("flags", "seed", "name", "shape")}
            return any(True for _ in check_same_filename(cfg))
    except Exception:  # noqa: BLE001
        return True
    return True
