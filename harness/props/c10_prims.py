"""C10 — remaining options / argument forms / dtypes / layouts of the crop and pad primitives, stated directly on the
implementation (`complex_random_crop`, `complex_center_crop`, `center_crop`, `crop_to_bbox`, `crop_to_largest`,
`pad_tensor`).  Every case is a JSON spec (it is the replay) interpreted by `run_case`.
"""
from __future__ import annotations

import itertools

import boot  # noqa: F401
import numpy as np
import torch

from core import Ctx, Violation, err_name

DTYPES = {"float32": torch.float32, "float64": torch.float64, "float16": torch.float16, "int64": torch.int64,
          "int16": torch.int16, "uint8": torch.uint8, "complex64": torch.complex64, "bool": torch.bool}


def _labels(shape, dtype="float32"):
    n = int(np.prod(shape)) if len(shape) else 1
    x = torch.arange(1, n + 1, dtype=torch.float64).reshape(shape)
    dt = DTYPES[dtype]
    if dt == torch.bool:
        return (x.long() % 3 == 0)
    if dt == torch.uint8:
        return (x % 251).to(dt)
    if dt.is_floating_point or dt.is_complex:
        x = x / 4                       # fractional labels: a silent integer cast is visible
        return (x + 1j * (x + 0.5)).to(dt) if dt.is_complex else x.to(dt)
    return x.to(dt)


def _layout(x: torch.Tensor, layout: str) -> torch.Tensor:
    """the same values in another memory layout"""
    if layout == "contiguous" or x.ndim < 2:
        return x
    if layout == "transposed":          # build the transposed storage, view it back
        return x.transpose(-1, -2).contiguous().transpose(-1, -2)
    if layout == "strided":             # every second element of a twice-as-wide buffer
        big = torch.zeros(list(x.shape[:-1]) + [2 * x.shape[-1]], dtype=x.dtype)
        big[..., ::2] = x
        return big[..., ::2]
    if layout == "sliced":              # a window of a larger buffer (storage offset, row gaps)
        big = torch.zeros([d + 2 for d in x.shape], dtype=x.dtype)
        idx = tuple(slice(1, 1 + d) for d in x.shape)
        big[idx] = x
        return big[idx]
    if layout == "permuted":
        perm = list(range(x.ndim))[::-1]
        return x.permute(perm).contiguous().permute(perm)
    raise ValueError(layout)


class _SubArray(np.ndarray):
    """a plain ndarray subclass (no behaviour changed)"""


NP_LAYOUTS = ["plain", "neg_first", "neg_last", "neg_all", "fortran", "byteswapped", "readonly", "strided", "sliced", "subclass"]


def _np_layout(a: np.ndarray, layout: str) -> np.ndarray:
    """the same logical array (same shape, values, dtype up to byte order) in another numpy memory layout"""
    if layout == "plain" or a.ndim == 0:
        return a
    if layout == "neg_first":
        return np.ascontiguousarray(a[::-1])[::-1]
    if layout == "neg_last":
        return np.ascontiguousarray(a[..., ::-1])[..., ::-1]
    if layout == "neg_all":
        idx = tuple(slice(None, None, -1) for _ in range(a.ndim))
        return np.ascontiguousarray(a[idx])[idx]
    if layout == "fortran":
        return np.asfortranarray(a)
    if layout == "byteswapped":
        return a.astype(a.dtype.newbyteorder()) if a.dtype.itemsize > 1 else a
    if layout == "readonly":
        b = a.copy()
        b.setflags(write=False)
        return b
    if layout == "strided":
        big = np.zeros(list(a.shape[:-1]) + [2 * a.shape[-1]], dtype=a.dtype)
        big[..., ::2] = a
        return big[..., ::2]
    if layout == "sliced":
        big = np.zeros([d + 2 for d in a.shape], dtype=a.dtype)
        idx = tuple(slice(1, 1 + d) for d in a.shape)
        big[idx] = a
        return big[idx]
    if layout == "subclass":
        return a.view(_SubArray)
    raise ValueError(layout)


NP_ONLY_DTYPES = {"uint16": np.uint16, "uint32": np.uint32, "longdouble": np.longdouble}   # no (full) torch counterpart


def _np_labels(shape, dtype):
    if dtype in NP_ONLY_DTYPES:
        n = int(np.prod(shape)) if len(shape) else 1
        return (np.arange(1, n + 1).reshape(shape)).astype(NP_ONLY_DTYPES[dtype])
    return _labels(shape, dtype).numpy()


def _window_ref(x: np.ndarray, starts, sizes, fill):
    """pointwise reference: out[i] = x[start + i] where in range, else fill"""
    out = np.full(sizes, fill, dtype=x.dtype)
    for idx in itertools.product(*[range(s) for s in sizes]):
        src = tuple(a + i for a, i in zip(starts, idx))
        if all(0 <= s < n for s, n in zip(src, x.shape)):
            out[idx] = x[src]
    return out


def _target_form(t, form):
    if form == "tuple":
        return tuple(t)
    if form == "list":
        return list(t)
    if form == "size":
        return torch.Size(t)
    if form == "ndarray":
        return np.asarray(t)
    if form == "tensor":
        return torch.tensor(t)
    raise ValueError(form)


def _eq(a, b) -> bool:
    a = a.numpy() if isinstance(a, torch.Tensor) else np.asarray(a)
    b = b.numpy() if isinstance(b, torch.Tensor) else np.asarray(b)
    return a.shape == b.shape and a.dtype == b.dtype and np.array_equal(a, b)


# --------------------------------------------------------------------------------------------------
def run_case(c: dict):
    """-> list of (key, what, detail)"""
    import direct.data.transforms as T
    from direct.data.bbox import crop_to_bbox, crop_to_largest

    fn = c["fn"]
    out = []

    def bad(key, what, **detail):
        out.append((key, what, detail))

    if fn == "pad_tensor":
        x0 = _labels(c["shape"], c.get("dtype", "float32"))
        x = _layout(x0, c.get("layout", "contiguous"))
        keep = x.clone()
        tgt = c["target"]
        try:
            got = T.pad_tensor(x, _target_form(tgt, c.get("form", "tuple")), value=c.get("value", 0)) \
                if "value" in c else T.pad_tensor(x, _target_form(tgt, c.get("form", "tuple")))
        except (ValueError, TypeError, RuntimeError, IndexError, NotImplementedError) as e:
            if c.get("expect") == "raises":
                if not isinstance(e, ValueError):
                    bad("prim/pad_tensor/wrong-exception", f"pad_tensor raises {err_name(e)} instead of ValueError for a target of "
                        f"{len(tgt)} entries", observed=repr(e)[:200])
                return out
            bad("prim/pad_tensor/raises", f"pad_tensor raises {err_name(e)} on a valid call "
                f"(dtype {c.get('dtype', 'float32')}, target as {c.get('form', 'tuple')})", observed=repr(e)[:200])
            return out
        if c.get("expect") == "raises":
            bad("prim/pad_tensor/accepts-invalid", f"pad_tensor accepts a target of {len(tgt)} entries", observed=list(got.shape))
            return out
        k = len(tgt)
        cur = list(x0.shape[-k:])
        osz = [max(t, n) for t, n in zip(tgt, cur)]
        starts = [0] * (x0.ndim - k) + [-((o - n) // 2) for o, n in zip(osz, cur)]
        val = c.get("value", 0)
        ref = _window_ref(x0.numpy(), starts, list(x0.shape[:-k]) + osz, np.asarray(val).astype(x0.numpy().dtype))
        if got.dtype != x0.dtype:
            bad("prim/pad_tensor/dtype", f"pad_tensor changes the dtype {x0.dtype} -> {got.dtype}")
        elif not _eq(got, ref):
            bad("prim/pad_tensor/placement" + ("-value" if val != 0 else ""),
                f"pad_tensor(value={val}) does not place the data at floor(diff/2) with the pad value elsewhere "
                f"(layout {c.get('layout', 'contiguous')}, rank {x0.ndim})", expected=ref.tolist() if ref.size < 80 else "…",
                observed=got.tolist() if got.numel() < 80 else list(got.shape))
        if not _eq(x, keep):
            bad("prim/pad_tensor/inplace", "pad_tensor modified its input")
        return out

    if fn == "center_crop":
        x0 = _labels(c["shape"], c.get("dtype", "float32"))
        x = _layout(x0, c.get("layout", "contiguous"))
        s = c["crop"]
        try:
            got = T.center_crop(x, _target_form(s, c.get("form", "tuple")))
        except (ValueError, TypeError, RuntimeError, IndexError) as e:
            bad("prim/center_crop/raises", f"center_crop raises {err_name(e)} on a valid call (crop as {c.get('form', 'tuple')}, "
                f"layout {c.get('layout', 'contiguous')})", observed=repr(e)[:200])
            return out
        l2, l1 = (x0.shape[-2] - s[-2]) // 2, (x0.shape[-1] - s[-1]) // 2
        ref = x0[..., l2:l2 + s[-2], l1:l1 + s[-1]]
        if not _eq(got, ref):
            bad("prim/center_crop/window", f"center_crop on a {c.get('layout', 'contiguous')} rank-{x0.ndim} input is not the central window",
                expected=ref.tolist() if ref.numel() < 80 else "…", observed=got.tolist() if got.numel() < 80 else list(got.shape))
        return out

    if fn == "crop_to_bbox":
        bbox, fill = c["bbox"], c.get("fill", 0)
        nd = len(bbox) // 2
        if c.get("path") == "numpy":
            x0n = _np_labels(c["shape"], c.get("dtype", "float32"))
            lay = c.get("np_layout") or {"contiguous": "plain", "transposed": "fortran"}.get(c.get("layout", "contiguous"),
                                                                                              c.get("layout", "contiguous"))
            data = _np_layout(x0n, lay)
            xin = None
        else:
            x0 = _labels(c["shape"], c.get("dtype", "float32"))
            x0n = x0.numpy()
            lay = c.get("layout", "contiguous")
            xin = _layout(x0, lay)
            data = xin
        keep_np = np.array(data, copy=True) if isinstance(data, np.ndarray) else None
        try:
            got = crop_to_bbox(data, _target_form(bbox, c.get("form", "list")), pad_value=fill)
        except (ValueError, TypeError, RuntimeError, IndexError) as e:
            bad("prim/crop_to_bbox/raises", f"crop_to_bbox ({c.get('path', 'torch')} path, {c.get('dtype', 'float32')}, layout {lay}) raises "
                f"{err_name(e)}", observed=repr(e)[:200])
            return out
        is_np = isinstance(got, (np.ndarray, np.generic))
        if c.get("path") == "numpy" and not is_np or c.get("path") != "numpy" and not isinstance(got, torch.Tensor):
            bad("prim/crop_to_bbox/type", f"crop_to_bbox returns {type(got).__name__} for a {c.get('path', 'torch')} input")
            return out
        ref = _window_ref(x0n, bbox[:nd], bbox[nd:], np.asarray(fill).astype(x0n.dtype))
        g = np.asarray(got) if is_np else got.numpy()
        in_dtype = data.dtype if isinstance(data, np.ndarray) else ref.dtype
        if g.shape != ref.shape or not np.array_equal(g.astype(ref.dtype), ref):
            bad("prim/crop_to_bbox/window", f"crop_to_bbox ({c.get('path', 'torch')} path, {c.get('dtype', 'float32')}, "
                f"layout {lay}) differs from the addressed window of the logical array with pad fill",
                expected=str(ref.tolist())[:400], observed=str(g.tolist())[:400])
        elif g.dtype != in_dtype:
            bad("bbox-dtype-bool" if c.get("dtype") == "bool" else "prim/crop_to_bbox/dtype",
                f"crop_to_bbox ({c.get('path', 'torch')} path, layout {lay}) returns dtype {g.dtype} for {in_dtype} input",
                observed=str(g.dtype))
        if isinstance(got, torch.Tensor) and got.numel():
            before = xin.clone()
            got.zero_()
            if not _eq(xin, before):
                bad("prim/crop_to_bbox/aliases-input", "the tensor returned by crop_to_bbox shares memory with its input")
        if isinstance(got, np.ndarray) and got.size:
            if np.shares_memory(got, data):
                bad("prim/crop_to_bbox/aliases-input", f"the array returned by crop_to_bbox shares memory with its input (layout {lay})")
            elif not got.flags.writeable:
                bad("prim/crop_to_bbox/readonly-result", f"crop_to_bbox returns a read-only array (input layout {lay})")
            elif not np.array_equal(np.asarray(data), keep_np):
                bad("prim/crop_to_bbox/inplace", "crop_to_bbox modified its numpy input")
        return out

    if fn == "crop_to_largest":
        arrs = [_labels(s, c.get("dtype", "float32")) for s in c["shapes"]]
        data = [_np_layout(a.numpy(), (c.get("np_layouts") or ["plain"] * len(arrs))[j]) for j, a in enumerate(arrs)] \
            if c.get("path") == "numpy" else arrs
        fill = c.get("fill", 0)
        try:
            got = crop_to_largest(data, pad_value=fill)
        except (ValueError, TypeError, RuntimeError, IndexError) as e:
            bad("prim/crop_to_largest/raises", f"crop_to_largest raises {err_name(e)}", observed=repr(e)[:200])
            return out
        mx = [max(s[j] for s in c["shapes"]) for j in range(len(c["shapes"][0]))] if c["shapes"] else []
        if len(got) != len(arrs):
            bad("prim/crop_to_largest/count", "crop_to_largest changes the number of items")
            return out
        for a, g, shp in zip(arrs, got, c["shapes"]):
            g = g if isinstance(g, np.ndarray) else g.numpy()
            if list(g.shape) != mx:
                bad("prim/crop_to_largest/shape", "an item is not padded to the largest shape", observed=list(g.shape), expected=mx)
                continue
            # (i) the data is a window of the output and everything else is the pad value, at SOME offset
            placed = None
            for off in itertools.product(*[range(m - n + 1) for m, n in zip(mx, shp)]):
                ref = _window_ref(a.numpy(), [-o for o in off], mx, np.asarray(fill).astype(a.numpy().dtype))
                if np.array_equal(g, ref.astype(g.dtype)):
                    placed = off
                    break
            if placed is None:
                bad("prim/crop_to_largest/content", "an item of crop_to_largest is not the input surrounded by the pad value",
                    shape=shp, largest=mx)
                continue
            # (ii) centred with the convention of center_crop / pad_tensor: floor(diff / 2) before the data
            want = tuple((m - n) // 2 for m, n in zip(mx, shp))
            ambiguous = a.numel() == 0 or bool((a == fill).all())
            if placed != want and not ambiguous:
                bad("crop-to-largest-centring-ceil", "crop_to_largest places the data ceil(diff/2) after the start (center_crop / "
                    "pad_tensor use floor(diff/2)): a centre crop back to the original shape loses the first row/column for "
                    "odd differences", shape=shp, largest=mx, offset=list(placed), expected_offset=list(want))
        return out

    if fn == "list_hetero":
        # every function that takes a LIST of tensors: each output must be exactly what the call on that element alone
        # returns (type, dtype, shape, values), outputs must not alias each other nor the inputs
        target = c["target"]
        shape0 = c["shape"]
        elems, objs = [], []
        for j, e in enumerate(c["elems"]):
            if "same_as" in e:
                objs.append(objs[e["same_as"]])
                elems.append(elems[e["same_as"]])
                continue
            shp = e.get("shape", shape0)
            x = _labels(shp, e.get("dtype", "float32"))
            if e.get("dtype") == "int64" and e.get("large"):
                x = x + 2 ** 25 + 1                      # not representable in float32
            if e.get("numpy"):
                objs.append(_np_layout(x.numpy(), e.get("np_layout", "plain")))
            else:
                objs.append(_layout(x, e.get("layout", "contiguous")))
            elems.append(e)
        keep = [o.copy() if isinstance(o, np.ndarray) else o.clone() for o in objs]
        st = np.random.get_state()

        def run(arg):
            try:
                if target == "crop_to_largest":
                    return crop_to_largest(arg, pad_value=c.get("fill", 0)), None
                f = getattr(T, target)
                kw = {k: c[k] for k in ("offset", "contiguous", "sampler", "seed") if k in c}
                return f(arg, tuple(c["crop"]), **kw), None
            except (ValueError, TypeError, RuntimeError, IndexError, AssertionError) as e:
                return None, e
            finally:
                np.random.set_state(st)

        got, err = run(list(objs) if not c.get("bare") else objs[0])
        if c.get("expect") == "raises":
            if err is None:
                bad(f"prim/{target}/accepts-invalid", f"{target} accepts a list of tensors of different ranks / shapes")
            return out
        if err is not None:
            bad(f"prim/{target}/list-raises", f"{target} raises {err_name(err)} on a heterogeneous list "
                f"({[(e.get('dtype', 'float32'), 'numpy' if e.get('numpy') else 'torch') for e in elems]})", observed=repr(err)[:200])
            return out
        outs = got if isinstance(got, list) else [got]
        if len(outs) != len(objs):
            bad(f"prim/{target}/count", f"{target} returns {len(outs)} items for {len(objs)} inputs")
            return out
        mx = [max(int(o.shape[a]) for o in objs) for a in range(len(objs[0].shape))] if objs else []
        for j, (o, x, e) in enumerate(zip(outs, objs, elems)):
            if target == "crop_to_largest":
                xn = x if isinstance(x, np.ndarray) else x.numpy()
                ref = _window_ref(xn, [-((m - n) // 2) for m, n in zip(mx, xn.shape)], mx, np.asarray(c.get("fill", 0)).astype(xn.dtype))
                single = ref if isinstance(x, np.ndarray) else torch.from_numpy(ref)
            else:
                single, e1 = run(x)
                if e1 is not None:
                    bad(f"prim/{target}/list-vs-single", f"{target} accepts element {j} inside a list but raises {err_name(e1)} on it alone")
                    continue
            what = None
            kind = lambda v: "ndarray" if isinstance(v, (np.ndarray, np.generic)) else type(v).__name__   # noqa: E731 (subclasses welcome)
            if kind(o) != kind(single):
                what = f"type {type(o).__name__} instead of {type(single).__name__}"
            elif str(o.dtype) != str(single.dtype):
                what = f"dtype {o.dtype} instead of {single.dtype}"
            elif tuple(o.shape) != tuple(single.shape):
                what = f"shape {tuple(o.shape)} instead of {tuple(single.shape)}"
            elif not _eq(o, single):
                what = "different values"
            if what:
                bad(f"prim/{target}/list-vs-single", f"{target} on a heterogeneous list: output {j} is not what the call on that element "
                    f"alone returns ({what}); list = {[(e_.get('dtype', 'float32'), 'numpy' if e_.get('numpy') else 'torch') for e_ in elems]}",
                    element=j, observed=str(o.dtype), expected=str(single.dtype))
                break
        # layout independence: the same logical arrays in the plain layout give the same outputs
        if any(e.get("np_layout", "plain") != "plain" or e.get("layout", "contiguous") != "contiguous" for e in elems):
            plain = [np.ascontiguousarray(np.asarray(o)).astype(o.dtype.newbyteorder("=")) if isinstance(o, np.ndarray) else o.contiguous()
                     for o in objs]
            got_p, err_p = run(plain)
            outs_p = [] if got_p is None else (got_p if isinstance(got_p, list) else [got_p])
            if err_p is not None or len(outs_p) != len(outs):
                bad(f"prim/{target}/layout-dependent", f"{target} handles the list in its given layouts but not in the plain layout")
            else:
                for j, (o, q) in enumerate(zip(outs, outs_p)):
                    on, qn = np.asarray(o) if not isinstance(o, torch.Tensor) else o.numpy(), \
                        np.asarray(q) if not isinstance(q, torch.Tensor) else q.numpy()
                    if on.shape != qn.shape or on.dtype.newbyteorder("=") != qn.dtype.newbyteorder("=") or not np.array_equal(on, qn):
                        bad(f"prim/{target}/layout-dependent", f"{target}: output {j} depends on the memory layout of the input "
                            f"({elems[j].get('np_layout') or elems[j].get('layout')})", element=j)
                        break
        # aliasing: overwriting one output changes neither another output nor an input
        snap = [o.copy() if isinstance(o, np.ndarray) else o.clone() for o in outs]
        for j, o in enumerate(outs):
            if isinstance(o, np.ndarray):
                if o.size and o.flags.writeable:
                    o[...] = 0
            elif o.numel():
                o.zero_()
            for i2, (o2, s2) in enumerate(zip(outs, snap)):
                if i2 > j and not _eq(o2, s2):
                    bad(f"prim/{target}/outputs-alias", f"{target}: outputs {j} and {i2} of one call share memory")
                    return out
        if not all(_eq(x, k) for x, k in zip(objs, keep)):
            bad(f"prim/{target}/aliases-input", f"{target}: an output shares memory with an input")
        return out

    if fn == "bbox_twin":
        # direct/utils/bbox.py is a second copy of direct/data/bbox.py: same contract expected
        import importlib
        try:
            twin = importlib.import_module("direct.utils.bbox")
        except ImportError:
            return out
        x0 = _labels(c["shape"])
        bbox, fill = c["bbox"], c.get("fill", 0)
        nd = len(bbox) // 2
        ref = _window_ref(x0.numpy(), bbox[:nd], bbox[nd:], np.asarray(fill).astype(x0.numpy().dtype))
        try:
            got = twin.crop_to_bbox(x0, bbox, pad_value=fill)
            if not _eq(got, ref):
                bad("bbox-utils-twin-unrepaired", "direct.utils.bbox.crop_to_bbox (copy of direct.data.bbox) differs from the addressed "
                    "window with pad fill", expected=str(ref.tolist())[:300], observed=str(got.tolist())[:300])
        except (ValueError, TypeError, RuntimeError, IndexError) as e:
            bad("bbox-utils-twin-unrepaired", f"direct.utils.bbox.crop_to_bbox (an unrepaired copy of direct.data.bbox.crop_to_bbox) raises "
                f"{err_name(e)} for a box disjoint from the data", observed=repr(e)[:200])
        return out

    if fn in ("complex_random_crop", "complex_center_crop"):
        shapes = c.get("shapes") or [c["shape"]]
        xs = [_labels(s) + 100 * j for j, s in enumerate(shapes)]
        keep = [x.clone() for x in xs]
        arg = xs if c.get("as_list", len(xs) > 1) else xs[0]
        kw = {k: c[k] for k in ("offset", "contiguous", "sampler", "sigma", "seed") if k in c}
        if isinstance(kw.get("seed"), list):
            kw["seed"] = tuple(kw["seed"]) if c.get("seed_form") != "ndarray" else np.asarray(kw["seed"])
        if c.get("sigma_form") == "tuple" and isinstance(kw.get("sigma"), list):
            kw["sigma"] = tuple(kw["sigma"])
        crop = _target_form(c["crop"], c.get("form", "tuple"))
        f = getattr(T, fn)
        st = np.random.get_state()
        try:
            got = f(arg, crop, **kw)
            got2 = f(arg, crop, **kw) if "seed" in kw and kw["seed"] is not None else None
            err = None
        except (ValueError, TypeError, RuntimeError, IndexError, AssertionError) as e:
            got, got2, err = None, None, e
        finally:
            np.random.set_state(st)
        offset = c.get("offset", 1)
        img = list(shapes[0])
        eff = [s if s else img[offset + j] for j, s in enumerate(c["crop"])]
        too_big = any(e > img[offset + j] for j, e in enumerate(eff))
        if c.get("expect") == "raises" or too_big or len({tuple(s) for s in shapes}) > 1:
            if err is None:
                bad(f"prim/{fn}/accepts-invalid", f"{fn} accepts an invalid call ({c.get('why', 'crop larger than data')})")
            elif not isinstance(err, ValueError):
                bad(f"prim/{fn}/wrong-exception", f"{fn} raises {err_name(err)} instead of ValueError ({c.get('why', 'crop larger than data')})")
            return out
        if err is not None:
            key = f"prim/{fn}/raises"
            if fn == "complex_random_crop" and isinstance(c.get("sigma"), list) and len(c["sigma"]) == 1:
                key = "random-crop-sigma-singleton-list"
            bad(key, f"{fn} raises {err_name(err)} on a valid call (options {kw})", observed=repr(err)[:200])
            return out
        outs = got if isinstance(got, list) else [got]
        if isinstance(got, list) != (len(xs) > 1):
            bad(f"prim/{fn}/return-form", f"{fn} returns {'a list' if isinstance(got, list) else 'a tensor'} for {len(xs)} input(s)")
        if len(outs) != len(xs):
            bad(f"prim/{fn}/count", f"{fn} returns {len(outs)} tensors for {len(xs)} inputs")
            return out
        # which corner?  centre: floor((n-s)/2); seeded random: numpy's draw; unseeded: any in-range corner
        limits = [img[offset + j] - e for j, e in enumerate(eff)]
        if fn == "complex_center_crop":
            corners = [[l // 2 for l in limits]]
        elif kw.get("seed") is not None:
            rs = np.random.RandomState(kw["seed"])
            if kw.get("sampler", "uniform") == "uniform":
                corners = [rs.randint(0, np.asarray(limits) + 1).tolist()]
            else:
                ds = np.asarray(img[offset:offset + len(eff)])
                sg = kw.get("sigma")
                sg = ds / 6 if not sg else ([sg] * len(eff) if isinstance(sg, float) else list(sg))
                lp = (rs.normal(loc=ds / 2, scale=sg, size=len(ds)) - np.asarray(eff) / 2).astype(int)
                corners = [np.clip(lp, 0, limits).tolist()]
        else:
            corners = [list(p) for p in itertools.product(*[range(l + 1) for l in limits])]

        def win(x, corner):
            idx = [slice(None)] * x.ndim
            for j, (a, e) in enumerate(zip(corner, eff)):
                idx[offset + j] = slice(a, a + e)
            return x[tuple(idx)]

        hit = [cn for cn in corners if all(_eq(o, win(x, cn)) for o, x in zip(outs, xs))]
        if not hit:
            bad(f"prim/{fn}/window", f"{fn} does not return the {'central' if fn == 'complex_center_crop' else 'drawn / an in-range'} window "
                f"(the same one for every tensor of the list); options {kw}",
                observed=[list(o.shape) for o in outs], expected_corner=corners[0] if len(corners) == 1 else "any in range")
        if got2 is not None:
            outs2 = got2 if isinstance(got2, list) else [got2]
            if not all(_eq(a, b) for a, b in zip(outs, outs2)):
                bad(f"prim/{fn}/seed-not-reproducible", f"{fn} with the same seed twice gives different windows")
        if kw.get("contiguous") and not all(o.is_contiguous() for o in outs):
            bad(f"prim/{fn}/contiguous", f"{fn}(contiguous=True) returns a non-contiguous tensor")
        if not all(_eq(x, k) for x, k in zip(xs, keep)):
            bad(f"prim/{fn}/inplace", f"{fn} modified its input")
        return out
    raise ValueError(fn)


# --------------------------------------------------------------------------------------------------
def gen_cases(ctx: Ctx, deep: bool):
    rng = ctx.rng
    big = deep or ctx.thorough
    layouts = ["contiguous", "transposed", "strided", "sliced", "permuted"]
    forms = ["tuple", "list", "size", "ndarray", "tensor"]

    def shape(rank, lo=1, hi=5):
        return [rng.randint(lo, hi) for _ in range(rank)]

    # ---- pad_tensor: value != 0, ranks up to 6, target forms, dtypes, layouts
    for rank in (2, 3, 4, 5, 6):
        for k in (2, 3):
            if rank < k:
                continue
            shp = [rng.randint(1, 2) for _ in range(rank - k)] + shape(k, 1, 4)
            yield {"fn": "pad_tensor", "shape": shp, "target": [n + rng.choice([1, 3]) for n in shp[-k:]],
                   "value": rng.choice([2.5, -1.0, 7]), "form": rng.choice(forms[:4])}
    for _ in range(60 if not big else 600):
        k = rng.choice([2, 2, 3])
        rank = rng.randint(k, 6)
        shp = [rng.randint(1, 2) for _ in range(rank - k)] + shape(k, 1, 5)
        c = {"fn": "pad_tensor", "shape": shp, "target": [max(1, n + rng.choice([-1, 0, 1, 2, 3, 4])) for n in shp[-k:]],
             "form": rng.choice(forms[:4]), "layout": rng.choice(layouts),
             "dtype": rng.choice(["float32", "float32", "float64", "int64", "complex64", "float16"])}
        if rng.random() < 0.6:
            c["value"] = rng.choice([0, 1, -3, 2.5]) if c["dtype"] not in ("int64",) else rng.choice([0, 1, -3])
        yield c
    for n_t in (1, 4):
        yield {"fn": "pad_tensor", "shape": [2, 3, 3, 3], "target": [4] * n_t, "expect": "raises"}
    # ---- center_crop: non-contiguous inputs, ranks 2..6, crop forms
    for _ in range(60 if not big else 600):
        rank = rng.randint(2, 6)
        shp = [rng.randint(1, 2) for _ in range(rank - 2)] + shape(2, 1, 7)
        yield {"fn": "center_crop", "shape": shp, "crop": [rng.randint(1, shp[-2]), rng.randint(1, shp[-1])],
               "form": rng.choice(forms), "layout": rng.choice(layouts), "dtype": rng.choice(["float32", "int64", "complex64", "bool"])}
    # ---- crop_to_bbox: numpy and torch paths, dtypes, layouts, bbox forms
    for _ in range(120 if not big else 1500):
        rank = rng.randint(1, 4)
        shp = shape(rank, 1, 5)
        coords = [rng.randint(-3, n + 1) for n in shp]
        size = [rng.randint(0 if rng.random() < 0.1 else 1, n + 3) for n in shp]
        dt = rng.choice(["float32", "float64", "float16", "int64", "int16", "uint8", "complex64", "bool"])
        yield {"fn": "crop_to_bbox", "shape": shp, "bbox": coords + size, "fill": rng.choice([0, 0, 1, 3] if dt != "bool" else [0, 1]),
               "dtype": dt, "path": rng.choice(["numpy", "torch"]), "layout": rng.choice(layouts[:4]),
               "form": rng.choice(["list", "tuple", "ndarray"])}
    # numpy ladder: every layout x in-range / padded box, numpy-only dtypes, empty axes, 0-d
    for lay in NP_LAYOUTS:
        for bbox in ([1, 1, 2, 2], [-1, 2, 3, 4], [0, 0, 3, 4]):
            yield {"fn": "crop_to_bbox", "shape": [3, 4], "bbox": bbox, "fill": 1, "dtype": rng.choice(["float32", "int64", "complex64"]),
                   "path": "numpy", "np_layout": lay}
    for _ in range(60 if not big else 800):
        rank = rng.randint(1, 4)
        shp = [rng.randint(0 if rng.random() < 0.08 else 1, 5) for _ in range(rank)]
        coords = [rng.randint(-3, n + 1) for n in shp]
        size = [rng.randint(0 if rng.random() < 0.1 else 1, n + 3) for n in shp]
        dt = rng.choice(["float32", "float64", "int64", "int16", "uint8", "complex64", "bool", "uint16", "uint32", "longdouble"])
        yield {"fn": "crop_to_bbox", "shape": shp, "bbox": coords + size, "fill": rng.choice([0, 1, 3] if dt != "bool" else [0, 1]),
               "dtype": dt, "path": "numpy", "np_layout": rng.choice(NP_LAYOUTS), "form": rng.choice(["list", "tuple", "ndarray"])}
    yield {"fn": "crop_to_bbox", "shape": [], "bbox": [], "dtype": "float64", "path": "numpy"}
    # a single numpy array (not a list) through the complex crops, every layout
    for lay in NP_LAYOUTS:
        for target in ("complex_center_crop", "complex_random_crop"):
            c = {"fn": "list_hetero", "target": target, "shape": [2, 5, 4, 2], "crop": [3, 2], "bare": True,
                 "elems": [{"dtype": rng.choice(["float32", "float64"]), "numpy": True, "np_layout": lay}]}
            if target == "complex_random_crop":
                c["seed"] = 5
            yield c
    yield {"fn": "crop_to_bbox", "shape": [4], "bbox": [-1, 3], "fill": 1, "dtype": "bool", "path": "torch"}    # defect of the pinned tree, once per run
    yield {"fn": "bbox_twin", "shape": [5, 2], "bbox": [13, 3, 2, 5], "fill": 0}                                   # defect of the pinned tree, once per run
    for _ in range(20 if not big else 200):
        shp = shape(rng.randint(1, 3), 1, 5)
        yield {"fn": "bbox_twin", "shape": shp, "bbox": [rng.randint(-3, n - 1) for n in shp] + [rng.randint(1, n + 3) for n in shp],
               "fill": rng.choice([0, 2])}
    # ---- heterogeneous lists for every function that takes a list of tensors
    dts = ["float32", "float64", "float16", "int64", "int16", "uint8", "complex64", "bool"]

    def elem_list(n, allow_numpy):
        es = []
        for j in range(n):
            r = rng.random()
            if j and r < 0.2:
                es.append({"same_as": rng.randrange(j)})            # the same tensor object twice
                continue
            e = {"dtype": rng.choice(dts), "layout": rng.choice(layouts[:4])}
            if e["dtype"] == "int64" and rng.random() < 0.6:
                e["large"] = True
            if allow_numpy and rng.random() < 0.4 and e["dtype"] != "float16":
                e["numpy"] = True
                e["np_layout"] = rng.choice(NP_LAYOUTS)
            es.append(e)
        return es

    fixed_mix = [[{"dtype": "float32"}, {"dtype": "bool"}], [{"dtype": "float32"}, {"dtype": "int64", "large": True}],
                 [{"dtype": "float32"}, {"dtype": "float64"}], [{"dtype": "float32"}, {"same_as": 0}, {"dtype": "uint8", "layout": "transposed"}],
                 [{"dtype": "float32"}, {"dtype": "float32", "numpy": True}, {"dtype": "int64", "numpy": True}]]
    for target in ("complex_center_crop", "complex_random_crop"):
        for mix in fixed_mix:
            c = {"fn": "list_hetero", "target": target, "shape": [2, 5, 4, 2], "crop": [3, 2], "elems": mix}
            if target == "complex_random_crop":
                c["seed"] = 11
            yield c
        for _ in range(25 if not big else 300):
            rank = rng.choice([3, 4, 5])
            shp = shape(rank - 1, 2, 5) + [2]
            offset = rng.choice([0, 1])
            ncrop = 2 if rank - 1 - offset >= 2 else 1
            c = {"fn": "list_hetero", "target": target, "shape": shp, "offset": offset,
                 "crop": [rng.randint(1, shp[offset + j]) for j in range(ncrop)], "elems": elem_list(rng.randint(2, 4), True)}
            if rng.random() < 0.3 and not any(e.get("numpy") for e in c["elems"]):
                c["contiguous"] = True
            if target == "complex_random_crop":
                c["seed"] = rng.randrange(2 ** 31)
                if rng.random() < 0.4:
                    c["sampler"] = "gaussian"
            yield c
        yield {"fn": "list_hetero", "target": target, "shape": [2, 5, 4, 2], "crop": [3, 2], "expect": "raises",
               "elems": [{"dtype": "float32"}, {"dtype": "float32", "shape": [5, 4, 2]}]}                       # mixed ranks: rejected
    for mix in fixed_mix:
        yield {"fn": "list_hetero", "target": "crop_to_largest", "shape": [3, 2], "fill": 1,
               "elems": [dict(e, shape=[3 - (j % 2), 2 + j]) if "same_as" not in e else e for j, e in enumerate(mix)]}
    for _ in range(25 if not big else 300):
        rank = rng.randint(1, 3)
        es = [dict(e, shape=shape(rank, 1, 5)) if "same_as" not in e else e for e in elem_list(rng.randint(2, 4), True)]
        yield {"fn": "list_hetero", "target": "crop_to_largest", "shape": shape(rank, 1, 5), "fill": rng.choice([0, 1, 3]), "elems": es}
    yield {"fn": "list_hetero", "target": "crop_to_largest", "shape": [3, 2], "expect": "raises",
           "elems": [{"dtype": "float32"}, {"dtype": "float32", "shape": [3]}]}                                   # mixed ranks: rejected
    # ---- crop_to_largest
    for _ in range(30 if not big else 300):
        rank = rng.randint(1, 3)
        yield {"fn": "crop_to_largest", "shapes": [shape(rank, 1, 5) for _ in range(rng.randint(1, 4))],
               "fill": rng.choice([0, 0, 9]), "path": rng.choice(["numpy", "torch"]), "dtype": rng.choice(["float32", "int64"]),
               "np_layouts": [rng.choice(NP_LAYOUTS) for _ in range(4)]}
    yield {"fn": "crop_to_largest", "shapes": [[2, 3], [3, 3]], "fill": 0, "path": "torch"}                      # defect of the pinned tree, once per run
    yield {"fn": "crop_to_largest", "shapes": [], "fill": 0, "path": "torch"}
    # ---- complex_center_crop / complex_random_crop: every option
    for _ in range(120 if not big else 1500):
        fn = rng.choice(["complex_random_crop", "complex_random_crop", "complex_center_crop"])
        rank = rng.choice([3, 4, 5])
        offset = rng.choice([0, 1, 1, 2]) if rank >= 4 else rng.choice([0, 1])
        ncrop = rng.choice([2, 3]) if rank - 1 - offset >= 3 else 2 if rank - 1 - offset >= 2 else 1
        shp = shape(rank - 1, 2, 6) + [2]
        crop = []
        for j in range(ncrop):
            n = shp[offset + j]
            r = rng.random()
            crop.append(0 if r < 0.1 else n + 1 if r < 0.13 else rng.randint(1, n))
        c = {"fn": fn, "shape": shp, "crop": crop, "offset": offset, "form": rng.choice(["tuple", "list"])}
        if rng.random() < 0.3:
            c["shapes"] = [shp] * rng.randint(2, 3)
        elif rng.random() < 0.15:
            c["shapes"], c["as_list"] = [shp], True
        if rng.random() < 0.4:
            c["contiguous"] = rng.random() < 0.7
        if fn == "complex_random_crop":
            if rng.random() < 0.75:
                sd = rng.choice(["int", "tuple", "ndarray"])
                c["seed"] = rng.randrange(2 ** 31) if sd == "int" else [rng.randrange(256) for _ in range(rng.randint(1, 6))]
                c["seed_form"] = sd
            if rng.random() < 0.5:
                c["sampler"] = "gaussian"
                r = rng.random()
                if r < 0.3:
                    c["sigma"] = rng.choice([0.5, 1.5, 3.0])
                elif r < 0.6:
                    c["sigma"] = [rng.choice([0.5, 1.5, 3.0]) for _ in crop]
                    c["sigma_form"] = rng.choice(["list", "tuple"])
            elif rng.random() < 0.3:
                c["sampler"] = "uniform"
        yield c
    yield {"fn": "complex_random_crop", "shape": [2, 5, 6, 2], "crop": [3, 4], "sampler": "gaussian", "sigma": [1.5], "seed": 3}  # defect of the pinned tree
    yield {"fn": "complex_random_crop", "shape": [2, 5, 6, 2], "crop": [3, 4], "sampler": "gaussian", "sigma": [1.0, 2.0, 3.0],
           "expect": "raises", "why": "three sigmas for a two-axis crop"}
    yield {"fn": "complex_random_crop", "shape": [2, 5, 6, 2], "crop": [3, 4], "sampler": "uniform", "sigma": 1.0,
           "expect": "raises", "why": "sigma with the uniform sampler"}
    yield {"fn": "complex_random_crop", "shape": [2, 5, 6, 2], "crop": [3, 4], "sampler": "triangular",
           "expect": "raises", "why": "unknown sampler"}
    yield {"fn": "complex_random_crop", "shapes": [[2, 5, 6, 2], [1, 5, 6, 2]], "crop": [3, 4], "why": "inputs of different shapes"}
    yield {"fn": "complex_center_crop", "shapes": [[2, 5, 6, 2], [2, 5, 5, 2]], "crop": [3, 4], "why": "inputs of different shapes"}


def _bucket(c):
    b = "oracle/prim/" + c["fn"]
    if c["fn"] == "pad_tensor":
        return b + f"/rank{len(c['shape'])}" + ("/value" if c.get("value", 0) != 0 else "") + "/" + c.get("form", "tuple")
    if c["fn"] == "center_crop":
        return b + "/" + c.get("layout", "contiguous") + "/" + c.get("form", "tuple")
    if c["fn"] == "crop_to_bbox":
        return b + "/" + c.get("path", "torch") + "/" + (c.get("np_layout") or c.get("dtype", "float32"))
    if c["fn"] == "crop_to_largest":
        return b + "/" + c.get("path", "torch")
    if c["fn"] == "list_hetero":
        kinds = {("numpy" if e.get("numpy") else "torch") for e in c["elems"] if "same_as" not in e}
        return b + "/" + c["target"] + ("/numpy+torch" if len(kinds) > 1 else "/" + kinds.pop()) + \
            ("/dup" if any("same_as" in e for e in c["elems"]) else "")
    if c["fn"] == "bbox_twin":
        return b
    return b + "/" + c.get("sampler", "default") + ("/seeded" if c.get("seed") is not None else "") + \
        ("/list" if c.get("shapes") else "") + ("/sigma" if "sigma" in c else "")


def oracle_prims(ctx: Ctx, deep: bool = False):
    seen = set()
    for c in gen_cases(ctx, deep):
        ctx.count(("prim", repr(c)), True, bucket=_bucket(c))
        for key, what, detail in run_case(c):
            if key in seen:
                continue
            seen.add(key)
            yield Violation(key, what, {"op": "primitive", "case": c, "detail": detail})


def replay_prims(rep: dict) -> bool:
    return bool(run_case(rep["case"]))
