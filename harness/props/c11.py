"""C11 — self-supervised mask splitting is a partition that honours ratio and ACS.

The real code never runs in this process: every call goes to a worker subprocess (`_worker_main`) under a
watchdog, because the Cython kernel holds the GIL while it loops — a hang is reported as a finding
(`gaussian-split-hang`) with its arguments, never a stall of the check.  This process generates the cases,
reconstructs the kernel's libc candidate stream (ctypes `srand`/`rand` + Box–Muller), builds the protocol
lines for the Lean model and states the property on the returned masks.
"""
from __future__ import annotations

import ctypes
import json
import math
import os
import pathlib
import select
import struct
import subprocess
import sys
import time
from fractions import Fraction

from core import Ctx, ToolFailure, Violation, ints

PROP = "C11"
MANIFEST = {
    "text": "Lean 4 theorems for every mask, ACS mask, protected region, requested count and every candidate stream / "
            "choice list: Gaussian, uniform and half (4 directions) splits are partitions (union = mask, intersection "
            "empty, resp. = ACS with keep_acs), target inside the free cells, protected cells stay in the input, target "
            "size = min(requested, #free-1)+1 (Gaussian) / floor count (uniform), split k-spaces = mask restrictions and "
            "sum to the masked k-space, seeded output independent of ambient RNG state, kernel termination iff "
            "requested+1 <= #free for fair streams and therefore always after the cap (pre-repair divergence kept as "
            "witness). Tied to the code by translated loop guard / acceptance test / slice bounds / count, cap and seed "
            "expressions (bridge lemmas) and by exact differential replay on the reconstructed libc stream and recorded "
            "rng.choice draws.",
    "note": "Trusted: Lean kernel (+propext, Classical.choice, Quot.sound), the AST/.pyx translator, libc rand and numpy "
            "RandomState as deterministic functions of their seed, torch boolean/slice semantics as encoded by zipWith / "
            "pySlice (validated by correspondence). float32 products S*ratio enter the model as the integer they produce "
            "(checked to be within one of the exact-rational count); diagonal half splits are modelled on exact "
            "fractions, cells where float32 linspace disagrees are compared by the oracle only. Probabilistic claims "
            "(the libc stream is fair) are assumptions, not theorems.",
    "technique": "Lean 4 proof (list induction, omega, counting) + AST/.pyx translation bridge + differential "
                 "correspondence with reconstructed RNG streams under a subprocess watchdog",
}
TRUSTED = [
    "Lean 4.33 kernel; axioms ⊆ {propext, Classical.choice, Quot.sound}",
    "harness/translate + recipes/c11.py (Python AST / .pyx front-end -> Lean) for loop guard, acceptance test, slice bounds, "
    "count / cap / seed expressions, mask algebra",
    "libc rand()/srand() reproduced through ctypes; Box–Muller with math.sqrt/log/cos/sin equals the C kernel bit for bit",
    "numpy RandomState.choice(replace=False, p) returns distinct indices of non-zero probability (checked on every draw)",
    "torch boolean ops / slice assignment / apply_mask as encoded by zipWith / pySlice / applyMaskK (validated by correspondence)",
]
ASSUMPTIONS = [
    "the requested count enters the model as the integer the float32 product yields; the driver rejects it unless it is "
    "within +1 (ceil) / ±1 (floor) of the exact-rational count",
    "diagonal half splits: torch.linspace float32 coordinates agree with the exact fractions except possibly on the "
    "anti-diagonal; such cases are excluded from the differential comparison and checked by the oracle only",
    "termination is proved for fair candidate streams; that libc's stream is fair is not proved",
    "k-space entries are small integers (exact in float32)",
]
RULE = ("masks: line / 2-D random / sparse / nearly empty / full, 6..40 rows and columns, odd/even, non-square; ratios "
        "0.05..0.95 (also ratio lists); protected regions (0,0)..larger than the mask; keep_acs on/off; use_seed on/off; "
        "split_method and forward (batch 1..3) and the pipeline stage. non-trivial = at least 2 free cells and a stress "
        "feature (non-empty protected region / keep_acs / capped request / both parts non-empty); distinct = distinct "
        "case description")

# findings of this check on the current tree that the lead has not yet ruled on (still reported as VIOLATION)
PENDING_FINDINGS: list[str] = []

HARNESS = pathlib.Path(__file__).resolve().parent.parent
WATCHDOG_S = 20.0
STREAM_CAP = 6000
DIRS = ["horizontal", "vertical", "diagonal_left", "diagonal_right"]
RATIOS = [(1, 20), (19, 20), (1, 2), (3, 10), (9, 10), (2, 5), (3, 4), (1, 3), (7, 10), (1, 4), (1, 10), (4, 5)]


# ==================================================================================================
# worker: the only place where the real code runs
def _worker_main():  # pragma: no cover - runs in the subprocess
    real_out = os.fdopen(os.dup(1), "w")
    os.dup2(2, 1)  # stray prints of the library go to stderr
    import boot  # noqa: F401
    import numpy as np
    import torch

    import direct.ssl.ssl as S

    orig_fill = S.gaussian_fill
    calls: list[dict] = []

    def rec_fill(n, nrow, ncol, cx, cy, std, mask, out, seed):
        calls.append({"n": int(n), "nrow": int(nrow), "ncol": int(ncol), "cx": int(cx), "cy": int(cy), "std": float(std),
                      "free": int(mask.sum()), "out0": int(out.sum()), "seed": int(seed)})
        return orig_fill(n, nrow, ncol, cx, cy, std, mask, out, seed)

    S.gaussian_fill = rec_fill

    class RecRS(np.random.RandomState):
        log: list = []

        def seed(self, s=None):
            self.log.append(["seed", None if s is None else [int(v) for v in s] if isinstance(s, (tuple, list)) else [int(s)]])
            return super().seed(s)

        def randint(self, low, high=None, *a, **k):
            r = super().randint(low, high, *a, **k)
            self.log.append(["randint", int(low), int(high), int(r)])
            return r

        def choice(self, a, size=None, replace=True, p=None):
            r = super().choice(a, size=size, replace=replace, p=p)
            self.log.append(["choice", int(len(a)), int(size), bool(replace), int(np.count_nonzero(p)),
                             [int(v) for v in np.atleast_1d(r)]])
            return r

    libc = ctypes.CDLL("libc.so.6")

    def build(case):
        kind = case["kind"]
        ratios = [p / q for p, q in case["ratios"]]
        kw = dict(acs_region=tuple(case["a"]), keep_acs=bool(case["keep"]), use_seed=bool(case["use_seed"]),
                  kspace_key="masked_kspace")
        if case["level"] == "pipeline":
            from direct.data.mri_transforms import TransformsType, build_mri_transforms
            from direct.data.transforms import fft2, ifft2

            comp = build_mri_transforms(
                forward_operator=fft2, backward_operator=ifft2, mask_func=None, transforms_type=TransformsType.SSL_SSDU,
                use_seed=bool(case["use_seed"]), mask_split_ratio=ratios if len(ratios) > 1 else ratios[0],
                mask_split_acs_region=tuple(case["a"]), mask_split_keep_acs=bool(case["keep"]),
                mask_split_type=S.MaskSplitterType(kind if kind != "gauss" else "gaussian"),
                mask_split_gaussian_std=float(case.get("std", 3.0)),
                mask_split_half_direction=S.HalfSplitType(case.get("dir", "vertical")))
            stage = [t for t in comp.transforms if isinstance(getattr(t, "_transform", t), S.MaskSplitter)]
            if len(stage) != 1:
                raise RuntimeError(f"pipeline has {len(stage)} splitter stages")
            return stage[0], getattr(stage[0], "_transform", stage[0])
        if kind == "gauss":
            sp = S.GaussianMaskSplitterModule(ratio=ratios if len(ratios) > 1 else ratios[0], std_scale=float(case.get("std", 3.0)), **kw)
        elif kind == "uniform":
            sp = S.UniformMaskSplitterModule(ratio=ratios if len(ratios) > 1 else ratios[0], **kw)
        else:
            sp = S.HalfMaskSplitterModule(direction=S.HalfSplitType(case["dir"]), **kw)
        return sp, sp

    def run_once(case, perturb):
        call, sp = build(case)
        sp.rng = RecRS()
        # different call histories must not matter when seeding is on
        np.random.seed(perturb % (2 ** 31))
        torch.manual_seed(perturb)
        libc.srand(perturb % (2 ** 31))
        sp.rng.seed(perturb % (2 ** 31))
        sp.rng.rand(perturb % 5)
        RecRS.log = []
        sp.rng.log = RecRS.log
        del calls[:]
        st0 = sp.rng.get_state()
        H, W, B, C = case["nrow"], case["ncol"], case["B"], case["C"]
        masks = [torch.tensor(m, dtype=torch.bool).reshape(1, H, W, 1) for m in case["masks"]]
        acss = [torch.tensor(a, dtype=torch.bool).reshape(1, H, W, 1) for a in case["acs"]] if case["acs"] else None
        res: dict = {}
        if case["level"] == "split":
            seed = tuple(case["seed"]) if case["seed"] is not None else None
            if case.get("raw"):     # the documented rejection lives in the underscore methods
                kw2 = {"std_scale": sp.std_scale} if case["kind"] == "gauss" else {}
                fn = sp._gaussian_split if case["kind"] == "gauss" else sp._uniform_split
                i, t = fn(masks[0].squeeze(), seed=seed, acs_mask=None, **kw2)
            else:
                i, t = sp.split_method(masks[0], acss[0] if acss is not None else None, seed)
            res["shape"] = [list(i.shape), list(t.shape)]
            res["dtype"] = [str(i.dtype), str(t.dtype)]
            res["input"] = [[int(v) for v in i.reshape(-1).tolist()]]
            res["target"] = [[int(v) for v in t.reshape(-1).tolist()]]
        else:
            ks = [torch.tensor(k, dtype=torch.float32).reshape(C, H, W, 2) for k in case["kspace"]]
            if case["level"] == "forward":
                sample = {"sampling_mask": torch.stack(masks), "masked_kspace": torch.stack(ks),
                          "filename": list(case["filename"]), "slice_no": list(case["slice_no"])}
                if acss is not None:
                    sample["acs_mask"] = torch.stack(acss)
            else:
                sample = {"sampling_mask": masks[0], "masked_kspace": ks[0], "filename": case["filename"][0],
                          "slice_no": case["slice_no"][0]}
                if acss is not None:
                    sample["acs_mask"] = acss[0]
            out = call(sample)
            im, tm = out["input_sampling_mask"], out["target_sampling_mask"]
            ik, tk = out["input_masked_kspace"], out["target_masked_kspace"]
            if case["level"] == "pipeline":
                im, tm, ik, tk = im[None], tm[None], ik[None], tk[None]
            res["shape"] = [list(im.shape), list(tm.shape), list(ik.shape), list(tk.shape)]
            res["dtype"] = [str(im.dtype), str(tm.dtype)]
            res["input"] = [[int(v) for v in im[b].reshape(-1).tolist()] for b in range(im.shape[0])]
            res["target"] = [[int(v) for v in tm[b].reshape(-1).tolist()] for b in range(tm.shape[0])]
            fk = lambda x: [[int(v) for v in x[b].reshape(-1).tolist()] for b in range(x.shape[0])]  # noqa: E731
            res["ink"], res["tgk"] = fk(ik), fk(tk)
            res["k_integral"] = bool((ik == ik.round()).all() and (tk == tk.round()).all())
        if case["kind"] == "half" and case["dir"].startswith("diagonal"):
            xv, yv = torch.meshgrid(torch.linspace(-1, 1, H), torch.linspace(-1, 1, W), indexing="ij")
            fl = ((xv + yv) if case["dir"] == "diagonal_right" else (xv - yv)) <= 0
            sgn = 1 if case["dir"] == "diagonal_right" else -1
            ex = [[(_coord(H, i) + sgn * _coord(W, j)) <= 0 for j in range(W)] for i in range(H)]
            res["diag_exact"] = bool(fl.tolist() == ex)
        st1 = sp.rng.get_state()
        res["rng_restored"] = bool(st0[0] == st1[0] and (st0[1] == st1[1]).all() and st0[2:] == st1[2:])
        res["calls"] = [dict(c) for c in calls]
        res["log"] = list(RecRS.log)
        return res

    def run_case(case):
        t0 = time.time()
        try:
            res = run_once(case, int(case.get("perturb", 1)))
        except Exception as e:  # noqa: BLE001 - canonicalised
            return {"ok": False, "err": type(e).__name__, "msg": str(e)[:300], "calls": [dict(c) for c in calls],
                    "log": list(RecRS.log)}
        res["ok"] = True
        if case.get("twice"):
            try:
                r2 = run_once(case, int(case.get("perturb", 1)) * 7919 + 13)
                res["input2"], res["target2"] = r2["input"], r2["target"]
            except Exception as e:  # noqa: BLE001
                res["input2"], res["target2"] = None, f"{type(e).__name__}: {e}"[:200]
        res["time"] = round(time.time() - t0, 4)
        return res

    real_out.write(json.dumps({"ready": True, "ext": dict(boot.ext_info)}) + "\n")
    real_out.flush()
    for ln in sys.stdin:
        ln = ln.strip()
        if not ln:
            continue
        real_out.write(json.dumps(run_case(json.loads(ln))) + "\n")
        real_out.flush()


class _Worker:
    """One subprocess running the real code; every call has a deadline."""

    def __init__(self):
        self.proc = None
        self.ext = {}
        self.restarts = 0

    def _start(self):
        code = (f"import sys; sys.path.insert(0, {str(HARNESS)!r}); import props.c11 as m; m._worker_main()")
        self.proc = subprocess.Popen([sys.executable, "-u", "-c", code], stdin=subprocess.PIPE, stdout=subprocess.PIPE,
                                     stderr=subprocess.DEVNULL, cwd=str(HARNESS), bufsize=0)
        hello = self._read(120.0)
        if hello is None or not hello.get("ready"):
            self.close()
            raise ToolFailure("C11 worker did not start (cannot import the implementation?)")
        self.ext = hello.get("ext", {})

    def _read(self, timeout):
        buf = b""
        end = time.time() + timeout
        fd = self.proc.stdout.fileno()
        while True:
            left = end - time.time()
            if left <= 0:
                return None
            r, _, _ = select.select([fd], [], [], left)
            if not r:
                return None
            chunk = os.read(fd, 1 << 16)
            if not chunk:
                raise ToolFailure("C11 worker died")
            buf += chunk
            if buf.endswith(b"\n"):
                return json.loads(buf.decode())

    def call(self, case: dict, timeout: float = WATCHDOG_S) -> dict:
        if self.restarts >= 3 and case.get("kind") == "gauss":
            # the hang is established (three watchdog kills); do not spend 20 s on every further Gaussian case
            return {"ok": False, "err": "Skipped", "msg": "skipped after repeated hangs", "calls": [], "log": []}
        if self.proc is None or self.proc.poll() is not None:
            self._start()
        self.proc.stdin.write((json.dumps(case) + "\n").encode())
        self.proc.stdin.flush()
        res = self._read(timeout)
        if res is None:
            self.close()
            self.restarts += 1
            return {"ok": False, "err": "Timeout", "msg": f"no answer within {timeout} s", "calls": [], "log": []}
        return res

    def close(self):
        if self.proc is not None:
            try:
                self.proc.kill()
                self.proc.wait(5)
            except Exception:  # noqa: BLE001
                pass
            for f in (self.proc.stdin, self.proc.stdout):
                try:
                    f.close()
                except Exception:  # noqa: BLE001
                    pass
        self.proc = None


_W = _Worker()
_RESULTS: list[tuple[dict, dict]] = []   # (case, result) of the correspondence phase, re-used by the oracle


# ==================================================================================================
# independent arithmetic of this process
def _f32(x: float) -> float:
    return struct.unpack("f", struct.pack("f", x))[0]


def _count_ceil_f32(S: int, p: int, q: int) -> int:
    """int(ceil(tensor(S) * ratio)): a float32 product (both operands rounded to float32, exact in double, rounded once)"""
    return int(math.ceil(_f32(_f32(float(S)) * _f32(p / q))))


def _count_floor_f32(S: int, p: int, q: int) -> int:
    return int(_f32(_f32(float(S)) * _f32(p / q)))


def _region(n: int, a: int) -> list[int]:
    """indices the code's slice `[n//2 - a//2 : n//2 + a//2]` addresses (Python slice semantics)"""
    c = n // 2
    return list(range(n))[c - a // 2: c + a // 2]


def _wraps(n: int, a: int) -> bool:
    return a // 2 > n // 2


def _protected(case) -> list[int]:
    H, W = case["nrow"], case["ncol"]
    rows, cols = set(_region(H, case["a"][0])), set(_region(W, case["a"][1]))
    return [1 if (k // W in rows and k % W in cols) else 0 for k in range(H * W)]


def _reduced(case, b):
    m = case["masks"][b]
    if case["keep"] and case["acs"]:
        return [x & (1 - a) for x, a in zip(m, case["acs"][b])]
    return list(m)


def _free(case, b):
    r = _reduced(case, b)
    if case["keep"]:
        return r
    return [x & (1 - p) for x, p in zip(r, _protected(case))]


_libc = ctypes.CDLL("libc.so.6")
_libc.rand.restype = ctypes.c_int
_libc.srand.argtypes = [ctypes.c_uint]
_INT_MIN = -(2 ** 31)


def _trunc(v: float) -> int:
    if v != v or v in (math.inf, -math.inf) or abs(v) >= 2 ** 31:
        return _INT_MIN
    return int(v)


def _stream(seed: int, nrow: int, ncol: int, cx: int, cy: int, std: float, free: list[int], n: int, tail: int = 3):
    """The kernel's candidate stream after srand(seed): the prefix it consumes for request `n` on `free`, plus `tail`
    further candidates.  None when longer than STREAM_CAP."""
    _libc.srand(seed & 0xFFFFFFFF)
    sx, sy = (nrow - 1) / std, (ncol - 1) / std
    out = []

    def nxt():
        u1 = _libc.rand() / 2147483647.0
        r = math.sqrt(-2 * math.log(u1)) if u1 > 0 else math.inf
        u2 = _libc.rand() / 2147483647.0
        th = 2 * math.pi * u2
        x = cx + r * math.cos(th) * sx
        y = cy + r * math.sin(th) * sy
        return _trunc(x), _trunc(y)

    chosen = set()
    count = 0
    while count <= n:
        c = nxt()
        out.append(c)
        if len(out) > STREAM_CAP:
            return None
        if 0 <= c[0] < nrow and 0 <= c[1] < ncol and free[c[0] * ncol + c[1]] and c not in chosen:
            chosen.add(c)
            count += 1
    for _ in range(tail):
        out.append(nxt())
    return out


def _coord(n: int, i: int) -> Fraction:
    return Fraction(-1) if n <= 1 else Fraction(2 * i, n - 1) - 1


# ==================================================================================================
# case generation
def _gen_mask(rng, H, W, mtype):
    if mtype == "full":
        m = [1] * (H * W)
    elif mtype == "line":
        cols = [1 if rng.random() < rng.choice([0.25, 0.5]) else 0 for _ in range(W)]
        for j in range(W // 2 - 1, W // 2 + 1):
            cols[j] = 1
        m = [cols[k % W] for k in range(H * W)]
    elif mtype == "2d":
        pr = rng.choice([0.2, 0.4, 0.6])
        m = [1 if rng.random() < pr else 0 for _ in range(H * W)]
    elif mtype == "sparse":
        m = [0] * (H * W)
        for _ in range(rng.randint(3, 8)):
            m[rng.randrange(H * W)] = 1
    else:  # nearly empty
        m = [0] * (H * W)
        for _ in range(rng.choice([0, 1, 1, 2])):
            m[rng.randrange(H * W)] = 1
    return m


def _gen_acs(rng, H, W, mask, mtype):
    """central ACS block (columns for line masks), made part of the mask"""
    h = rng.choice([2, 2, 3, 4])
    w = rng.choice([2, 3, 4])
    r0, c0 = H // 2 - h // 2, W // 2 - w // 2
    acs = [0] * (H * W)
    for i in range(H):
        for j in range(W):
            if c0 <= j < c0 + w and (mtype == "line" or r0 <= i < r0 + h):
                acs[i * W + j] = 1
    if rng.random() < 0.85:      # the usual situation: ACS ⊆ mask
        mask = [m | a for m, a in zip(mask, acs)]
    return mask, acs


def _gen_region(rng, H, W):
    r = rng.random()
    if r < 0.2:
        return [0, 0]
    if r < 0.55:
        return [rng.choice([1, 2, 3, 4]), rng.choice([1, 2, 3, 4])]
    if r < 0.75:
        return [rng.randint(0, H), rng.randint(0, W)]
    if r < 0.87:
        return [H, W]
    return [H + rng.randint(1, 8), W + rng.randint(0, 8)]


def _gen_size(rng, big_ok=True):
    r = rng.random()
    if r < 0.6 or not big_ok:
        return rng.randint(6, 12), rng.randint(6, 13)
    if r < 0.9:
        return rng.randint(9, 22), rng.randint(9, 24)
    return rng.randint(23, 40), rng.randint(23, 40)


def _name(rng):
    stem = rng.choice(["file", "brain_AXT1_", "knee-", "vol", "ü_"]) + str(rng.randrange(10 ** rng.randint(1, 7)))
    return stem + rng.choice([".h5", ".h5", ""])


def _gen_case(rng, kind: str, level: str) -> dict:
    H, W = _gen_size(rng, big_ok=(kind != "uniform" or True))
    B = 1 if level != "forward" else rng.choice([1, 2, 3])
    C = rng.choice([1, 2, 3]) if level != "split" else 1
    if level == "forward" and B * C * H * W > 2500:
        H, W = _gen_size(rng, big_ok=False)
    mtype = rng.choice(["line", "2d", "2d", "sparse", "nearly_empty", "full", "line"])
    keep = rng.random() < 0.35
    with_acs = keep or rng.random() < 0.3
    masks, acss = [], []
    for _ in range(B):
        m = _gen_mask(rng, H, W, mtype)
        if with_acs:
            m, a = _gen_acs(rng, H, W, m, mtype)
            acss.append(a)
        masks.append(m)
    use_seed = rng.random() < 0.8
    ratios = [rng.choice(RATIOS)] if rng.random() < 0.8 else [rng.choice(RATIOS) for _ in range(rng.choice([2, 3]))]
    if kind == "half":
        ratios = [(1, 2)]
    case = {"kind": kind, "level": level, "nrow": H, "ncol": W, "B": B, "C": C, "mtype": mtype, "masks": masks,
            "acs": acss if with_acs else None, "keep": int(keep), "a": _gen_region(rng, H, W), "ratios": ratios,
            "use_seed": int(use_seed), "perturb": rng.randrange(1, 10 ** 6), "twice": 1, "std": 3.0}
    if kind == "half":
        case["dir"] = rng.choice(DIRS)
    if level == "split":
        if use_seed:
            s = _name(rng) + str(rng.randrange(40))
            case["seed"] = [ord(ch) for ch in s]
        else:
            case["seed"] = None
    else:
        case["filename"] = [_name(rng) for _ in range(B)]
        case["slice_no"] = [rng.randrange(0, 300) for _ in range(B)]
        case["kspace"] = []
        for b in range(B):
            k = []
            for c in range(C):
                for cell in range(H * W):
                    on = masks[b][cell]
                    k += [rng.randint(-4, 4) * on, rng.randint(1, 4) * on]
            case["kspace"].append(k)
    return case


def _region_class(case) -> str:
    a, H, W = case["a"], case["nrow"], case["ncol"]
    return ("none" if a == [0, 0] or case["keep"] else "wraps" if _wraps(H, a[0]) or _wraps(W, a[1]) else
            "full" if a == [H, W] else "odd" if (a[0] % 2 or a[1] % 2) else "even")


def _bucket(case, res) -> str:
    return f"{case['level']}/{case['kind']}{('-' + case['dir']) if case['kind'] == 'half' else ''}"


def _histograms(ctx, case, res):
    """side histograms of the generator (do not count as evaluations)"""
    H, W = case["nrow"], case["ncol"]
    keys = [f"mask/{case['mtype']}", f"region/{_region_class(case)}", f"keep_acs/{case['keep']}", f"use_seed/{case['use_seed']}",
            f"batch/{case['B']}", f"rows/{'odd' if H % 2 else 'even'}-cols/{'odd' if W % 2 else 'even'}",
            f"size/{'6-12' if max(H, W) <= 13 else '13-24' if max(H, W) <= 24 else '25-40'}",
            f"acs_mask/{'given' if case['acs'] else 'none'}", f"outcome/{'ok' if res.get('ok') else res.get('err')}"]
    if case["kind"] != "half":
        keys += [f"ratio/{p}:{q}" for p, q in case["ratios"][:1]] + [f"ratios/{len(case['ratios'])}"]
    for k in keys:
        ctx.hist[k] = ctx.hist.get(k, 0) + 1


def _nontrivial(case, res) -> bool:
    if not res.get("ok"):
        return False
    nfree = min(sum(_free(case, b)) for b in range(case["B"]))
    both = all(sum(i) > 0 and sum(t) > 0 for i, t in zip(res["input"], res["target"]))
    stress = bool(case["keep"]) or (case["a"] != [0, 0]) or both
    return nfree >= 2 and stress


# ==================================================================================================
# protocol lines (model side) and canonical answers (implementation side)
def _grp(*groups) -> str:
    return " | ".join(ints(g) for g in groups)


def _err(res) -> str:
    return "err " + res.get("err", "Unknown")


def _protocol(case, res):
    """-> (line, impl answer, note) or (None, None, why-excluded)"""
    kind, level = case["kind"], case["level"]
    H, W, B, C = case["nrow"], case["ncol"], case["B"], case["C"]
    keep = case["keep"]
    acs = case["acs"]
    if level == "pipeline":
        return None, None, "pipeline-level: oracle only"
    if res.get("err") == "Timeout":
        return None, None, "timeout"
    # the recorded draws, per sample: every split starts with `rng.seed(seed)` (temp_seed)
    per: list[dict] = []
    for e in res.get("log", []):
        if e[0] == "seed":
            per.append({"seed": e[1]})
        elif per:
            per[-1][e[0]] = e
    calls = res.get("calls", [])

    def ratio_of(b):
        idx = per[b]["randint"][3] if b < len(per) and "randint" in per[b] else 0
        p, q = case["ratios"][idx if idx < len(case["ratios"]) else 0]
        return idx, p, q

    def choice_of(b):
        return per[b]["choice"] if b < len(per) and "choice" in per[b] else None

    if level == "split":
        a0, a1 = case["a"]
        acs0 = acs[0] if (acs and keep) else []
        if kind == "half":
            ln = "hsplit " + _grp([H, W, keep, a0, a1, DIRS.index(case["dir"])], case["masks"][0], acs0)
            ans = ("ok " + _grp(res["input"][0], res["target"][0])) if res["ok"] else _err(res)
            if case["dir"].startswith("diagonal") and res["ok"] and not res.get("diag_exact", False):
                return None, None, "diag-float-boundary"
            return ln, ans, ""
        idx, p, q = ratio_of(0)
        if kind == "gauss":
            S = sum(_reduced(case, 0))
            c = _count_ceil_f32(S, p, q)
            if not res["ok"]:
                return ("gsplit " + _grp([H, W, keep, a0, a1, c, p, q], case["masks"][0], acs0, [], [])), _err(res), ""
            if len(calls) != 1:
                return None, None, "kernel-not-called-once"
            k = calls[0]
            st = _stream(k["seed"], k["nrow"], k["ncol"], k["cx"], k["cy"], k["std"], _free(case, 0), k["n"])
            if st is None:
                return None, None, "stream-too-long"
            ln = "gsplit " + _grp([H, W, keep, a0, a1, c, p, q], case["masks"][0], acs0, [x for x, _ in st], [y for _, y in st])
            return ln, "ok " + _grp(res["input"][0], res["target"][0], [k["n"], k["free"]]), ""
        # uniform
        nfree = sum(_free(case, 0))
        cnt = _count_floor_f32(nfree, p, q)
        ch = choice_of(0)
        chosen = ch[5] if ch else []
        ln = "usplit " + _grp([H, W, keep, a0, a1, cnt, p, q], case["masks"][0], acs0, chosen)
        if not res["ok"]:
            return ln, _err(res), ""
        return ln, "ok " + _grp(res["input"][0], res["target"][0], [ch[2], ch[4]] if ch else []), ""
    # ---- forward
    a0, a1 = case["a"]
    kcode = {"gauss": 0, "uniform": 1, "half": 2}[kind]
    if kind == "half" and case["dir"].startswith("diagonal") and res["ok"] and not res.get("diag_exact", False):
        return None, None, "diag-float-boundary"
    groups = [[kcode, B, C, H, W, keep, a0, a1, DIRS.index(case.get("dir", "vertical")), case["use_seed"]]]
    for b in range(B):
        acsb = acs[b] if (acs and keep) else []
        fn = [ord(ch) for ch in str(case["filename"][b])]
        sl = [ord(ch) for ch in str(case["slice_no"][b])]
        idx, p, q = ratio_of(b)
        tup = (per[b]["seed"] or []) if b < len(per) else []
        d0, d1, c, seed = [], [], 0, 0
        if kind == "gauss":
            c = _count_ceil_f32(sum(_reduced(case, b)), p, q)
            if b < len(calls):
                k = calls[b]
                seed = k["seed"]
                st = _stream(k["seed"], k["nrow"], k["ncol"], k["cx"], k["cy"], k["std"], _free(case, b), k["n"])
                if st is None:
                    return None, None, "stream-too-long"
                d0, d1 = [x for x, _ in st], [y for _, y in st]
        elif kind == "uniform":
            c = _count_floor_f32(sum(_free(case, b)), p, q)
            d0 = choice_of(b)[5] if choice_of(b) else []
        groups += [case["masks"][b], acsb, fn, sl, case["kspace"][b], [c, p, q, idx, seed], tup, d0, d1]
    ln = "fwd " + _grp(*groups)
    if not res["ok"]:
        return ln, _err(res), ""
    if not res.get("k_integral", True):
        return None, None, "non-integral-kspace"
    out = []
    for b in range(B):
        out += [res["input"][b], res["target"][b], res["ink"][b], res["tgk"][b]]
    return ln, "ok " + _grp(*out), ""


# ==================================================================================================
# the property, stated on what the implementation returned
def _check(case, res):
    """yield (key, what) for every way `res` violates the property"""
    kind, level = case["kind"], case["level"]
    H, W, B, C = case["nrow"], case["ncol"], case["B"], case["C"]
    N = H * W
    if res.get("err") == "Timeout":
        yield ("gaussian-split-hang" if kind == "gauss" else f"{kind}-split-hang",
               f"{kind} split did not return within {WATCHDOG_S} s")
        return
    if not res["ok"]:
        nofree = any(sum(_free(case, b)) == 0 for b in range(B))
        if kind == "uniform" and res["err"] == "ValueError" and nofree and "NaN" in res.get("msg", ""):
            yield ("uniform-split-raises-when-no-free-cell",
                   "uniform split raises ValueError (probabilities contain NaN) when every sampled cell is protected")
        elif kind == "half" and level == "pipeline":
            yield ("half-splitter-unwrapped-in-pipeline",
                   f"the SSL pipeline's half-split stage raises {res['err']}: {res.get('msg', '')[:120]}")
        elif case["keep"] and not case["acs"] and res["err"] == "ValueError":
            return   # documented rejection: keep_acs without acs_mask
        else:
            yield (f"{kind}-split-raises-{res['err']}", f"{kind} split raises {res['err']}: {res.get('msg', '')[:160]}")
        return
    if len(res["input"]) != B or len(res["target"]) != B:
        yield (f"{kind}-{level}-batch-size", f"{B} samples in, {len(res['input'])} split masks out")
        return
    if level != "split" and (res["shape"][0] != [B, 1, H, W, 1] or res["shape"][2] != [B, C, H, W, 2]
                             or res["shape"][1] != [B, 1, H, W, 1] or res["shape"][3] != [B, C, H, W, 2]):
        yield (("half-splitter-unwrapped-in-pipeline" if (kind == "half" and level == "pipeline") else f"{kind}-{level}-shape"),
               f"output shapes {res['shape']} for batch {B}, coils {C}, grid {H}x{W}")
        return
    prot = _protected(case)
    for b in range(B):
        m = case["masks"][b]
        acs = case["acs"][b] if (case["keep"] and case["acs"]) else [0] * N
        i, t = res["input"][b], res["target"][b]
        if len(i) != N or len(t) != N or any(v not in (0, 1) for v in i + t):
            yield (f"{kind}-split-shape", f"split masks are not boolean {H}x{W} grids")
            return
        want_union = [x | a for x, a in zip(m, acs)]
        if [x | y for x, y in zip(i, t)] != want_union:
            yield (f"{kind}-split-union", "input ∪ target differs from the sampling mask")
        if [x & y for x, y in zip(i, t)] != acs:
            yield (f"{kind}-split-disjoint", "input ∩ target is not empty" if not case["keep"] else
                   "input ∩ target differs from the ACS region")
        free = _free(case, b)
        tnew = [x & (1 - a) for x, a in zip(t, acs)]
        if any(x and not f for x, f in zip(tnew, free)) and kind != "half":
            yield (f"{kind}-target-outside-free", "a target cell is not a free cell of the sampling mask")
        if not case["keep"]:
            bad = [k for k in range(N) if prot[k] and m[k] and (t[k] or not i[k])]
            if bad:
                yield ("half-split-ignores-protected-region" if kind == "half" else f"{kind}-protected-cell-in-target",
                       f"mask cell {divmod(bad[0], W)} of the protected region {case['a']} is in the target mask")
        else:
            if any(a and not (x and y) for a, x, y in zip(acs, i, t)):
                yield (f"{kind}-acs-not-kept", "keep_acs: an ACS cell is missing from input or target")
        # target size follows the ratio
        nfree = sum(free)
        nt = sum(tnew)
        if kind == "gauss":
            S = sum(_reduced(case, b))
            ok = False
            for p, q in case["ratios"]:
                want = Fraction(S * p, q)
                if want + 2 <= nfree:
                    ok |= want <= nt <= want + 3
                else:
                    ok |= min(nfree, want) <= nt <= nfree
            if not ok:
                yield ("gauss-target-count", f"target has {nt} cells; requested ratio(s) {case['ratios']} of {S} with {nfree} free")
        elif kind == "uniform":
            if not any(Fraction(nfree * p, q) - 1 - Fraction(1, 1000) <= nt <= Fraction(nfree * p, q) + Fraction(1, 1000)
                       for p, q in case["ratios"]):
                yield ("uniform-target-count", f"target has {nt} cells; requested ratio(s) {case['ratios']} of {nfree} free")
        # split k-spaces are the k-space restricted to the two masks
        if level != "split":
            k = case["kspace"][b]
            for name, mk, got in (("input", i, res["ink"][b]), ("target", t, res["tgk"][b])):
                exp = [k[x] if mk[(x // 2) % N] else 0 for x in range(len(k))]
                if got != exp:
                    yield (f"{kind}-{name}-kspace", f"{name} k-space is not the k-space restricted to the {name} mask")
        # determinism under seeding
        if case["use_seed"] and case.get("twice") and kind != "half":
            if res.get("input2") is None or res["input2"][b] != i or res["target2"][b] != t:
                yield (f"{kind}-split-not-deterministic",
                       "same mask / file name / slice, different call history: different split")
    if kind == "gauss":
        for c in res.get("calls", []):
            if c["n"] + 1 > c["free"] and c["n"] >= 0:
                yield ("gaussian-split-infeasible-request", f"kernel asked for {c['n']} + 1 samples, {c['free']} available")


def _slim(case):
    return {k: v for k, v in case.items()}


def _violations(case, res, seen):
    for key, what in _check(case, res):
        if key in seen:
            continue
        seen.add(key)
        yield Violation(key, what, {"case": _slim(case), "observed": {k: res.get(k) for k in
                                                                       ("ok", "err", "msg", "input", "target", "calls", "shape")}})


# ==================================================================================================
def _plan(ctx: Ctx):
    """(kind, level) list of the correspondence phase"""
    n_split = ctx.budget(150, 1500)
    n_fwd = ctx.budget(80, 800)
    plan = []
    for kind in ("gauss", "uniform", "half"):
        plan += [(kind, "split")] * (n_split if kind != "half" else n_split // 2)
        plan += [(kind, "forward")] * n_fwd
    return plan


def _fixed_cases():
    """regression inputs: the pre-repair hang, full protection, wrap-around region, tiny masks"""
    out = []
    m10 = [1 if (k % 10) % 2 == 0 else 0 for k in range(100)]
    base = {"level": "split", "nrow": 10, "ncol": 10, "B": 1, "C": 1, "mtype": "line", "masks": [m10], "acs": None, "keep": 0,
            "use_seed": 1, "perturb": 5, "twice": 1, "std": 3.0, "seed": [ord(c) for c in "file1.h53"]}
    out.append(dict(base, kind="gauss", a=[6, 6], ratios=[(9, 10)]))
    out.append(dict(base, kind="gauss", a=[10, 10], ratios=[(1, 2)]))
    out.append(dict(base, kind="gauss", a=[14, 14], ratios=[(1, 2)]))
    out.append(dict(base, kind="uniform", a=[6, 6], ratios=[(9, 10)]))
    out.append(dict(base, kind="uniform", a=[10, 10], ratios=[(1, 2)]))
    out.append(dict(base, kind="gauss", a=[0, 0], ratios=[(19, 20)], masks=[[0] * 100], mtype="nearly_empty"))
    one = [0] * 100
    one[37] = 1
    out.append(dict(base, kind="gauss", a=[0, 0], ratios=[(1, 20)], masks=[one], mtype="nearly_empty"))
    out.append(dict(base, kind="uniform", a=[0, 0], ratios=[(1, 20)], masks=[one], mtype="nearly_empty"))
    for d in DIRS:
        out.append(dict(base, kind="half", a=[4, 4], ratios=[(1, 2)], dir=d, masks=[[1] * 100], mtype="full"))
        out.append(dict(base, kind="half", a=[0, 0], ratios=[(1, 2)], dir=d, nrow=7, ncol=12, masks=[[1] * 84], mtype="full"))
    return out


def _malformed_cases(rng):
    """inputs the code must reject: keep_acs without an ACS mask"""
    out = []
    for kind in ("gauss", "uniform"):
        c = _gen_case(rng, kind, "split")
        c["keep"], c["acs"], c["twice"], c["raw"] = 1, None, 0, 1
        out.append(c)
    return out


def correspondence(ctx: Ctx):
    rng = ctx.rng
    del _RESULTS[:]
    cases = _fixed_cases() + _malformed_cases(rng) + [_gen_case(rng, kind, level) for kind, level in _plan(ctx)]
    excluded: dict[str, int] = {}
    try:
        for case in cases:
            res = _W.call(case)
            if res.get("err") == "Skipped":
                excluded["skipped-after-hangs"] = excluded.get("skipped-after-hangs", 0) + 1
                continue
            _RESULTS.append((case, res))
            _histograms(ctx, case, res)
            ln, ans, why = _protocol(case, res)
            if ln is None:
                excluded[why] = excluded.get(why, 0) + 1
                continue
            yield {"line": ln, "impl": (lambda a=ans: a), "nontrivial": _nontrivial(case, res), "bucket": _bucket(case, res),
                   "key": json.dumps(case, sort_keys=True)}
            # the seed derivation on its own: file name + slice -> tuple fed to rng.seed, integer fed to srand
            if case["level"] == "forward" and case["kind"] == "gauss" and case["use_seed"] and res.get("ok"):
                tups = [e[1] for e in res.get("log", []) if e[0] == "seed"]
                for b in range(min(case["B"], len(tups), len(res["calls"]))):
                    fn = [ord(ch) for ch in str(case["filename"][b])]
                    sl = [ord(ch) for ch in str(case["slice_no"][b])]
                    yield {"line": "seed " + _grp([], fn, sl),
                           "impl": (lambda a="ok " + _grp([res["calls"][b]["seed"]], tups[b] or []): a),
                           "nontrivial": True, "bucket": "seed-derivation"}
    finally:
        if excluded:
            ctx.notes.append(f"cases excluded from the differential comparison (oracle still applies): {excluded}")
        if _W.ext:
            ctx.notes.append(f"kernels served as {_W.ext}")


def oracle(ctx: Ctx, deep: bool = False):
    """The property stated directly on the implementation (every call under the watchdog)."""
    rng = ctx.rng
    seen: set[str] = set()
    try:
        # (a) everything the correspondence phase ran
        for case, res in _RESULTS:
            yield from _violations(case, res, seen)
        wraps = sum(1 for c, _ in _RESULTS if not c["keep"] and (_wraps(c["nrow"], c["a"][0]) or _wraps(c["ncol"], c["a"][1])))
        if wraps:
            ctx.notes.append(f"{wraps} cases with acs_region//2 > centre: the protected slice wraps around (Python negative "
                             "start) — outside the quantifier of the property, compared as coded")
        gs = [c["seed"] for case, res in _RESULTS if case["kind"] == "gauss" and case["use_seed"] and res.get("ok")
              for c in res.get("calls", [])]
        if gs:
            ctx.notes.append(f"{len(set(gs))} distinct libc seeds over {len(gs)} seeded Gaussian samples: int(mean(ord(c))) is a "
                             "coarse hash of file name + slice (deterministic, as the property asks, but many samples share a "
                             "candidate stream) — observation, not a violation")
        ctx.notes.append("odd acs_region sizes protect 2*(a//2) = a-1 rows/columns (slice centre-a//2 : centre+a//2) — "
                         "observation, the oracle uses the window the code documents")
        # (b) the pipeline stage as build_mri_transforms builds it, and more split / forward cases (use_seed off included)
        extra = []
        for kind in ("gauss", "uniform", "half"):
            for _ in range(ctx.budget(6, 60) * (4 if deep else 1)):
                extra.append(_gen_case(rng, kind, "pipeline"))
            for _ in range(ctx.budget(60, 700) * (4 if deep else 1)):
                c = _gen_case(rng, kind, rng.choice(["split", "forward"]))
                if rng.random() < 0.4:
                    c["use_seed"] = 0
                    if c["level"] == "split":
                        c["seed"] = None
                extra.append(c)
        # high ratios with protected regions: where the pre-repair tree hung
        for _ in range(ctx.budget(40, 500) * (4 if deep else 1)):
            c = _gen_case(rng, "gauss", "split")
            c["ratios"] = [rng.choice([(19, 20), (9, 10), (4, 5)])]
            c["a"] = [rng.randint(2, c["nrow"]), rng.randint(2, c["ncol"])]
            c["keep"], c["acs"] = 0, None
            extra.append(c)
        for case in extra:
            res = _W.call(case)
            if res.get("err") == "Skipped":
                continue
            _histograms(ctx, case, res)
            ctx.count(json.dumps(case, sort_keys=True), _nontrivial(case, res), bucket="oracle/" + _bucket(case, res),
                      sample={"case": {k: case[k] for k in ("kind", "level", "nrow", "ncol", "a", "keep", "ratios")},
                              "ok": res.get("ok"), "target_cells": [sum(t) for t in res.get("target", [])]})
            yield from _violations(case, res, seen)
    finally:
        _W.close()


def replay(rep: dict) -> bool:
    """Re-run a recorded failing case on the implementation; True when it still violates the property."""
    case = rep.get("case")
    if not case:
        return True
    try:
        res = _W.call(case)
        return any(True for _ in _check(case, res))
    finally:
        _W.close()
