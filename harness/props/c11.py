"""C11 — self-supervised mask splitting is a partition that honours ratio and ACS.

The real code never runs in this process: every call goes to a worker subprocess (`_worker_main`) under a
watchdog, because the Cython kernel holds the GIL while it loops — a hang is reported as a finding
(`gaussian-split-hang`) with its arguments, never a stall of the check.  This process generates the cases,
reconstructs the kernel's libc candidate stream (ctypes `srand`/`rand` + Box–Muller), builds the protocol
lines for the Lean model and states the property on the returned masks.
"""
from __future__ import annotations

import ctypes
import json
import math
import os
import pathlib
import select
import struct
import subprocess
import sys
import time
from fractions import Fraction

from core import Ctx, ToolFailure, Violation, ints

PROP = "C11"
MANIFEST = {
    "text": "Lean 4 theorems for every mask, ACS mask, protected region, requested count and every candidate stream / "
            "choice list: Gaussian, uniform and half (4 directions, on exact or float32 coordinates) splits are partitions "
            "(union = mask, intersection empty, resp. = ACS with keep_acs), target inside the free cells, protected cells stay "
            "in the input, target size = min(requested, #free-1)+1 (Gaussian) / floor count (uniform); end to end with the "
            "float32 product in place (no count is an input): Gaussian target = ceil(S*rho)+1 or +2 cells when free, all free "
            "cells otherwise, uniform target = floor(F*rho) or one less (S*p < 2^22); constructor admits exactly 0 < rho < 1 and "
            "then 1 <= ceil(S*rho) <= S, 0 <= floor < S; split k-spaces = mask restrictions summing to the masked k-space; "
            "seeded output independent of ambient RNG state AND of the interpreter process (seed derivation reads only the "
            "characters of file name + slice; salted-hash witness); call histories on one splitter object: the object keeps "
            "nothing between calls (translated table of every write to self / class / module state, decided predicate), hence "
            "every history = map of the single-call split; a memo of split results is invisible iff its key determines the "
            "split (LRU bound arbitrary), stale-answer witness for a (file, slice) key; kernel result invariant under repeated "
            "candidates, termination iff requested+1 <= #free on every prefix containing each free cell once (hence always "
            "after the cap; pre-repair divergence kept as witness); SSL branch: key plumbing of build_mri_transforms' tail "
            "against the keys ALL EIGHT readers under direct/nn use (SSL/JSSL base engines, vSHARP SSL/JSSL re-implementations "
            "of the training step, U-Net / VarNet SSL/JSSL forward functions: split input exactly when training (and is_ssl for "
            "joint engines), projection on the target mask), and the k-space loss sees the prediction only on held-out target "
            "cells. Tied to the code by translated loop guard / acceptance test / slice bounds / count, cap, seed, ratio-guard "
            "expressions / diagonal predicates / key, state-write, seed-callable and engine-site tables (bridge lemmas) and by "
            "exact differential replay on the reconstructed libc stream, the recorded rng.choice draws, torch's float32 product, "
            "call histories on persistent objects (driver op `hist` = runHist), two interpreters with different "
            "PYTHONHASHSEED, and the real engines' training step / forward functions. Memory-layout ladder (oracle + "
            "correspondence, not a Lean theorem): every splitter x split_method / forward / pipeline stage is also run on the same "
            "logical mask / ACS mask / k-space as transposed (H/W strides swapped), strided slice of a larger tensor, expanded "
            "(stride 0) and fully permuted storage; all judgements and the model comparison apply unchanged, seeded answers must "
            "equal the contiguous twin's exactly (key layout-dependence:<splitter>) and the handed tensors must be unmodified.",
    "note": "Trusted: Lean kernel (+propext, Classical.choice, Quot.sound), the AST/.pyx translator (incl. the syntactic scan "
            "for state writes: assignments / subscripts / mutating method calls / setattr / global / memoising decorators / "
            "mutable defaults rooted at self, a class or a module name), libc rand and numpy RandomState as deterministic "
            "functions of their seed, torch boolean/slice semantics as encoded by zipWith / pySlice, torch.linspace values "
            "(carried exactly as dyadic integers), the harness's replay of the libc stream (C helper cross-checked against a "
            "ctypes replay). Termination is a theorem only for streams that contain every free cell; that libc's rand()-driven "
            "Box-Muller stream does so is a probabilistic fact: the check measures the candidates the real stream needs on the "
            "tightest requests and flags more than 1e7 as `gaussian-split-slow`. float32 count theorems need S*p < 2^22 and "
            "normal-range binary32. Process independence is proved for the model's derivation and tied by the table of "
            "callables the source derivation uses (allow-list) + the two-interpreter run; the vSHARP engines are run with "
            "identity operators and a unit sensitivity map in coil 0 (exact integers).",
    "technique": "Lean 4 proof (list induction, omega, counting, cache invariant for the memo, Mathlib field arithmetic for "
                 "the binary32 error bound) + AST/.pyx translation bridge + differential correspondence with reconstructed RNG "
                 "streams, call histories and a second interpreter process under a subprocess watchdog",
}
TRUSTED = [
    "Lean 4.33 kernel; axioms ⊆ {propext, Classical.choice, Quot.sound}",
    "harness/translate + recipes/c11.py, c11_state.py (Python AST / .pyx front-end -> Lean) for loop guard, acceptance test, "
    "slice bounds, count / cap / seed / ratio-guard expressions, diagonal predicates, mask algebra, SSL tail and engine key "
    "tables, state-write table (syntactic scan), seed-callable table, engine-site table",
    "libc rand()/srand() reproduced through ctypes and a small C helper (cross-checked against each other on every run); "
    "Box–Muller with sqrt/log/cos/sin equals the C kernel bit for bit",
    "numpy RandomState.choice(replace=False, p) returns distinct indices of non-zero probability (checked on every draw)",
    "torch boolean ops / slice assignment / apply_mask / default_collate as encoded by zipWith / pySlice / applyMaskK "
    "(validated by correspondence); torch.linspace float32 values taken from torch and carried exactly",
    "two worker interpreters started with PYTHONHASHSEED 101 / 2024 stand for 'different processes' (restart, spawned "
    "data-loader workers, separate inference run); their hash salts are probed to differ",
    "object / class / module state is observed by a snapshot of instance dicts, class attributes of /repo classes in the MRO, "
    "module-level containers and lru caches of direct.ssl.ssl / mask_fillers (reported, not judged); the verdict is always "
    "on the returned masks against a fresh object",
    "the worker's `relayout` builds the non-contiguous presentations (self-checked: shape, dtype, values equal the original); "
    "unseeded layout cases have no contiguous twin (rng.seed(None) reads OS entropy) and rest on the judgements alone",
]
ASSUMPTIONS = [
    "float32 sums xv ± yv keep the sign of the exact sum of the float32 coordinates (round-to-nearest, no underflow)",
    "the float32 product is modelled for normal-range binary32 and S < 2^24; the ratio p/q reaches float32 through one "
    "rounding (double rounding via float64 cannot differ for q < 2^20)",
    "termination is proved for candidate streams that contain every free cell; that libc's stream does is probabilistic "
    "(measured, not proved)",
    "k-space entries are small integers (exact in float32)",
    "str(filename) / str(slice_no) are the same strings in every process (pathlib / int formatting is not salted)",
    "memory layout: the Gaussian splitter raises ValueError ('ndarray is not C-contiguous', Cython int[:, ::1]) on masks whose "
    "H/W strides are not row-major (transposed / permuted views); this loud rejection is reported as a note (FINDING, not judged) "
    "— every returned answer on every layout is judged",
]
RULE = ("masks: line / 2-D random / sparse / nearly empty / full, 6..40 rows and columns, odd/even, non-square; ratios "
        "0.05..0.95 (also ratio lists; 0, 1 and out-of-range ratios at the constructor); protected regions (0,0)..larger than "
        "the mask, odd sizes; keep_acs on/off incl. empty ACS, ACS = whole mask, ACS outside the mask; use_seed on/off; "
        "kspace_key masked_kspace / kspace; split_method and forward (batch 1..3), the pipeline stage, call histories of "
        "3..8 calls on 1..3 persistent objects (same file+slice with other masks / ACS masks, other files with the same mask, "
        "repeats, batched vs single, interleaved classes, 2-D / 3-D / mixed), the same sample in two interpreter processes, "
        "SSL / JSSL / vSHARP engine steps and the engines' forward functions. non-trivial = at least 2 free cells and a "
        "stress feature (non-empty protected region / keep_acs / capped request / both parts non-empty), a history of >= 2 "
        "calls; distinct = distinct case description")

FORM_CODE = {"enum": 0, "lower": 1, "upper": 2, "mixed": 3}

# findings of this check on the current tree that the lead has not yet ruled on (still reported as VIOLATION)
PENDING_FINDINGS: list[str] = []

HARNESS = pathlib.Path(__file__).resolve().parent.parent
WATCHDOG_S = 20.0
STREAM_CAP = 50_000_000     # raw candidates replayed per case (C helper); the model sees their first occurrences
PY_STREAM_CAP = 200_000
DIRS = ["horizontal", "vertical", "diagonal_left", "diagonal_right"]
FORMS = ["enum", "enum", "lower", "upper", "mixed"]      # how an enum-valued option is handed over
RATIOS = [(1, 20), (19, 20), (1, 2), (3, 10), (9, 10), (2, 5), (3, 4), (1, 3), (7, 10), (1, 4), (1, 10), (4, 5)]


# ==================================================================================================
# worker: the only place where the real code runs
def _worker_main():  # pragma: no cover - runs in the subprocess
    real_out = os.fdopen(os.dup(1), "w")
    os.dup2(2, 1)  # stray prints of the library go to stderr
    import boot  # noqa: F401
    import numpy as np
    import torch

    import direct.ssl.ssl as S

    orig_fill = S.gaussian_fill
    calls: list[dict] = []

    import inspect

    # Stand-ins are transparent: they accept every calling convention of the callee they replace (arguments are bound with
    # the callee's own signature), forward `*args, **kwargs` unchanged, and a failure of the *recording* is a harness
    # problem (`rec_errors`, reported as a tool failure by the host) — never an exception inside the code under test.
    rec_errors: list[str] = []
    _fill_sig = inspect.signature(orig_fill)

    def _bound(sig, args, kwargs):
        ba = sig.bind(*args, **kwargs)
        ba.apply_defaults()
        return ba.arguments

    def rec_fill(*args, **kwargs):
        try:
            v = list(_bound(_fill_sig, args, kwargs).values())       # by position in the callee's signature
            n, nrow, ncol, cx, cy, std, mask, out, seed = v[:9]
            calls.append({"n": int(n), "nrow": int(nrow), "ncol": int(ncol), "cx": int(cx), "cy": int(cy), "std": float(std),
                          "free": int(np.asarray(mask).sum()), "out0": int(np.asarray(out).sum()), "seed": int(seed)})
        except Exception as e:  # noqa: BLE001
            rec_errors.append(f"gaussian_fill recorder: {type(e).__name__}: {e}"[:200])
        return orig_fill(*args, **kwargs)

    S.gaussian_fill = rec_fill
    _RS = np.random.RandomState

    def _ints(x):
        return [int(v) for v in np.atleast_1d(np.asarray(x)).reshape(-1)]

    class RecRS(np.random.RandomState):
        log: list = []

        def seed(self, *args, **kwargs):
            try:
                s = args[0] if args else kwargs.get("seed")
                self.log.append(["seed", None if s is None else _ints(s)])
            except Exception as e:  # noqa: BLE001
                rec_errors.append(f"seed recorder: {type(e).__name__}: {e}"[:200])
            return super().seed(*args, **kwargs)

        def randint(self, *args, **kwargs):
            r = super().randint(*args, **kwargs)
            try:
                low = args[0] if args else kwargs.get("low")
                high = args[1] if len(args) > 1 else kwargs.get("high")
                if high is None:
                    low, high = 0, low
                self.log.append(["randint", int(low), int(high), int(np.asarray(r).reshape(-1)[0])])
            except Exception as e:  # noqa: BLE001
                rec_errors.append(f"randint recorder: {type(e).__name__}: {e}"[:200])
            return r

        def choice(self, *args, **kwargs):
            r = super().choice(*args, **kwargs)
            try:
                # the request by its semantics: population size (an int n stands for arange(n)), size, replace, support of p
                a = args[0] if args else kwargs.get("a")
                size = args[1] if len(args) > 1 else kwargs.get("size")
                replace = args[2] if len(args) > 2 else kwargs.get("replace", True)
                p = args[3] if len(args) > 3 else kwargs.get("p")
                arr = np.asarray(a)
                npop = int(arr) if arr.ndim == 0 else int(arr.shape[0])
                nsize = 1 if size is None else int(np.prod(size))
                support = npop if p is None else int(np.count_nonzero(np.asarray(p)))
                vals = _ints(r)
                if arr.ndim == 1 and not np.array_equal(arr, np.arange(npop)):
                    # a population other than 0..n-1: record positions, not values
                    pos = {int(v): i for i, v in enumerate(arr.tolist())}
                    vals = [pos.get(v, -1) for v in vals]
                self.log.append(["choice", npop, nsize, bool(replace), support, vals])
            except Exception as e:  # noqa: BLE001
                rec_errors.append(f"choice recorder: {type(e).__name__}: {e}"[:200])
            return r

    libc = ctypes.CDLL("libc.so.6")

    def as_form(member, form):
        """an enum-valued option as the member itself or as a lower / UPPER / MiXeD-case string (DirectEnum compares equal
        to strings whatever their case, so every form is a supported way to configure the splitters)"""
        v = str(member.value)
        if form in (None, "enum"):
            return member
        return v.lower() if form == "lower" else v.upper() if form == "upper" else \
            "".join(c.upper() if i % 2 == 0 else c.lower() for i, c in enumerate(v))

    def build(case):
        kind = case["kind"]
        ratios = [p / q for p, q in case["ratios"]]
        kw = dict(acs_region=tuple(case["a"]), keep_acs=bool(case["keep"]), use_seed=bool(case["use_seed"]),
                  kspace_key=case.get("kkey", "masked_kspace"))
        if case["level"] == "pipeline":
            from direct.data.mri_transforms import TransformsType, build_mri_transforms
            from direct.data.transforms import fft2, ifft2

            comp = build_mri_transforms(
                forward_operator=fft2, backward_operator=ifft2, mask_func=None, transforms_type=TransformsType.SSL_SSDU,
                use_seed=bool(case["use_seed"]), mask_split_ratio=ratios if len(ratios) > 1 else ratios[0],
                mask_split_acs_region=tuple(case["a"]), mask_split_keep_acs=bool(case["keep"]),
                mask_split_type=as_form(S.MaskSplitterType(kind if kind != "gauss" else "gaussian"), case.get("type_form")),
                mask_split_gaussian_std=float(case.get("std", 3.0)),
                mask_split_half_direction=as_form(S.HalfSplitType(case.get("dir", "vertical")), case.get("dir_form")))
            stage = [t for t in comp.transforms if isinstance(getattr(t, "_transform", t), S.MaskSplitter)]
            if len(stage) != 1:
                raise RuntimeError(f"pipeline has {len(stage)} splitter stages")
            return stage[0], getattr(stage[0], "_transform", stage[0])
        if kind == "gauss":
            sp = S.GaussianMaskSplitterModule(ratio=ratios if len(ratios) > 1 else ratios[0], std_scale=float(case.get("std", 3.0)), **kw)
        elif kind == "uniform":
            sp = S.UniformMaskSplitterModule(ratio=ratios if len(ratios) > 1 else ratios[0], **kw)
        else:
            sp = S.HalfMaskSplitterModule(direction=as_form(S.HalfSplitType(case["dir"]), case.get("dir_form")), **kw)
        return sp, sp

    def relayout(t, layout):
        """the same logical tensor (shape, dtype, values) in another memory layout; H and W are dims -3 and -2"""
        if layout in (None, "contiguous") or not isinstance(t, torch.Tensor) or t.dim() < 3:
            return t
        if layout == "transposed":        # strides of H and W swapped
            r = t.transpose(-3, -2).contiguous().transpose(-3, -2)
        elif layout == "strided":         # every other row / column of a larger tensor (other cells hold garbage)
            shp = list(t.shape)
            shp[-3], shp[-2] = 2 * shp[-3] + 1, 2 * shp[-2] + 1
            big = torch.ones(shp, dtype=t.dtype) if t.dtype == torch.bool else torch.full(shp, 7.0, dtype=t.dtype)
            r = big[..., 1::2, 1::2, :]
            r.copy_(t)
        elif layout == "expanded":        # stride 0 where legal: along H / W when the rows / columns are all equal, size-1 dims
            r = t.contiguous()
            if t.shape[-3] > 1 and bool((t == t[..., :1, :, :]).all()):
                r = t[..., :1, :, :].contiguous().expand(t.shape)
            elif t.shape[-2] > 1 and bool((t == t[..., :, :1, :]).all()):
                r = t[..., :, :1, :].contiguous().expand(t.shape)
            else:
                r = torch.as_strided(r, r.shape, [0 if n == 1 else st for n, st in zip(r.shape, r.stride())])
        elif layout == "permuted":        # channels-last-like: storage order of all dims reversed (last dim outermost)
            rev = list(range(t.dim()))[::-1]
            r = t.permute(rev).contiguous().permute(rev)
        else:
            raise RuntimeError(f"unknown layout {layout!r}")
        if r.shape != t.shape or r.dtype != t.dtype or not torch.equal(r, t):
            raise RuntimeError(f"harness: relayout({layout}) changed the logical tensor")
        return r

    def run_once(case, perturb):
        call, sp = build(case)
        layout = case.get("layout")
        sp.rng = RecRS()
        # different call histories must not matter when seeding is on
        np.random.seed(perturb % (2 ** 31))
        torch.manual_seed(perturb)
        libc.srand(perturb % (2 ** 31))
        sp.rng.seed(perturb % (2 ** 31))
        sp.rng.rand(perturb % 5)
        RecRS.log = []
        sp.rng.log = RecRS.log
        del calls[:]
        st0 = sp.rng.get_state()
        H, W, B, C = case["nrow"], case["ncol"], case["B"], case["C"]
        masks = [torch.tensor(m, dtype=torch.bool).reshape(1, H, W, 1) for m in case["masks"]]
        acss = [torch.tensor(a, dtype=torch.bool).reshape(1, H, W, 1) for a in case["acs"]] if case["acs"] else None
        res: dict = {}
        if case["level"] == "split":
            seed = tuple(case["seed"]) if case["seed"] is not None else None
            masks = [relayout(m, layout) for m in masks]
            acss = [relayout(a_, layout) for a_ in acss] if acss is not None else None
            before = [m.clone(memory_format=torch.contiguous_format) for m in masks[:1] + (acss[:1] if acss is not None else [])]
            if case.get("raw"):     # the documented rejection lives in the underscore methods
                kw2 = {"std_scale": sp.std_scale} if case["kind"] == "gauss" else {}
                fn = sp._gaussian_split if case["kind"] == "gauss" else sp._uniform_split
                i, t = fn(masks[0].squeeze(), seed=seed, acs_mask=None, **kw2)
            else:
                i, t = sp.split_method(masks[0], acss[0] if acss is not None else None, seed)
            now = masks[:1] + (acss[:1] if acss is not None else [])
            res["mutated"] = [n_ for n_, b_, a_ in zip(("sampling_mask", "acs_mask"), before, now) if not torch.equal(a_, b_)]
            res["shape"] = [list(i.shape), list(t.shape)]
            res["dtype"] = [str(i.dtype), str(t.dtype)]
            res["input"] = [[int(v) for v in i.reshape(-1).tolist()]]
            res["target"] = [[int(v) for v in t.reshape(-1).tolist()]]
        else:
            ks = [torch.tensor(k, dtype=torch.float32).reshape(C, H, W, 2) for k in case["kspace"]]
            if case["level"] == "forward":
                sample = {"sampling_mask": torch.stack(masks), case.get("kkey", "masked_kspace"): torch.stack(ks),
                          "filename": list(case["filename"]), "slice_no": list(case["slice_no"])}
                if acss is not None:
                    sample["acs_mask"] = torch.stack(acss)
            else:
                sample = {"sampling_mask": masks[0], case.get("kkey", "masked_kspace"): ks[0], "filename": case["filename"][0],
                          "slice_no": case["slice_no"][0]}
                if acss is not None:
                    sample["acs_mask"] = acss[0]
            sample = {k_: relayout(v, layout) for k_, v in sample.items()}
            res["strides"] = {skey(k_): list(v.stride()) for k_, v in sample.items() if isinstance(v, torch.Tensor)}
            before = {k_: v.clone(memory_format=torch.contiguous_format) for k_, v in sample.items() if isinstance(v, torch.Tensor)}
            handed = dict(sample)
            out = call(sample)
            res["mutated"] = sorted(skey(k_) for k_, v in before.items() if handed[k_].shape != v.shape or not torch.equal(handed[k_], v))
            im, tm = out["input_sampling_mask"], out["target_sampling_mask"]
            kk_ = case.get("kkey", "masked_kspace")
            for need_ in ("input_" + kk_, "target_" + kk_):
                if need_ not in out:
                    raise KeyError(f"forward (kspace_key={kk_!r}) did not write {need_!r}; keys: {sorted(map(skey, out))}")
            ik, tk = out["input_" + kk_], out["target_" + kk_]
            if case["level"] == "pipeline":
                im, tm, ik, tk = im[None], tm[None], ik[None], tk[None]
            res["shape"] = [list(im.shape), list(tm.shape), list(ik.shape), list(tk.shape)]
            res["dtype"] = [str(im.dtype), str(tm.dtype)]
            res["input"] = [[int(v) for v in im[b].reshape(-1).tolist()] for b in range(im.shape[0])]
            res["target"] = [[int(v) for v in tm[b].reshape(-1).tolist()] for b in range(tm.shape[0])]
            fk = lambda x: [[int(v) for v in x[b].reshape(-1).tolist()] for b in range(x.shape[0])]  # noqa: E731
            res["ink"], res["tgk"] = fk(ik), fk(tk)
            res["k_integral"] = bool((ik == ik.round()).all() and (tk == tk.round()).all())
        if case["kind"] == "half" and case["dir"].startswith("diagonal"):
            # the float32 coordinates the code compares (dyadic rationals, carried exactly to the model)
            res["xs"] = [list(float(v).as_integer_ratio()) for v in torch.linspace(-1, 1, H).tolist()]
            res["ys"] = [list(float(v).as_integer_ratio()) for v in torch.linspace(-1, 1, W).tolist()]
        st1 = sp.rng.get_state()
        res["rng_restored"] = bool(st0[0] == st1[0] and (st0[1] == st1[1]).all() and st0[2:] == st1[2:])
        res["calls"] = [dict(c) for c in calls]
        res["log"] = list(RecRS.log)
        return res

    # ---- the SSL branch as build_mri_transforms builds it, batch collation, the SSL engines' training step
    _toy = {}

    def toy_engine(which):
        if which not in _toy:
            from omegaconf import OmegaConf

            from direct.config.defaults import DefaultConfig
            from direct.data.transforms import fft2, ifft2
            from direct.nn.ssl.mri_models import JSSLMRIModelEngine, SSLMRIModelEngine

            class Net(torch.nn.Module):
                def __init__(self):
                    super().__init__()
                    self.w = torch.nn.Parameter(torch.zeros(1))
                    self.seen = []

                def forward(self, *a, **k):
                    # vSHARP-style model: a list of images; the engines re-implement the training step around it
                    got = dict(zip(["masked_kspace", "sampling_mask", "sensitivity_map"], a))
                    got.update(k)
                    masked_kspace, sampling_mask = got["masked_kspace"], got["sampling_mask"]
                    self.seen.append((masked_kspace.detach().clone(), sampling_mask.detach().clone()))
                    return [self._pred + self.w * 0]

            if which.startswith("vsharp"):
                from direct.nn.vsharp.vsharp_engine import VSharpNetJSSLEngine, VSharpNetSSLEngine

                ident = lambda x, *a, **kw: x  # noqa: E731 - identity operators keep the integer probes exact
                cls = VSharpNetSSLEngine if which == "vsharp_ssl" else VSharpNetJSSLEngine
                eng = cls(OmegaConf.structured(DefaultConfig), Net(), "cpu", forward_operator=ident, backward_operator=ident)
            else:
                base = SSLMRIModelEngine if which == "ssl" else JSSLMRIModelEngine

                class Toy(base):
                    def forward_function(self, data):
                        return None, data["_pred"] + self.model.w * 0

                eng = Toy(OmegaConf.structured(DefaultConfig), Net(), "cpu", forward_operator=fft2, backward_operator=ifft2)
            eng.ndim = 2
            _toy[which] = eng
        return _toy[which]

    def skey(k):
        return str(k.value) if hasattr(k, "value") else str(k)

    def ssl_tail(case):
        from direct.data.mri_transforms import TransformsType, build_mri_transforms
        from direct.data.transforms import fft2, ifft2

        kind = case["kind"]
        ratios = [p / q for p, q in case["ratios"]]
        comp = build_mri_transforms(
            forward_operator=fft2, backward_operator=ifft2, mask_func=None, transforms_type=TransformsType.SSL_SSDU,
            use_seed=bool(case["use_seed"]), mask_split_ratio=ratios if len(ratios) > 1 else ratios[0],
            mask_split_acs_region=tuple(case["a"]), mask_split_keep_acs=bool(case["keep"]),
            mask_split_type=S.MaskSplitterType(kind if kind != "gauss" else "gaussian"),
            mask_split_half_direction=S.HalfSplitType(case.get("dir", "vertical")))
        idx = [i for i, t in enumerate(comp.transforms) if isinstance(getattr(t, "_transform", t), S.MaskSplitter)]
        if len(idx) != 1:
            raise RuntimeError(f"pipeline has {len(idx)} splitter stages")
        start = idx[0]
        if start > 0 and type(getattr(comp.transforms[start - 1], "_transform", comp.transforms[start - 1])).__name__ == "AddBooleanKeysModule":
            start -= 1          # the `is_ssl` flag is set just before the splitter
        return comp.transforms[start:]

    def run_engine(case):
        from torch.utils.data.dataloader import default_collate

        H, W, B, C, Sl = case["nrow"], case["ncol"], case["B"], case["C"], case.get("S", 1)
        three = case["dims"] == 3
        mshape = (1, 1, H, W, 1) if three else (1, H, W, 1)
        kshape = (C, Sl, H, W, 2) if three else (C, H, W, 2)
        tail = ssl_tail(case)
        outs, res = [], {"stages": [type(getattr(t, "_transform", t)).__name__ for t in tail]}
        for b in range(B):
            m = torch.tensor(case["masks"][b], dtype=torch.bool).reshape(mshape)
            k = torch.tensor(case["kspace"][b], dtype=torch.float32).reshape(kshape)
            sens = torch.zeros(kshape)
            if str(case.get("engine", "")).startswith("vsharp"):
                sens[0, ..., 0] = 1.0      # unit-norm maps (the engine renormalises them): all signal in coil 0
            else:
                sens[..., 0] = 1.0
            sample = {"kspace": k.clone(), "masked_kspace": torch.where(m, k, torch.zeros(1)), "sampling_mask": m.clone(),
                      "sensitivity_map": sens, "filename": case["filename"][b], "slice_no": case["slice_no"][b],
                      "scaling_factor": torch.tensor(1.0)}
            if case["acs"]:
                sample["acs_mask"] = torch.tensor(case["acs"][b], dtype=torch.bool).reshape(mshape)
            for t in tail:
                sample = t(sample)
            outs.append({skey(k_): v for k_, v in sample.items()})
        o0 = outs[0]
        res["keys"] = sorted(o0.keys())
        res["is_ssl"] = bool(o0.get("is_ssl"))
        res["mask_shape"] = [list(o0["input_sampling_mask"].shape), list(o0["target_sampling_mask"].shape)]
        res["orig_mask_shape"] = list(mshape)
        res["k_shape"] = [list(o0["input_kspace"].shape), list(o0["kspace"].shape)]
        fl = lambda x: [int(v) for v in x.reshape(-1).tolist()]  # noqa: E731
        res["input"] = [fl(o["input_sampling_mask"]) for o in outs]
        res["target"] = [fl(o["target_sampling_mask"]) for o in outs]
        res["ink"] = [fl(o["input_kspace"]) for o in outs]
        res["tgk"] = [fl(o["kspace"]) for o in outs]
        res["target_img_ok"] = bool(all(torch.isfinite(o["target"]).all() for o in outs))
        # collate + one training step of the engine with a recording k-space loss
        try:
            batch = default_collate(outs)
            res["collated_mask_shape"] = list(batch["input_sampling_mask"].shape)
            res["collated_k_shape"] = list(batch["input_kspace"].shape)
            batch["_pred"] = torch.stack([torch.tensor(p, dtype=torch.float32).reshape(kshape) for p in case["pred"]])
            eng = toy_engine(case["engine"])
            if case["engine"].startswith("vsharp"):
                # image-domain prediction (identity operators, unit sensitivities): coil 0 of the k-space prediction
                eng.model._pred = batch["_pred"][:, 0]
                del eng.model.seen[:]
            eng.model.train()
            rec = []

            def loss(*a, **k):
                # a loss function as the engines call it: (source, target, …) positionally or by name
                out = a[0] if a else k.get("source", k.get("input"))
                tgt = a[1] if len(a) > 1 else k.get("target")
                rec.append((out.detach().clone(), tgt.detach().clone()))
                return (out * 0).sum()

            eng._do_iteration(batch, loss_fns={"kspace_rec": loss})
            if len(rec) != 1:
                raise RuntimeError(f"k-space loss called {len(rec)} times")
            res["collated_mask_shape"] = list(batch["input_sampling_mask"].shape)
            res["collated_k_shape"] = list(batch["input_kspace"].shape)
            res["loss_shape"] = [list(rec[0][0].shape), list(rec[0][1].shape)]
            res["loss_out"] = [fl(rec[0][0][b]) for b in range(rec[0][0].shape[0])]
            res["loss_ref"] = [fl(rec[0][1][b]) for b in range(rec[0][1].shape[0])]
            if case["engine"].startswith("vsharp"):
                mk_, mm_ = eng.model.seen[0]
                res["model_in_k"] = [fl(mk_[b]) for b in range(mk_.shape[0])]
                res["model_in_mask"] = [fl(mm_[b]) for b in range(mm_.shape[0])]
            res["engine_ok"] = True
        except Exception as e:  # noqa: BLE001
            res["engine_ok"] = False
            res["engine_err"] = f"{type(e).__name__}: {e}"[:300]
        return res

    def run_engine_inputs(case):
        """which keys the forward functions of the SSL / JSSL engines hand to the network (recording network, marker tensors)"""
        import importlib

        from omegaconf import OmegaConf

        from direct.config.defaults import DefaultConfig

        rec = []

        class Net(torch.nn.Module):
            def __init__(self):
                super().__init__()
                self.w = torch.nn.Parameter(torch.zeros(1))

            def forward(self, *a, **k):
                # which tensors arrive, whatever the calling convention: the k-space marker is 1 / 2, the mask marker 3 / 4
                vals = [int(v.flatten()[0]) for v in list(a) + list(k.values()) if isinstance(v, torch.Tensor)]
                masked_kspace = next(v for v in list(a) + list(k.values()) if isinstance(v, torch.Tensor))
                rec.append([next((v for v in vals if v in (1, 2)), -1), next((v for v in vals if v in (3, 4)), 0)])
                return masked_kspace * 0

        ident = lambda x, *a, **kw: x  # noqa: E731
        rows = []
        for mod, cls in case["sites"]:
            eng = getattr(importlib.import_module(mod), cls)(OmegaConf.structured(DefaultConfig), Net(), "cpu",
                                                              forward_operator=ident, backward_operator=ident)
            eng.cfg = OmegaConf.create({"model": {"image_initialization": "zero_filled"}})
            for train in (1, 0):
                for ssl in (1, 0):
                    eng.model.train(bool(train))
                    data = {"input_kspace": torch.full((1, 1, 2, 2, 2), 1.0), "masked_kspace": torch.full((1, 1, 2, 2, 2), 2.0),
                            "input_sampling_mask": torch.full((1, 1, 2, 2, 1), 3.0), "sampling_mask": torch.full((1, 1, 2, 2, 1), 4.0),
                            "sensitivity_map": torch.full((1, 1, 2, 2, 2), 5.0), "is_ssl": torch.tensor([bool(ssl)])}
                    del rec[:]
                    try:
                        eng.forward_function(data)
                        rows.append([cls, train, ssl, "ok"] + (rec[0] if len(rec) == 1 else [-1, -1]))
                    except Exception as e:  # noqa: BLE001
                        rows.append([cls, train, ssl, type(e).__name__, -1, -1])
        return {"rows": rows}

    def run_fullpipe(case):
        """supervised and SSL branches of the real build_mri_transforms on the same raw sample"""
        from direct.common.subsample import FastMRIRandomMaskFunc
        from direct.data.mri_transforms import TransformsType, build_mri_transforms
        from direct.data.transforms import fft2, ifft2, root_sum_of_squares

        kind = case["kind"]
        H, W, C, Sl = case["nrow"], case["ncol"], case["C"], case.get("S", 1)
        shape = (C, Sl, H, W) if case["dims"] == 3 else (C, H, W)
        ratios = [p / q for p, q in case["ratios"]]

        def run(tt):
            mf = FastMRIRandomMaskFunc(accelerations=[2], center_fractions=[0.25])
            tr = build_mri_transforms(
                forward_operator=fft2, backward_operator=ifft2, mask_func=mf, transforms_type=tt,
                estimate_sensitivity_maps=True, use_seed=True, mask_split_ratio=ratios[0],
                mask_split_acs_region=tuple(case["a"]), mask_split_keep_acs=bool(case["keep"]),
                mask_split_type=S.MaskSplitterType(kind if kind != "gauss" else "gaussian"),
                mask_split_half_direction=S.HalfSplitType(case.get("dir", "vertical")))
            g = np.random.RandomState(case["perturb"])
            k = (g.randn(*shape) + 1j * g.randn(*shape)).astype(np.complex64)
            out = tr({"kspace": k, "filename": case["filename"][0], "slice_no": case["slice_no"][0]})
            return {skey(k_): v for k_, v in out.items()}

        a, b = run(TransformsType.SUPERVISED), run(TransformsType.SSL_SSDU)
        i, t = b["input_sampling_mask"], b["target_sampling_mask"]
        z = torch.zeros(1)
        res = {"sup_keys": sorted(a.keys()), "ssl_keys": sorted(b.keys()), "sup_is_ssl": bool(a["is_ssl"]),
               "ssl_is_ssl": bool(b["is_ssl"]), "mask_shape": list(i.shape), "orig_mask_shape": list(a["sampling_mask"].shape),
               "union": bool(torch.equal((i | t).reshape(-1), a["sampling_mask"].reshape(-1))),
               "inter_empty": bool(not (i & t).any()) if not case["keep"] else None,
               "loss_k_is_target_restriction": bool(torch.equal(b["kspace"], torch.where(t, a["masked_kspace"], z))),
               "input_k_is_input_restriction": bool(torch.equal(b["input_kspace"], torch.where(i, a["masked_kspace"], z))),
               "target_is_recon_of_target_k": bool(torch.allclose(
                   b["target"], root_sum_of_squares(ifft2(b["kspace"], dim=(1, 2)), dim=0), atol=1e-4))
               if case["dims"] == 2 else None,
               "input_cells": int(i.sum()), "target_cells": int(t.sum())}
        return res

    # ---- call histories on persistent splitter objects -------------------------------------------------
    import hashlib as _hl

    _NN_INTERNAL = {"training", "_parameters", "_buffers", "_non_persistent_buffers_set", "_modules", "_backward_pre_hooks",
                    "_backward_hooks", "_is_full_backward_hook", "_forward_hooks", "_forward_hooks_with_kwargs",
                    "_forward_hooks_always_called", "_forward_pre_hooks", "_forward_pre_hooks_with_kwargs",
                    "_state_dict_hooks", "_state_dict_pre_hooks", "_load_state_dict_pre_hooks",
                    "_load_state_dict_post_hooks", "log"}

    def _sig(v):
        try:
            if isinstance(v, np.random.RandomState):
                st = v.get_state()
                return "rng:" + _hl.sha1(st[1].tobytes() + repr(st[2:]).encode()).hexdigest()[:10]
            if isinstance(v, torch.Tensor):
                return f"tensor{tuple(v.shape)}:" + _hl.sha1(v.detach().cpu().numpy().tobytes()).hexdigest()[:10]
            if isinstance(v, np.ndarray):
                return f"ndarray{v.shape}:" + _hl.sha1(v.tobytes()).hexdigest()[:10]
            if hasattr(v, "cache_info") and callable(v.cache_info):
                return f"lru[{v.cache_info().currsize}]"
            if isinstance(v, (dict, list, set, frozenset, tuple)) or hasattr(v, "__len__") and not isinstance(v, (str, bytes)):
                return f"{type(v).__name__}[{len(v)}]:" + _hl.sha1(repr(v)[:20000].encode()).hexdigest()[:10]
            return repr(v)[:80]
        except Exception as e:  # noqa: BLE001
            return f"?{type(e).__name__}"

    def snapshot(objs):
        """signature of everything a splitter could keep between calls: instance dicts, class attributes of the classes
        of /repo in the MRO, module-level containers / memoised functions of the two anchored modules"""
        import direct.ssl.mask_fillers as MF

        out = {}
        for n, (call, sp) in enumerate(objs):
            for tag, o in ((f"inst{n}", sp),) + ((((f"wrap{n}", call),)) if call is not sp else ()):
                for k, v in list(vars(o).items()):
                    if k in _NN_INTERNAL or k == "_transform":
                        continue
                    out[f"{tag}.{k}"] = _sig(v)
            for cls in type(sp).__mro__:
                if not getattr(cls, "__module__", "").startswith("direct."):
                    continue
                for k, v in list(vars(cls).items()):
                    if k.startswith("__") or k == "_abc_impl":
                        continue
                    if isinstance(v, (staticmethod, classmethod, property)) or (callable(v) and not hasattr(v, "cache_info")):
                        continue
                    out[f"class {cls.__name__}.{k}"] = _sig(v)
        for mod in (S, MF):
            for k, v in list(vars(mod).items()):
                if k.startswith("__") or k == "gaussian_fill":
                    continue
                if isinstance(v, (dict, list, set)) or (hasattr(v, "cache_info") and callable(getattr(v, "cache_info"))):
                    out[f"module {mod.__name__}.{k}"] = _sig(v)
        return out

    def hist_sample(case, smps, dims, batched, kkey="masked_kspace"):
        H, W, C, Sl = case["nrow"], case["ncol"], case["C"], case.get("S", 1)
        mshape = (1, 1, H, W, 1) if dims == 3 else (1, H, W, 1)
        kshape = (C, Sl, H, W, 2) if dims == 3 else (C * Sl, H, W, 2)
        ms = [torch.tensor(s["mask"], dtype=torch.bool).reshape(mshape) for s in smps]
        ks = [torch.tensor(s["kspace"], dtype=torch.float32).reshape(kshape) for s in smps]
        ac = [torch.tensor(s["acs"], dtype=torch.bool).reshape(mshape) for s in smps] if smps[0].get("acs") is not None else None
        if batched:
            sample = {"sampling_mask": torch.stack(ms), kkey: torch.stack(ks),
                      "filename": [s["filename"] for s in smps], "slice_no": [s["slice_no"] for s in smps]}
            if ac is not None:
                sample["acs_mask"] = torch.stack(ac)
        else:
            sample = {"sampling_mask": ms[0], kkey: ks[0], "filename": smps[0]["filename"],
                      "slice_no": smps[0]["slice_no"]}
            if ac is not None:
                sample["acs_mask"] = ac[0]
        return sample, mshape, kshape

    def hist_call(call, sp, case, smps, dims, batched, perturb, kkey="masked_kspace"):
        np.random.seed(perturb % (2 ** 31))
        torch.manual_seed(perturb)
        libc.srand(perturb % (2 ** 31))
        sp.rng.log = []
        del calls[:]
        sample, mshape, kshape = hist_sample(case, smps, dims, batched, kkey)
        r = {"n": len(smps)}
        try:
            before = {k_: v.clone() for k_, v in sample.items() if isinstance(v, torch.Tensor)}
            handed = dict(sample)
            out = (sp if batched else call)(sample)
            r["mutated"] = sorted(str(k_) for k_, v in before.items() if handed[k_].shape != v.shape or not torch.equal(handed[k_], v))
            im, tm = out["input_sampling_mask"], out["target_sampling_mask"]
            for need_ in ("input_" + kkey, "target_" + kkey):
                if need_ not in out:
                    raise KeyError(f"forward (kspace_key={kkey!r}) did not write {need_!r}; keys: {sorted(map(str, out))}")
            ik, tk = out["input_" + kkey], out["target_" + kkey]
            if not batched:
                im, tm, ik, tk = im[None], tm[None], ik[None], tk[None]
            r["shape"] = [list(im.shape), list(tm.shape), list(ik.shape), list(tk.shape)]
            r["want_shape"] = [[len(smps)] + list(mshape)] * 2 + [[len(smps)] + list(kshape)] * 2
            fl = lambda x: [[int(v) for v in x[b].reshape(-1).tolist()] for b in range(x.shape[0])]  # noqa: E731
            r["input"], r["target"], r["ink"], r["tgk"] = fl(im), fl(tm), fl(ik), fl(tk)
            r["dtype"] = [str(im.dtype), str(tm.dtype)]
            r["k_integral"] = bool((ik == ik.round()).all() and (tk == tk.round()).all())
            r["ok"] = True
        except Exception as e:  # noqa: BLE001
            r.update(ok=False, err=type(e).__name__, msg=str(e)[:300])
        r["calls"] = [dict(c) for c in calls]
        r["log"] = list(sp.rng.log)
        return r

    def run_history(case):
        def mk(icfg):
            c = dict(icfg, level="pipeline" if icfg.get("via") == "pipeline" else "forward")
            call, sp = build(c)
            sp.rng = RecRS()
            sp.rng.log = []
            return call, sp

        objs = [mk(i) for i in case["insts"]]
        p0 = int(case.get("perturb", 1))
        res = {"steps": [], "state_changed": []}
        snap0 = snapshot(objs)
        for n, st in enumerate(case["steps"]):
            call, sp = objs[st["inst"]]
            icfg = case["insts"][st["inst"]]
            smps = [case["pool"][j] for j in st["samples"]]
            batched = bool(st.get("batched", True)) or icfg.get("via") != "pipeline"
            kkey = icfg.get("kkey", "masked_kspace")
            r = hist_call(call, sp, case, smps, st.get("dims", 2), batched, p0 + 7919 * n, kkey)
            if icfg["kind"] == "half" and icfg.get("dir", "").startswith("diagonal"):
                r["xs"] = [list(float(v).as_integer_ratio()) for v in torch.linspace(-1, 1, case["nrow"]).tolist()]
                r["ys"] = [list(float(v).as_integer_ratio()) for v in torch.linspace(-1, 1, case["ncol"]).tolist()]
            # reference: a fresh object that has seen nothing, one sample at a time
            fresh = {"input": [], "target": [], "ok": True}
            if icfg["use_seed"] or icfg["kind"] == "half":
                for s in smps:
                    fc, fs = mk(icfg)
                    fr = hist_call(fc, fs, case, [s], st.get("dims", 2), True, p0 + 104729 * n + 1, kkey)
                    if not fr["ok"]:
                        fresh = {"ok": False, "err": fr["err"], "msg": fr.get("msg")}
                        break
                    fresh["input"] += fr["input"]
                    fresh["target"] += fr["target"]
                r["fresh"] = fresh
            snap = snapshot(objs)
            ch = sorted(k for k in set(snap) | set(snap0) if snap.get(k) != snap0.get(k))
            r["state_changed"] = ch
            for k in ch:
                if k not in res["state_changed"]:
                    res["state_changed"].append(k)
            snap0 = snap
            res["steps"].append(r)
        return res

    def run_case(case):
        t0 = time.time()
        try:
            if case["level"] == "history":
                res = run_history(case)
            elif case["level"] == "ctor":
                got = []
                for rs in case["ratios"]:
                    vals = [p / q for p, q in rs]
                    row = []
                    for cls in (S.GaussianMaskSplitterModule, S.UniformMaskSplitterModule):
                        for arg in ([vals[0]] if len(vals) == 1 else []) + [list(vals), tuple(vals)]:
                            try:
                                cls(ratio=arg)
                                row.append("ok")
                            except Exception as e:  # noqa: BLE001
                                row.append(type(e).__name__)
                    got.append(row)
                res = {"got": got}
            elif case["level"] == "hashseed":
                res = {"hashseed": os.environ.get("PYTHONHASHSEED"), "probe": hash(("file1.h5", 3)) % 1000003}
            elif case["level"] == "f32":
                import math as _m
                res = {"counts": [[int(_m.ceil(torch.tensor(S_) * (p / q))), int(torch.count_nonzero(torch.ones(S_)) * (p / q))]
                                  for S_, p, q in case["pairs"]]}
            elif case["level"] == "engine":
                res = run_engine(case)
            elif case["level"] == "engine_inputs":
                res = run_engine_inputs(case)
            elif case["level"] == "fullpipe":
                res = run_fullpipe(case)
            else:
                res = run_once(case, int(case.get("perturb", 1)))
        except Exception as e:  # noqa: BLE001 - canonicalised
            return {"ok": False, "err": type(e).__name__, "msg": str(e)[:300], "calls": [dict(c) for c in calls],
                    "log": list(RecRS.log)}
        res["ok"] = True
        forms = [case.get(k) for k in ("dir_form", "type_form") if case.get(k) not in (None, "enum")]
        if forms and case["level"] in ("split", "forward", "pipeline") and (case.get("use_seed") or case.get("kind") == "half"):
            # the same call with the options given as enum members: must be the same split
            try:
                rr = run_once({k: v for k, v in case.items() if k not in ("dir_form", "type_form")}, int(case.get("perturb", 1)))
                res["enum_ref"] = {"ok": True, "input": rr["input"], "target": rr["target"]}
            except Exception as e:  # noqa: BLE001
                res["enum_ref"] = {"ok": False, "err": f"{type(e).__name__}: {e}"[:200]}
        if (case.get("layout") not in (None, "contiguous") and case["level"] in ("split", "forward", "pipeline")
                and (case.get("use_seed") or case.get("kind") == "half")):
            # the same call on the same logical tensors in contiguous memory (same ambient RNG state): must be the same answer
            try:
                rr = run_once({k: v for k, v in case.items() if k != "layout"}, int(case.get("perturb", 1)))
                res["layout_ref"] = {"ok": True, **{k: rr.get(k) for k in ("input", "target", "ink", "tgk", "shape", "dtype", "calls", "log")}}
            except Exception as e:  # noqa: BLE001
                res["layout_ref"] = {"ok": False, "err": type(e).__name__, "msg": str(e)[:200]}
        if case.get("twice"):
            try:
                r2 = run_once(case, int(case.get("perturb", 1)) * 7919 + 13)
                res["input2"], res["target2"] = r2["input"], r2["target"]
            except Exception as e:  # noqa: BLE001
                res["input2"], res["target2"] = None, f"{type(e).__name__}: {e}"[:200]
        res["time"] = round(time.time() - t0, 4)
        return res

    real_out.write(json.dumps({"ready": True, "ext": dict(boot.ext_info)}) + "\n")
    real_out.flush()
    for ln in sys.stdin:
        ln = ln.strip()
        if not ln:
            continue
        del rec_errors[:]
        ans = run_case(json.loads(ln))
        if rec_errors:
            ans["rec_errors"] = list(rec_errors)
        real_out.write(json.dumps(ans) + "\n")
        real_out.flush()


class _Worker:
    """One subprocess running the real code; every call has a deadline."""

    def __init__(self, hashseed: str | None = None):
        self.proc = None
        self.ext = {}
        self.restarts = 0
        self.hashseed = hashseed       # PYTHONHASHSEED of the interpreter (None: inherited / random)
        self.greeted = False

    def spawn(self):
        """start the interpreter without waiting for it (a fresh process, as a spawned data-loader worker or a resumed
        run would be)"""
        if self.proc is not None and self.proc.poll() is None:
            return
        code = (f"import sys; sys.path.insert(0, {str(HARNESS)!r}); import props.c11 as m; m._worker_main()")
        env = dict(os.environ)
        if self.hashseed is not None:
            env["PYTHONHASHSEED"] = self.hashseed
        self.proc = subprocess.Popen([sys.executable, "-u", "-c", code], stdin=subprocess.PIPE, stdout=subprocess.PIPE,
                                     stderr=subprocess.DEVNULL, cwd=str(HARNESS), bufsize=0, env=env)
        self.greeted = False

    def _start(self):
        self.spawn()
        if self.greeted:
            return
        hello = self._read(180.0)
        self.greeted = True
        if hello is None or not hello.get("ready"):
            self.close()
            raise ToolFailure("C11 worker did not start (cannot import the implementation?)")
        self.ext = hello.get("ext", {})

    def _read(self, timeout):
        buf = b""
        end = time.time() + timeout
        fd = self.proc.stdout.fileno()
        while True:
            left = end - time.time()
            if left <= 0:
                return None
            r, _, _ = select.select([fd], [], [], left)
            if not r:
                return None
            chunk = os.read(fd, 1 << 16)
            if not chunk:
                raise ToolFailure("C11 worker died")
            buf += chunk
            if buf.endswith(b"\n"):
                return json.loads(buf.decode())

    def call(self, case: dict, timeout: float = WATCHDOG_S) -> dict:
        if self.restarts >= 3 and case.get("kind") == "gauss":
            # the hang is established (three watchdog kills); do not spend 20 s on every further Gaussian case
            return {"ok": False, "err": "Skipped", "msg": "skipped after repeated hangs", "calls": [], "log": []}
        if self.proc is None or self.proc.poll() is not None or not self.greeted:
            self._start()
        self.proc.stdin.write((json.dumps(case) + "\n").encode())
        self.proc.stdin.flush()
        res = self._read(timeout)
        if res is None:
            self.close()
            self.restarts += 1
            return {"ok": False, "err": "Timeout", "msg": f"no answer within {timeout} s", "calls": [], "log": []}
        if res.get("rec_errors"):
            # a recorder of the harness failed: that says nothing about the code under test
            self.close()
            raise ToolFailure(f"C11 harness stand-in failed: {res['rec_errors'][:3]}")
        return res

    def close(self):
        if self.proc is not None:
            try:
                self.proc.kill()
                self.proc.wait(5)
            except Exception:  # noqa: BLE001
                pass
            for f in (self.proc.stdin, self.proc.stdout):
                try:
                    f.close()
                except Exception:  # noqa: BLE001
                    pass
        self.proc = None
        self.greeted = False


_W =_Worker(hashseed="101")
_W2 = _Worker(hashseed="2024")     # a second interpreter with another hash salt: determinism must hold across processes
_RESULTS: list[tuple[dict, dict]] = []   # (case, result) of the correspondence phase, re-used by the oracle
_HIST: list[tuple[dict, dict]] = []      # (history, result) of the correspondence phase
_CTOR: dict = {}


# ==================================================================================================
# independent arithmetic of this process
def _f32(x: float) -> float:
    return struct.unpack("f", struct.pack("f", x))[0]


def _count_ceil_f32(S: int, p: int, q: int) -> int:
    """int(ceil(tensor(S) * ratio)): a float32 product (both operands rounded to float32, exact in double, rounded once)"""
    return int(math.ceil(_f32(_f32(float(S)) * _f32(p / q))))


def _count_floor_f32(S: int, p: int, q: int) -> int:
    return int(_f32(_f32(float(S)) * _f32(p / q)))


def _region(n: int, a: int) -> list[int]:
    """indices the code's slice `[n//2 - a//2 : n//2 + a//2]` addresses (Python slice semantics)"""
    c = n // 2
    return list(range(n))[c - a // 2: c + a // 2]


def _wraps(n: int, a: int) -> bool:
    return a // 2 > n // 2


def _protected(case) -> list[int]:
    H, W = case["nrow"], case["ncol"]
    rows, cols = set(_region(H, case["a"][0])), set(_region(W, case["a"][1]))
    return [1 if (k // W in rows and k % W in cols) else 0 for k in range(H * W)]


def _reduced(case, b):
    m = case["masks"][b]
    if case["keep"] and case["acs"]:
        return [x & (1 - a) for x, a in zip(m, case["acs"][b])]
    return list(m)


def _free(case, b):
    r = _reduced(case, b)
    if case["keep"]:
        return r
    return [x & (1 - p) for x, p in zip(r, _protected(case))]


_libc = ctypes.CDLL("libc.so.6")
_libc.rand.restype = ctypes.c_int
_libc.srand.argtypes = [ctypes.c_uint]
_INT_MIN = -(2 ** 31)


def _trunc(v: float) -> int:
    if v != v or v in (math.inf, -math.inf) or abs(v) >= 2 ** 31:
        return _INT_MIN
    return int(v)


def _stream(seed: int, nrow: int, ncol: int, cx: int, cy: int, std: float, free: list[int], n: int, tail: int = 3):
    """The kernel's candidate stream after srand(seed): the prefix it consumes for request `n` on `free`, plus `tail`
    further candidates.  None when longer than STREAM_CAP."""
    _libc.srand(seed & 0xFFFFFFFF)
    sx, sy = (nrow - 1) / std, (ncol - 1) / std
    out = []

    def nxt():
        u1 = _libc.rand() / 2147483647.0
        r = math.sqrt(-2 * math.log(u1)) if u1 > 0 else math.inf
        u2 = _libc.rand() / 2147483647.0
        th = 2 * math.pi * u2
        x = cx + r * math.cos(th) * sx
        y = cy + r * math.sin(th) * sy
        return _trunc(x), _trunc(y)

    chosen = set()
    count = 0
    while count <= n:
        c = nxt()
        out.append(c)
        if len(out) > PY_STREAM_CAP:
            return None
        if 0 <= c[0] < nrow and 0 <= c[1] < ncol and free[c[0] * ncol + c[1]] and c not in chosen:
            chosen.add(c)
            count += 1
    for _ in range(tail):
        out.append(nxt())
    return out


# ---- fast replay of the kernel's libc stream (C helper, compiled once into /verif/.build/ext; Python fallback) ----
_C_SRC = r"""
#include <stdlib.h>
#include <math.h>
#include <limits.h>
static int trunc_i(double v) { return (v > -2147483648.0 && v < 2147483648.0) ? (int)v : INT_MIN; }
/* Replays `gaussian_fill(n, nrow, ncol, cx, cy, std, free, zeros, seed)`: returns the number of candidates the loop
   consumes (-1 if more than cap), writes the first occurrences of the candidates (+ `tail` further draws) to ox/oy. */
long c11_stream(unsigned seed, int nrow, int ncol, int cx, int cy, double std, const unsigned char *free_, long n,
                long cap, long tail, int *ox, int *oy, long ocap, long *nout)
{
    double sx = (nrow - 1) / std, sy = (ncol - 1) / std;
    int wx = (int)(7.0 * sx) + 4, wy = (int)(7.0 * sy) + 4;
    long bw = (long)nrow + 2L * wx, bh = (long)ncol + 2L * wy;
    unsigned char *seen = calloc((size_t)(bw * bh), 1), *chosen = calloc((size_t)nrow * ncol, 1);
    long count = 0, used = 0, out = 0, extra = 0;
    if (!seen || !chosen) { free(seen); free(chosen); return -2; }
    srand(seed);
    while (count <= n || extra < tail) {
        double u1 = (double)rand() / RAND_MAX;
        double r = sqrt(-2 * log(u1));
        double u2 = (double)rand() / RAND_MAX;
        double theta = 2 * M_PI * u2;
        int x = trunc_i(cx + r * cos(theta) * sx), y = trunc_i(cy + r * sin(theta) * sy);
        int fresh = 1;
        if (count <= n) {
            used++;
            if (used > cap) { free(seen); free(chosen); *nout = out; return -1; }
        } else extra++;
        if (x >= -wx && x < nrow + wx && y >= -wy && y < ncol + wy) {
            long k = (long)(x + wx) * bh + (y + wy);
            fresh = !seen[k];
            seen[k] = 1;
        }
        if (fresh) {
            if (out >= ocap) { free(seen); free(chosen); *nout = out; return -3; }
            ox[out] = x; oy[out] = y; out++;
        }
        if (count <= n && x >= 0 && x < nrow && y >= 0 && y < ncol && free_[(long)x * ncol + y] && !chosen[(long)x * ncol + y]) {
            chosen[(long)x * ncol + y] = 1;
            count++;
        }
    }
    free(seen); free(chosen);
    *nout = out;
    return used;
}
"""
_CLIB = {}


def _clib():
    if "lib" not in _CLIB:
        _CLIB["lib"] = None
        try:
            import hashlib

            d = HARNESS.parent / ".build" / "ext" / ("c11_" + hashlib.sha256(_C_SRC.encode()).hexdigest()[:12])
            so = d / "c11_stream.so"
            if not so.exists():
                d.mkdir(parents=True, exist_ok=True)
                src = d / "c11_stream.c"
                src.write_text(_C_SRC)
                tmp = d / f"c11_stream.tmp{os.getpid()}.so"
                r = subprocess.run(["gcc", "-O2", "-fPIC", "-shared", "-w", str(src), "-o", str(tmp), "-lm"],
                                   capture_output=True, text=True)
                if r.returncode == 0:
                    os.replace(tmp, so)
            if so.exists():
                lib = ctypes.CDLL(str(so))
                lib.c11_stream.restype = ctypes.c_long
                lib.c11_stream.argtypes = [ctypes.c_uint, ctypes.c_int, ctypes.c_int, ctypes.c_int, ctypes.c_int, ctypes.c_double,
                                           ctypes.c_char_p, ctypes.c_long, ctypes.c_long, ctypes.c_long,
                                           ctypes.POINTER(ctypes.c_int), ctypes.POINTER(ctypes.c_int), ctypes.c_long,
                                           ctypes.POINTER(ctypes.c_long)]
                _CLIB["lib"] = lib
        except Exception:  # noqa: BLE001 - fall back to the Python replay
            _CLIB["lib"] = None
    return _CLIB["lib"]


def _stream_fast(seed, nrow, ncol, cx, cy, std, free, n, cap=STREAM_CAP, tail=3):
    """-> (number of candidates the kernel consumes or None when > cap, first occurrences of the candidates)"""
    lib = _clib()
    if lib is None:
        st = _stream(seed, nrow, ncol, cx, cy, std, free, n, tail)
        if st is None:
            return None, None
        first, seen = [], set()
        for c in st:
            if c not in seen:
                seen.add(c)
                first.append(c)
        return len(st) - tail, first
    ocap = 64 * (nrow + 64) * (ncol + 64) // 8 + 4096
    ox, oy = (ctypes.c_int * ocap)(), (ctypes.c_int * ocap)()
    nout = ctypes.c_long(0)
    used = lib.c11_stream(seed & 0xFFFFFFFF, nrow, ncol, cx, cy, float(std), bytes(free), n, cap, tail, ox, oy, ocap,
                          ctypes.byref(nout))
    if used < 0:
        return None, None
    first = [(ox[i], oy[i]) for i in range(nout.value)]
    if used <= 3000 and _CLIB.get("xcheck", 0) < 25:
        # self-check of the harness: the C replay equals the ctypes/Python replay
        _CLIB["xcheck"] = _CLIB.get("xcheck", 0) + 1
        st = _stream(seed, nrow, ncol, cx, cy, std, free, n, tail)
        ref, seen = [], set()
        for c in st or []:
            if c not in seen:
                seen.add(c)
                ref.append(c)
        if st is None or len(st) - tail != used or ref != first:
            raise ToolFailure("C11: the C replay of the libc stream differs from the Python replay")
    return used, first


def _scaled_coords(res):
    """float32 linspace values of the worker on one common integer scale (a power of two)"""
    if "xs" not in res:
        return [], []
    D = max(d for _, d in res["xs"] + res["ys"])
    return [n * (D // d) for n, d in res["xs"]], [n * (D // d) for n, d in res["ys"]]


_STREAM_LEN: list[int] = []
_DIAG_STATS = {"cases": 0, "differ": 0, "off_boundary": 0}


def _diag_stats(case, res):
    """how often float32 and exact diagonal sides differ, and whether only where the exact coordinates cancel"""
    if "xs" not in res:
        return
    H, W = case["nrow"], case["ncol"]
    sgn = 1 if case["dir"] == "diagonal_right" else -1
    fx = [Fraction(n, d) for n, d in res["xs"]]
    fy = [Fraction(n, d) for n, d in res["ys"]]
    _DIAG_STATS["cases"] += 1
    diff = [(i, j) for i in range(H) for j in range(W)
            if (fx[i] + sgn * fy[j] <= 0) != (_coord(H, i) + sgn * _coord(W, j) <= 0)]
    if diff:
        _DIAG_STATS["differ"] += 1
        if any(_coord(H, i) + sgn * _coord(W, j) != 0 for i, j in diff):
            _DIAG_STATS["off_boundary"] += 1


def _coord(n: int, i: int) -> Fraction:
    return Fraction(-1) if n <= 1 else Fraction(2 * i, n - 1) - 1


# ==================================================================================================
# case generation
def _gen_mask(rng, H, W, mtype):
    if mtype == "full":
        m = [1] * (H * W)
    elif mtype == "line":
        cols = [1 if rng.random() < rng.choice([0.25, 0.5]) else 0 for _ in range(W)]
        for j in range(W // 2 - 1, W // 2 + 1):
            cols[j] = 1
        m = [cols[k % W] for k in range(H * W)]
    elif mtype == "2d":
        pr = rng.choice([0.2, 0.4, 0.6])
        m = [1 if rng.random() < pr else 0 for _ in range(H * W)]
    elif mtype == "sparse":
        m = [0] * (H * W)
        for _ in range(rng.randint(3, 8)):
            m[rng.randrange(H * W)] = 1
    else:  # nearly empty
        m = [0] * (H * W)
        for _ in range(rng.choice([0, 1, 1, 2])):
            m[rng.randrange(H * W)] = 1
    return m


def _gen_acs(rng, H, W, mask, mtype):
    """central ACS block (columns for line masks), made part of the mask"""
    h = rng.choice([2, 2, 3, 4])
    w = rng.choice([2, 3, 4])
    r0, c0 = H // 2 - h // 2, W // 2 - w // 2
    acs = [0] * (H * W)
    for i in range(H):
        for j in range(W):
            if c0 <= j < c0 + w and (mtype == "line" or r0 <= i < r0 + h):
                acs[i * W + j] = 1
    if rng.random() < 0.85:      # the usual situation: ACS ⊆ mask
        mask = [m | a for m, a in zip(mask, acs)]
    return mask, acs


def _gen_region(rng, H, W):
    r = rng.random()
    if r < 0.2:
        return [0, 0]
    if r < 0.55:
        return [rng.choice([1, 2, 3, 4]), rng.choice([1, 2, 3, 4])]
    if r < 0.75:
        return [rng.randint(0, H), rng.randint(0, W)]
    if r < 0.87:
        return [H, W]
    return [H + rng.randint(1, 8), W + rng.randint(0, 8)]


def _gen_size(rng, big_ok=True):
    r = rng.random()
    if r < 0.6 or not big_ok:
        return rng.randint(6, 12), rng.randint(6, 13)
    if r < 0.9:
        return rng.randint(9, 22), rng.randint(9, 24)
    return rng.randint(23, 40), rng.randint(23, 40)


def _name(rng):
    stem = rng.choice(["file", "brain_AXT1_", "knee-", "vol", "ü_"]) + str(rng.randrange(10 ** rng.randint(1, 7)))
    return stem + rng.choice([".h5", ".h5", ""])


def _gen_case(rng, kind: str, level: str) -> dict:
    H, W = _gen_size(rng, big_ok=(kind != "uniform" or True))
    B = 1 if level != "forward" else rng.choice([1, 2, 3])
    C = rng.choice([1, 2, 3]) if level != "split" else 1
    if level == "forward" and B * C * H * W > 2500:
        H, W = _gen_size(rng, big_ok=False)
    mtype = rng.choice(["line", "2d", "2d", "sparse", "nearly_empty", "full", "line"])
    keep = rng.random() < 0.35
    with_acs = keep or rng.random() < 0.3
    masks, acss = [], []
    for _ in range(B):
        m = _gen_mask(rng, H, W, mtype)
        if with_acs:
            m, a = _gen_acs(rng, H, W, m, mtype)
            acss.append(a)
        masks.append(m)
    use_seed = rng.random() < 0.8
    ratios = [rng.choice(RATIOS)] if rng.random() < 0.8 else [rng.choice(RATIOS) for _ in range(rng.choice([2, 3]))]
    if kind == "half":
        ratios = [(1, 2)]
    case = {"kind": kind, "level": level, "nrow": H, "ncol": W, "B": B, "C": C, "mtype": mtype, "masks": masks,
            "acs": acss if with_acs else None, "keep": int(keep), "a": _gen_region(rng, H, W), "ratios": ratios,
            "use_seed": int(use_seed), "perturb": rng.randrange(1, 10 ** 6), "twice": 1, "std": 3.0}
    if kind == "half":
        case["dir"] = rng.choice(DIRS)
        case["dir_form"] = rng.choice(FORMS)
    if level == "pipeline":
        case["type_form"] = rng.choice(FORMS)
    if level == "forward" and rng.random() < 0.25:
        case["kkey"] = "kspace"          # rarely used option: another k-space key
    if level == "split":
        if use_seed:
            s = _name(rng) + str(rng.randrange(40))
            case["seed"] = [ord(ch) for ch in s]
        else:
            case["seed"] = None
    else:
        case["filename"] = [_name(rng) for _ in range(B)]
        case["slice_no"] = [rng.randrange(0, 300) for _ in range(B)]
        case["kspace"] = []
        for b in range(B):
            k = []
            for c in range(C):
                for cell in range(H * W):
                    on = masks[b][cell]
                    k += [rng.randint(-4, 4) * on, rng.randint(1, 4) * on]
            case["kspace"].append(k)
    return case


def _region_class(case) -> str:
    a, H, W = case["a"], case["nrow"], case["ncol"]
    return ("none" if a == [0, 0] or case["keep"] else "wraps" if _wraps(H, a[0]) or _wraps(W, a[1]) else
            "full" if a == [H, W] else "odd" if (a[0] % 2 or a[1] % 2) else "even")



def _gen_engine_case(rng, kind: str, dims: int, level: str = "engine") -> dict:
    """SSL branch of build_mri_transforms -> default_collate -> one training step of an SSL engine"""
    H, W = rng.randint(6, 10), rng.randint(6, 11)
    B, C = rng.choice([1, 2, 2, 3]), rng.choice([1, 2, 3])
    if rng.random() < 0.3:
        C = B                     # batch = coils: where a misaligned mask would broadcast silently
    Sl = rng.choice([2, 3]) if dims == 3 else 1
    mtype = rng.choice(["line", "2d", "2d", "sparse", "full"])
    keep = rng.random() < 0.35
    masks, acss = [], []
    for _ in range(B):
        m = _gen_mask(rng, H, W, mtype)
        if keep:
            m, a = _gen_acs(rng, H, W, m, mtype)
            m = [x | y for x, y in zip(m, a)]
            acss.append(a)
        masks.append(m)
    n = C * Sl * H * W * 2
    case = {"kind": kind, "level": level, "dims": dims, "engine": rng.choice(["ssl", "jssl"]), "nrow": H, "ncol": W, "B": B,
            "C": C, "S": Sl, "mtype": mtype, "masks": masks, "acs": acss if keep else None, "keep": int(keep),
            "a": rng.choice([[0, 0], [2, 2], [2, 4], [3, 3]]), "ratios": [rng.choice(RATIOS)], "use_seed": 1,
            "perturb": rng.randrange(1, 10 ** 6), "filename": [_name(rng) for _ in range(B)],
            "slice_no": [rng.randrange(0, 300) for _ in range(B)],
            "kspace": [[rng.randint(1, 5) * rng.choice([-1, 1]) for _ in range(n)] for _ in range(B)],
            "pred": [[rng.randint(10, 19) for _ in range(n)] for _ in range(B)]}
    if kind == "half":
        case["dir"], case["ratios"] = rng.choice(DIRS), [(1, 2)]
    if level == "engine" and dims == 2 and rng.random() < 0.4:
        # the vSHARP SSL / JSSL engines re-implement the training step: image-domain prediction, the same for every coil
        case["engine"] = rng.choice(["vsharp_ssl", "vsharp_jssl"])
        per = H * W * 2
        case["pred"] = [p[:per] + [0] * (per * (C - 1)) for p in case["pred"]]
    if level == "fullpipe":
        case["nrow"], case["ncol"], case["B"] = rng.choice([10, 12, 13]), rng.choice([12, 15, 16]), 1
        for k in ("masks", "acs", "kspace", "pred"):
            case[k] = None
        case["mtype"], case["keep"] = "line", 0
    return case


def _engine_spec(case, res, b):
    """what the k-space loss must see for sample b, from the returned split masks (masked k-space m·k)"""
    N = case["nrow"] * case["ncol"]
    i, t = res["input"][b], res["target"][b]
    m, k, p = case["masks"][b], case["kspace"][b], case["pred"][b]
    out, ref = [], []
    for x in range(len(k)):
        c = (x // 2) % N
        mk = k[x] * m[c]
        out.append(0 if not t[c] else (mk if i[c] else p[x]))
        ref.append(mk if t[c] else 0)
    return out, ref


def _check_engine(case, res):
    H, W, B, C = case["nrow"], case["ncol"], case["B"], case["C"]
    N = H * W
    three = case["dims"] == 3
    tag = "ssl-split-mask-rank-3d" if three else None
    if not res["ok"]:
        yield (f"ssl-pipeline-raises-{res['err']}", f"the SSL branch of build_mri_transforms raises {res['err']}: {res.get('msg', '')[:160]}")
        return
    need = {"input_kspace", "kspace", "input_sampling_mask", "target_sampling_mask", "is_ssl", "target"}
    gone = {"masked_kspace", "sampling_mask", "acs_mask"}
    keys = set(res["keys"])
    if not need <= keys or keys & gone or not res["is_ssl"]:
        yield ("ssl-pipeline-keys", f"keys after the SSL branch: {sorted(keys)} (need {sorted(need)}, without {sorted(gone)})")
        return
    for b in range(B):
        m, k = case["masks"][b], case["kspace"][b]
        i, t = res["input"][b], res["target"][b]
        acs = case["acs"][b] if case["acs"] else [0] * N
        if len(i) != N or [x | y for x, y in zip(i, t)] != [x | y for x, y in zip(m, acs)] or \
                [x & y for x, y in zip(i, t)] != acs:
            yield ("ssl-pipeline-partition", "split masks of the pipeline are not a partition of the sampling mask")
            return
        for name, mk, got in (("input_kspace", i, res["ink"][b]), ("kspace", t, res["tgk"][b])):
            if got != [k[x] * m[(x // 2) % N] * mk[(x // 2) % N] for x in range(len(k))]:
                yield ("ssl-pipeline-kspace-not-restricted", f"`{name}` is not the masked k-space restricted to its mask")
    if res["mask_shape"][0] != res["orig_mask_shape"] or res["mask_shape"][1] != res["orig_mask_shape"]:
        yield (tag or "ssl-split-mask-shape", f"split masks have shape {res['mask_shape'][0]}, the sampling mask {res['orig_mask_shape']}"
               + (f"; engine step on the collated batch: {res.get('engine_err', 'ok')}" if not res.get("engine_ok") else ""))
        if three:
            return
    if not res.get("engine_ok"):
        yield (tag or "ssl-engine-step-raises", f"training step on the collated batch raises {res.get('engine_err')}")
        return
    tag = None
    if "model_in_k" in res and (res["model_in_k"] != res["ink"] or res["model_in_mask"] != res["input"]):
        yield ("ssl-engine-model-input", f"{case['engine']} engine, training: the network is not given the masked k-space "
               "restricted to the input mask together with the input mask")
    for b in range(B):
        out, ref = _engine_spec(case, res, b)
        if res["loss_ref"][b] != ref:
            yield (tag or "ssl-loss-reference", "the k-space loss reference is not the masked k-space restricted to the target mask")
        if res["loss_out"][b] != out:
            yield (tag or "ssl-loss-projection", "the projected prediction differs from: k on cells in both masks, the prediction on "
                   "held-out target cells, 0 off the target mask")


def _check_fullpipe(case, res):
    three = case["dims"] == 3
    if not res["ok"]:
        yield (f"ssl-fullpipe-raises-{res['err']}", f"build_mri_transforms pipeline raises {res['err']}: {res.get('msg', '')[:160]}")
        return
    if res["sup_is_ssl"] or not res["ssl_is_ssl"] or "masked_kspace" not in res["sup_keys"] or "masked_kspace" in res["ssl_keys"] \
            or "input_kspace" not in res["ssl_keys"] or "acs_mask" in res["ssl_keys"]:
        yield ("ssl-pipeline-keys", f"supervised keys {res['sup_keys']}, SSL keys {res['ssl_keys']}")
    for f, key in (("union", "ssl-pipeline-partition"), ("loss_k_is_target_restriction", "ssl-pipeline-kspace-not-restricted"),
                   ("input_k_is_input_restriction", "ssl-pipeline-kspace-not-restricted"),
                   ("target_is_recon_of_target_k", "ssl-pipeline-target-image"), ("inter_empty", "ssl-pipeline-partition")):
        if res.get(f) is False:
            yield (key, f"supervised vs SSL branch on the same raw sample: `{f}` does not hold")
    if res["mask_shape"] != res["orig_mask_shape"]:
        yield ("ssl-split-mask-rank-3d" if three else "ssl-split-mask-shape",
               f"split masks have shape {res['mask_shape']}, the sampling mask {res['orig_mask_shape']}")


# ==================================================================================================
# call histories on persistent splitter objects (state kept between calls, batched vs single calls, interleaved objects)
HIST_PATTERNS = ["same-key-new-mask", "same-mask-new-file", "repeat", "batched-vs-single", "many-keys-then-revisit",
                 "same-key-new-acs", "random", "random"]


def _gen_inst(rng, kind: str, keep=None, via=None) -> dict:
    keep = (rng.random() < 0.3) if keep is None else keep
    d = {"kind": kind, "keep": int(keep), "a": rng.choice([[0, 0], [2, 2], [2, 4], [3, 3], [4, 2]]),
         "use_seed": 1 if rng.random() < 0.85 else 0, "std": 3.0,
         "ratios": [rng.choice(RATIOS)] if rng.random() < 0.8 else [rng.choice(RATIOS) for _ in range(2)],
         "via": via or rng.choice(["module", "module", "pipeline"])}
    if kind == "half":
        d["dir"], d["ratios"], d["dir_form"] = rng.choice(DIRS), [(1, 2)], rng.choice(FORMS)
    if d["via"] == "pipeline":
        d["type_form"] = rng.choice(FORMS)
    if d["via"] == "module" and rng.random() < 0.25:
        d["kkey"] = "kspace"
    return d


def _gen_history(rng, pattern: str, kinds=("gauss", "uniform", "half")) -> dict:
    H, W = rng.randint(6, 11), rng.randint(6, 12)
    three = rng.random() < 0.3
    C, Sl = rng.choice([1, 2]), (rng.choice([1, 2]) if three else 1)
    if pattern == "same-key-new-acs":
        insts = [_gen_inst(rng, rng.choice(kinds), keep=True)]
    else:
        n_inst = rng.choice([1, 1, 2, 3])
        insts = [_gen_inst(rng, rng.choice(kinds)) for _ in range(n_inst)]
        if n_inst >= 2 and rng.random() < 0.5:      # two objects of the same class and configuration: class-level state
            insts[1] = dict(insts[0])
    with_acs = any(i["keep"] for i in insts)
    names = [_name(rng) for _ in range(3)]
    if rng.random() < 0.3:
        names[1] = names[0] + "1"                    # "vol7" slice 12 and "vol71" slice 2 share their concatenation
    slices = [rng.randrange(0, 40), rng.randrange(0, 300)]
    mtype = rng.choice(["line", "2d", "2d", "sparse", "full"])

    def block(h, w):
        r0, c0 = H // 2 - h // 2, W // 2 - w // 2
        return [1 if (c0 <= k % W < c0 + w and (mtype == "line" or r0 <= k // W < r0 + h)) else 0 for k in range(H * W)]

    acs_a, acs_b = block(2, 2), block(rng.choice([3, 4]), rng.choice([3, 4]))
    bases = []
    while len(bases) < 3:
        m = _gen_mask(rng, H, W, mtype if len(bases) < 2 else rng.choice(["2d", "line"]))
        if with_acs:
            m = [x | a | b for x, a, b in zip(m, acs_a, acs_b)]
        if m not in bases or mtype == "full":
            bases.append(m)
        if mtype == "full" and len(bases) == 1:
            mtype = "2d"
    variants = [(bases[0], acs_a), (bases[1], acs_a), (bases[2], acs_a), (bases[0], acs_b)]
    pool, index = [], {}

    def smp(f, s, v):
        key = (f, s, v)
        if key not in index:
            m, a = variants[v]
            k = []
            for _ in range(C * Sl):
                for cell in range(H * W):
                    k += [rng.randint(-4, 4) * m[cell], rng.randint(1, 4) * m[cell]]
            index[key] = len(pool)
            pool.append({"filename": names[f], "slice_no": slices[s], "mask": m, "acs": a if with_acs else None, "kspace": k,
                         "variant": v})
        return index[key]

    if pattern == "same-key-new-mask":
        groups = [[smp(0, 0, 0)], [smp(0, 0, 1)], [smp(0, 0, 0)], [smp(0, 0, 2)]]
    elif pattern == "same-mask-new-file":
        groups = [[smp(0, 0, 0)], [smp(1, 0, 0)], [smp(0, 1, 0)], [smp(2, 1, 0)], [smp(0, 0, 0)]]
    elif pattern == "repeat":
        groups = [[smp(0, 0, 0)]] * 3
    elif pattern == "batched-vs-single":
        groups = [[smp(0, 0, 0), smp(1, 0, 1), smp(2, 1, 2)], [smp(0, 0, 0)], [smp(1, 0, 0)], [smp(2, 1, 2)],
                  [smp(2, 1, 1), smp(0, 0, 2)]]
    elif pattern == "many-keys-then-revisit":
        groups = [[smp(f, s, 0)] for f in range(3) for s in range(2)] + [[smp(0, 0, 1)], [smp(2, 1, 2)]]
    elif pattern == "same-key-new-acs":
        groups = [[smp(0, 0, 0)], [smp(0, 0, 3)], [smp(0, 0, 0)], [smp(1, 0, 3), smp(0, 0, 3)]]
    else:
        groups = [[smp(rng.randrange(3), rng.randrange(2), rng.randrange(4 if with_acs else 3)) for _ in range(rng.choice([1, 1, 2, 3]))]
                  for _ in range(rng.randint(4, 7))]
    mixed = (not three) and rng.random() < 0.2
    steps = [{"inst": rng.randrange(len(insts)), "samples": g, "batched": int(len(g) > 1 or rng.random() < 0.5),
              "dims": 3 if (three or (mixed and rng.random() < 0.5)) else 2} for g in groups]
    return {"level": "history", "kind": "history", "pattern": pattern, "nrow": H, "ncol": W, "C": C, "S": Sl, "mtype": mtype,
            "insts": insts, "pool": pool, "steps": steps, "perturb": rng.randrange(1, 10 ** 6)}


def _hist_views(case, res, only_inst=None):
    """per step (or, with `only_inst`, for all steps of one object concatenated): the pseudo forward case and result
    that `_check` / `_protocol` understand"""
    H, W, Cc = case["nrow"], case["ncol"], case["C"] * case.get("S", 1)
    out = []
    acc = None
    for n, (st, r) in enumerate(zip(case["steps"], res.get("steps", []))):
        if only_inst is not None and st["inst"] != only_inst:
            continue
        icfg = case["insts"][st["inst"]]
        smps = [case["pool"][j] for j in st["samples"]]
        pc = {"kind": icfg["kind"], "level": "forward", "nrow": H, "ncol": W, "B": len(smps), "C": Cc, "mtype": case["mtype"],
              "masks": [s["mask"] for s in smps], "acs": [s["acs"] for s in smps] if icfg["keep"] else None,
              "keep": icfg["keep"], "a": icfg["a"], "ratios": icfg["ratios"], "use_seed": icfg["use_seed"], "twice": 0,
              "std": icfg.get("std", 3.0), "filename": [s["filename"] for s in smps], "slice_no": [s["slice_no"] for s in smps],
              "kspace": [s["kspace"] for s in smps], "dims": st.get("dims", 2), "step": n}
        if "dir" in icfg:
            pc["dir"] = icfg["dir"]
        pr = dict(r)
        if r.get("ok") and r.get("shape") == r.get("want_shape"):
            pr["shape"] = [[len(smps), 1, H, W, 1]] * 2 + [[len(smps), Cc, H, W, 2]] * 2
        if only_inst is None:
            out.append((pc, pr))
            continue
        if acc is None:
            acc = (pc, pr)
            for k in ("input", "target", "ink", "tgk", "calls", "log"):
                pr[k] = list(pr.get(k) or [])
        else:
            apc, apr = acc
            for k in ("masks", "filename", "slice_no", "kspace"):
                apc[k] = apc[k] + pc[k]
            if apc["acs"] is not None:
                apc["acs"] = apc["acs"] + pc["acs"]
            apc["B"] += pc["B"]
            for k in ("input", "target", "ink", "tgk", "calls", "log"):
                apr[k] = apr[k] + list(pr.get(k) or [])
            apr["ok"] = bool(apr.get("ok") and pr.get("ok"))
            apr["k_integral"] = bool(apr.get("k_integral", True) and pr.get("k_integral", True))
    return out if only_inst is None else ([acc] if acc else [])


def _check_history(case, res):
    """the property on every call of a history + independence of everything the object was asked before"""
    if res.get("err") == "Timeout":
        yield ("splitter-history-hang", f"a call history on persistent splitter objects did not return within {WATCHDOG_S} s")
        return
    if "steps" not in res:
        yield (f"splitter-history-raises-{res.get('err')}", f"running a call history raises {res.get('err')}: {res.get('msg', '')[:160]}")
        return
    for pc, pr in _hist_views(case, res):
        n, kind = pc["step"], pc["kind"]
        where = (f"call {n + 1} of {len(case['steps'])} on one splitter object (pattern {case['pattern']}, file "
                 f"{pc['filename']}, slice {pc['slice_no']})")
        for key, what in _check(pc, pr):
            yield (key, f"{what} — {where}")
        fr = pr.get("fresh")
        if fr is not None and pr.get("ok"):
            if not fr.get("ok"):
                continue          # the fresh object fails on its own: reported by the line above / the single-call cases
            if fr["input"] != pr["input"] or fr["target"] != pr["target"]:
                yield (f"{kind}-split-depends-on-call-history",
                       f"{where}: the split differs from the one a fresh object computes for the same sample on its own"
                       + (f" (batched call of {pc['B']} samples)" if pc["B"] > 1 else "")
                       + f" — state that changed between calls: {res.get('state_changed') or 'none visible in the objects'}")


def _hist_protocol(case, res):
    """one `hist` line per splitter object: all its calls, in order, against the model's state-free `runHist`"""
    for n in range(len(case["insts"])):
        views = _hist_views(case, res, only_inst=n)
        if not views:
            continue
        pc, pr = views[0]
        if not pr.get("ok") or len(pr.get("input", [])) != pc["B"]:
            continue
        ln, ans, why = _protocol(pc, pr)
        if ln is None or not ln.startswith("fwd "):
            continue
        yield n, pc, "hist " + ln[4:], ans


def _gen_slow_case(rng, thorough: bool) -> dict:
    """tightest feasible Gaussian requests: the cap binds (target = every free cell), far-from-centre cells included"""
    big = rng.random() < 0.35
    if thorough and big:
        H, W = rng.choice([(64, 64), (96, 80), (64, 128), (128, 128)])
    else:
        H, W = rng.choice([(40, 40), (33, 40), (24, 31), (16, 16), (40, 12), (12, 37)])
    mtype = rng.choice(["full", "full", "line", "2d"])
    m = _gen_mask(rng, H, W, mtype)
    for k in (0, W - 1, (H - 1) * W, H * W - 1):     # the corners are sampled
        m[k] = 1
    a = [4, 4] if H * W <= 4000 else [8, 8] if H * W <= 9000 else [12, 12]
    return {"kind": "gauss", "level": "split", "slow": 1, "nrow": H, "ncol": W, "B": 1, "C": 1, "mtype": mtype, "masks": [m],
            "acs": None, "keep": 0, "a": a, "ratios": [(999, 1000)], "use_seed": 1, "perturb": rng.randrange(1, 10 ** 6),
            "twice": 0, "std": rng.choice([3.0, 3.0, 3.5] + ([4.0] if thorough else [])),
            "seed": [ord(ch) for ch in _name(rng) + str(rng.randrange(40))]}


SLOW_LIMIT = 10_000_000


def _slow_report(ctx, seen):
    """distribution of the number of candidates the real kernel's stream needs on the tightest requests"""
    rows = []
    for case, res in _RESULTS:
        if not case.get("slow") or not res.get("ok") or len(res.get("calls", [])) != 1:
            continue
        k = res["calls"][0]
        used, _ = _stream_fast(k["seed"], k["nrow"], k["ncol"], k["cx"], k["cy"], k["std"], _free(case, 0), k["n"])
        rows.append((used, k["nrow"], k["ncol"], k["std"], k["n"] + 1, k["free"], res.get("time")))
        if (used is None or used > SLOW_LIMIT) and "gaussian-split-slow" not in seen:
            seen.add("gaussian-split-slow")
            yield Violation("gaussian-split-slow",
                            f"the kernel needs {'more than ' + str(STREAM_CAP) if used is None else used} candidates for "
                            f"{k['n'] + 1} of {k['free']} free cells on {k['nrow']}x{k['ncol']} (std_scale {k['std']})",
                            {"case": case, "observed": {"candidates": used, "calls": res["calls"], "time": res.get("time")}})
    if rows:
        us = sorted(u for u, *_ in rows if u is not None)
        tight = sum(1 for r in rows if r[4] == r[5])
        worst = max(rows, key=lambda r: (r[0] is None, r[0] or 0))
        ctx.notes.append(
            f"tightest Gaussian requests ({len(rows)} cases, {tight} with requested = #free): candidates consumed by the real "
            f"kernel's libc stream min/median/max = {us[0]}/{us[len(us) // 2]}/{us[-1]}; worst {worst[1]}x{worst[2]} std_scale "
            f"{worst[3]}: {worst[0]} candidates for {worst[4]} cells ({round((worst[0] or 0) / max(worst[4], 1), 1)} per cell, "
            f"{worst[6]} s); limit for `gaussian-split-slow`: {SLOW_LIMIT}")


def _bucket(case, res) -> str:
    lvl = case["level"] + (f"{case['dims']}d-{case.get('engine', 'pipe')}" if "dims" in case else "")
    return f"{lvl}/{case['kind']}{('-' + case['dir']) if case['kind'] == 'half' else ''}"


def _histograms(ctx, case, res):
    """side histograms of the generator (do not count as evaluations)"""
    H, W = case["nrow"], case["ncol"]
    keys = [f"mask/{case['mtype']}", f"region/{_region_class(case)}", f"keep_acs/{case['keep']}", f"use_seed/{case['use_seed']}",
            f"batch/{case['B']}", f"rows/{'odd' if H % 2 else 'even'}-cols/{'odd' if W % 2 else 'even'}",
            f"size/{'6-12' if max(H, W) <= 13 else '13-24' if max(H, W) <= 24 else '25-40'}",
            f"acs_mask/{'given' if case['acs'] else 'none'}", f"outcome/{'ok' if res.get('ok') else res.get('err')}",
            f"data/{case.get('dims', 2)}d", f"kspace_key/{case.get('kkey', 'masked_kspace')}"]
    if case.get("dir_form") or case.get("type_form"):
        keys.append(f"enum_option_form/{case.get('dir_form') or '-'}+{case.get('type_form') or '-'}")
    if case["kind"] != "half":
        keys += [f"ratio/{p}:{q}" for p, q in case["ratios"][:1]] + [f"ratios/{len(case['ratios'])}"]
    for k in keys:
        ctx.hist[k] = ctx.hist.get(k, 0) + 1


def _nontrivial(case, res) -> bool:
    if not res.get("ok"):
        return False
    if case["level"] == "fullpipe":
        return res.get("input_cells", 0) > 0 and res.get("target_cells", 0) > 0
    nfree = min(sum(_free(case, b)) for b in range(case["B"]))
    both = all(sum(i) > 0 and sum(t) > 0 for i, t in zip(res["input"], res["target"]))
    stress = bool(case["keep"]) or (case["a"] != [0, 0]) or both
    return nfree >= 2 and stress


# ==================================================================================================
# protocol lines (model side) and canonical answers (implementation side)
def _grp(*groups) -> str:
    return " | ".join(ints(g) for g in groups)


def _err(res) -> str:
    return "err " + res.get("err", "Unknown")


def _protocol(case, res):
    """-> (line, impl answer, note) or (None, None, why-excluded)"""
    kind, level = case["kind"], case["level"]
    H, W, B, C = case["nrow"], case["ncol"], case["B"], case["C"]
    keep = case["keep"]
    acs = case["acs"]
    if level == "pipeline" or level == "fullpipe":
        return None, None, f"{level}-level: oracle only"
    if level == "engine":
        return None, None, "engine"
    if res.get("err") == "Timeout":
        return None, None, "timeout"
    # the recorded draws, per sample: every split starts with `rng.seed(seed)` (temp_seed)
    per: list[dict] = []
    for e in res.get("log", []):
        if e[0] == "seed":
            per.append({"seed": e[1]})
        elif per:
            per[-1][e[0]] = e
    calls = res.get("calls", [])

    def ratio_of(b):
        idx = per[b]["randint"][3] if b < len(per) and "randint" in per[b] else 0
        p, q = case["ratios"][idx if idx < len(case["ratios"]) else 0]
        return idx, p, q

    def choice_of(b):
        return per[b]["choice"] if b < len(per) and "choice" in per[b] else None

    if level == "split":
        a0, a1 = case["a"]
        acs0 = acs[0] if (acs and keep) else []
        if kind == "half":
            xs, ys = _scaled_coords(res)
            _diag_stats(case, res)
            ln = "hsplit " + _grp([H, W, keep, a0, a1, DIRS.index(case["dir"]), FORM_CODE[case.get("dir_form") or "enum"]],
                                  case["masks"][0], acs0, xs, ys)
            ans = ("ok " + _grp(res["input"][0], res["target"][0])) if res["ok"] else _err(res)
            return ln, ans, ""
        idx, p, q = ratio_of(0)
        if kind == "gauss":
            S = sum(_reduced(case, 0))
            c = _count_ceil_f32(S, p, q)
            if not res["ok"]:
                return ("gsplit " + _grp([H, W, keep, a0, a1, c, p, q], case["masks"][0], acs0, [], [])), _err(res), ""
            if len(calls) != 1:
                return None, None, "kernel-not-called-once"
            k = calls[0]
            used, st = _stream_fast(k["seed"], k["nrow"], k["ncol"], k["cx"], k["cy"], k["std"], _free(case, 0), k["n"])
            if st is None:
                return None, None, "stream-too-long"
            _STREAM_LEN.append(used)
            ln = "gsplit " + _grp([H, W, keep, a0, a1, c, p, q], case["masks"][0], acs0, [x for x, _ in st], [y for _, y in st])
            return ln, "ok " + _grp(res["input"][0], res["target"][0], [k["n"], k["free"]]), ""
        # uniform
        nfree = sum(_free(case, 0))
        cnt = _count_floor_f32(nfree, p, q)
        ch = choice_of(0)
        chosen = ch[5] if ch else []
        ln = "usplit " + _grp([H, W, keep, a0, a1, cnt, p, q], case["masks"][0], acs0, chosen)
        if not res["ok"]:
            return ln, _err(res), ""
        return ln, "ok " + _grp(res["input"][0], res["target"][0], [ch[2], ch[4]] if ch else []), ""
    # ---- forward
    a0, a1 = case["a"]
    kcode = {"gauss": 0, "uniform": 1, "half": 2}[kind]
    if kind == "half":
        _diag_stats(case, res)
    groups = [[kcode, B, C, H, W, keep, a0, a1, DIRS.index(case.get("dir", "vertical")), case["use_seed"]]]
    for b in range(B):
        acsb = acs[b] if (acs and keep) else []
        fn = [ord(ch) for ch in str(case["filename"][b])]
        sl = [ord(ch) for ch in str(case["slice_no"][b])]
        idx, p, q = ratio_of(b)
        tup = (per[b]["seed"] or []) if b < len(per) else []
        d0, d1, c, seed = [], [], 0, 0
        if kind == "half":
            d0, d1 = _scaled_coords(res)
        if kind == "gauss":
            c = _count_ceil_f32(sum(_reduced(case, b)), p, q)
            if b < len(calls):
                k = calls[b]
                seed = k["seed"]
                used, st = _stream_fast(k["seed"], k["nrow"], k["ncol"], k["cx"], k["cy"], k["std"], _free(case, b), k["n"])
                if st is None:
                    return None, None, "stream-too-long"
                _STREAM_LEN.append(used)
                d0, d1 = [x for x, _ in st], [y for _, y in st]
        elif kind == "uniform":
            c = _count_floor_f32(sum(_free(case, b)), p, q)
            d0 = choice_of(b)[5] if choice_of(b) else []
        groups += [case["masks"][b], acsb, fn, sl, case["kspace"][b], [c, p, q, idx, seed], tup, d0, d1]
    ln = "fwd " + _grp(*groups)
    if not res["ok"]:
        return ln, _err(res), ""
    if not res.get("k_integral", True):
        return None, None, "non-integral-kspace"
    out = []
    for b in range(B):
        out += [res["input"][b], res["target"][b], res["ink"][b], res["tgk"][b]]
    return ln, "ok " + _grp(*out), ""


# ==================================================================================================
# the property, stated on what the implementation returned
LAYOUTS = ["transposed", "strided", "expanded", "permuted"]     # besides "contiguous": see `relayout` in the worker


def _layout_diff(case, res):
    """-> description when the answer on a non-contiguous presentation of the same logical tensors differs from the answer on
    contiguous ones (same seeds, same ambient RNG state), else None"""
    ref = res.get("layout_ref")
    if ref is None or res.get("err") == "Timeout":
        return None
    lay = case.get("layout")
    if bool(res.get("ok")) != bool(ref.get("ok")):
        bad, side = (ref, "contiguous") if res.get("ok") else (res, lay)
        return f"the call returns on one memory layout and raises {bad.get('err')} ({str(bad.get('msg'))[:100]}) on the {side} one"
    if not res.get("ok"):
        return None if res.get("err") == ref.get("err") else f"raises {res.get('err')} on {lay}, {ref.get('err')} on contiguous tensors"
    for k, name in (("shape", "shapes"), ("dtype", "dtypes"), ("target", "target masks"), ("input", "input masks"),
                    ("tgk", "target k-spaces"), ("ink", "input k-spaces"), ("calls", "arguments handed to the Gaussian kernel"),
                    ("log", "draws asked of the RandomState")):
        if ref.get(k) is not None and res.get(k) != ref.get(k):
            extra = ""
            if k in ("target", "input"):
                extra = (f" ({[sum(x) for x in res[k]]} cells on the {lay} layout, {[sum(x) for x in ref[k]]} on contiguous "
                         f"tensors, of {[sum(m) for m in case['masks']]} sampled)")
            return f"the {name} differ{extra}"
    return None


_LAYOUT_REJECTED: list[dict] = []


def _kernel_rejects_layout(case, res) -> bool:
    """Gaussian split on a mask whose H/W strides are not row-major: `temp_mask.cpu().numpy().astype(int)` keeps the strides and
    the Cython kernel's `int[:, ::1]` argument refuses the array (ValueError 'ndarray is not C-contiguous').  A loud rejection
    of a memory layout, not a wrong split: reported (note + lead), not judged — the quantifier ranges over mask values."""
    return bool(case.get("layout") and case["kind"] == "gauss" and not res.get("ok") and res.get("err") == "ValueError"
                and "C-contiguous" in str(res.get("msg")) and (res.get("layout_ref") or {"ok": True}).get("ok"))


def _check(case, res):
    """yield (key, what) for every way `res` violates the property (any memory layout of the tensors handed over)"""
    if _kernel_rejects_layout(case, res):
        _LAYOUT_REJECTED.append(case)
        return
    d = _layout_diff(case, res)
    if d is not None:
        yield (f"layout-dependence:{case['kind']}",
               f"{case['kind']} {case['level']}: the same logical sampling mask / ACS mask / k-space as a {case.get('layout')} view "
               f"(values equal, strides {res.get('strides', {}).get('sampling_mask', '')}) and as contiguous tensors, same seeds: {d}")
    yield from _check_base(case, res)


def _check_base(case, res):
    """yield (key, what) for every way `res` violates the property"""
    kind, level = case["kind"], case["level"]
    H, W, B, C = case["nrow"], case["ncol"], case["B"], case["C"]
    N = H * W
    if level in ("engine", "fullpipe") and res.get("err") != "Timeout":
        yield from (_check_engine if level == "engine" else _check_fullpipe)(case, res)
        return
    if res.get("err") == "Timeout":
        yield ("gaussian-split-hang" if kind == "gauss" else f"{kind}-split-hang",
               f"{kind} split did not return within {WATCHDOG_S} s")
        return
    if not res["ok"]:
        nofree = any(sum(_free(case, b)) == 0 for b in range(B))
        if kind == "uniform" and res["err"] == "ValueError" and nofree and "NaN" in res.get("msg", ""):
            yield ("uniform-split-raises-when-no-free-cell",
                   "uniform split raises ValueError (probabilities contain NaN) when every sampled cell is protected")
        elif kind == "half" and level == "pipeline":
            yield ("half-splitter-unwrapped-in-pipeline",
                   f"the SSL pipeline's half-split stage raises {res['err']}: {res.get('msg', '')[:120]}")
        elif case["keep"] and not case["acs"] and res["err"] == "ValueError":
            return   # documented rejection: keep_acs without acs_mask
        else:
            yield (f"{kind}-split-raises-{res['err']}", f"{kind} split raises {res['err']}: {res.get('msg', '')[:160]}")
        return
    if len(res["input"]) != B or len(res["target"]) != B:
        yield (f"{kind}-{level}-batch-size", f"{B} samples in, {len(res['input'])} split masks out")
        return
    if level != "split" and (res["shape"][0] != [B, 1, H, W, 1] or res["shape"][2] != [B, C, H, W, 2]
                             or res["shape"][1] != [B, 1, H, W, 1] or res["shape"][3] != [B, C, H, W, 2]):
        yield (("half-splitter-unwrapped-in-pipeline" if (kind == "half" and level == "pipeline") else f"{kind}-{level}-shape"),
               f"output shapes {res['shape']} for batch {B}, coils {C}, grid {H}x{W}")
        return
    prot = _protected(case)
    for b in range(B):
        m = case["masks"][b]
        acs = case["acs"][b] if (case["keep"] and case["acs"]) else [0] * N
        i, t = res["input"][b], res["target"][b]
        if len(i) != N or len(t) != N or any(v not in (0, 1) for v in i + t):
            yield (f"{kind}-split-shape", f"split masks are not boolean {H}x{W} grids")
            return
        want_union = [x | a for x, a in zip(m, acs)]
        if [x | y for x, y in zip(i, t)] != want_union:
            yield (f"{kind}-split-union", "input ∪ target differs from the sampling mask")
        if [x & y for x, y in zip(i, t)] != acs:
            yield (f"{kind}-split-disjoint", "input ∩ target is not empty" if not case["keep"] else
                   "input ∩ target differs from the ACS region")
        free = _free(case, b)
        tnew = [x & (1 - a) for x, a in zip(t, acs)]
        if any(x and not f for x, f in zip(tnew, free)) and kind != "half":
            yield (f"{kind}-target-outside-free", "a target cell is not a free cell of the sampling mask")
        if not case["keep"]:
            bad = [k for k in range(N) if prot[k] and m[k] and (t[k] or not i[k])]
            if bad:
                yield ("half-split-ignores-protected-region" if kind == "half" else f"{kind}-protected-cell-in-target",
                       f"mask cell {divmod(bad[0], W)} of the protected region {case['a']} is in the target mask")
        else:
            if any(a and not (x and y) for a, x, y in zip(acs, i, t)):
                yield (f"{kind}-acs-not-kept", "keep_acs: an ACS cell is missing from input or target")
        # target size follows the ratio
        nfree = sum(free)
        nt = sum(tnew)
        if kind == "gauss":
            S = sum(_reduced(case, b))
            ok = False
            for p, q in case["ratios"]:
                want = Fraction(S * p, q)
                if want + 2 <= nfree:
                    ok |= want <= nt <= want + 3
                else:
                    ok |= min(nfree, want) <= nt <= nfree
            if not ok:
                yield ("gauss-target-count", f"target has {nt} cells; requested ratio(s) {case['ratios']} of {S} with {nfree} free")
        elif kind == "uniform":
            if not any(Fraction(nfree * p, q) - 1 - Fraction(1, 1000) <= nt <= Fraction(nfree * p, q) + Fraction(1, 1000)
                       for p, q in case["ratios"]):
                yield ("uniform-target-count", f"target has {nt} cells; requested ratio(s) {case['ratios']} of {nfree} free")
        # split k-spaces are the k-space restricted to the two masks
        if level != "split":
            k = case["kspace"][b]
            for name, mk, got in (("input", i, res["ink"][b]), ("target", t, res["tgk"][b])):
                exp = [k[x] if mk[(x // 2) % N] else 0 for x in range(len(k))]
                if got != exp:
                    yield (f"{kind}-{name}-kspace", f"{name} k-space is not the k-space restricted to the {name} mask")
        # determinism under seeding
        if case["use_seed"] and case.get("twice") and kind != "half":
            if res.get("input2") is None or res["input2"][b] != i or res["target2"][b] != t:
                yield (f"{kind}-split-not-deterministic",
                       "same mask / file name / slice, different call history: different split")
    ref = res.get("enum_ref")
    if ref is not None and (not ref.get("ok") or ref["input"] != res["input"] or ref["target"] != res["target"]):
        opts = {k: case.get(k) for k in ("dir", "dir_form", "type_form") if case.get(k)}
        yield (f"{kind}-option-as-string-differs",
               f"the same call with the enum-valued options given as strings {opts} and as enum members gives different splits "
               f"(DirectEnum compares equal to strings of any case){'' if ref.get('ok') else ': ' + str(ref.get('err'))}")
    if res.get("mutated"):
        yield (f"{kind}-forward-mutates-input", f"forward changed the tensors it was handed in place: {res['mutated']} (the sampling "
               "mask / k-space / ACS mask of the sample are the originals the split is defined against)")
    if kind == "gauss":
        for c in res.get("calls", []):
            if c["n"] + 1 > c["free"] and c["n"] >= 0:
                yield ("gaussian-split-infeasible-request", f"kernel asked for {c['n']} + 1 samples, {c['free']} available")


def _slim(case):
    return {k: v for k, v in case.items()}


def _violations(case, res, seen):
    for key, what in _check(case, res):
        if key in seen:
            continue
        seen.add(key)
        yield Violation(key, what, {"case": _slim(case), "observed": {k: res.get(k) for k in
                                                                       ("ok", "err", "msg", "input", "target", "calls", "shape")}})


def _hist_violations(case, res, seen):
    for key, what in _check_history(case, res):
        if key in seen:
            continue
        seen.add(key)
        yield Violation(key, what, {"case": case, "observed": {
            "state_changed": res.get("state_changed"),
            "steps": [{k: r.get(k) for k in ("ok", "err", "msg", "input", "target", "fresh", "calls", "state_changed")}
                      for r in res.get("steps", [])]}})


# ---- determinism across interpreter processes (restart / resume, spawned data-loader workers, separate inference runs)
def _seeds_seen(res):
    return {"libc_seeds": [c.get("seed") for c in res.get("calls", [])],
            "rng_seeds": [e[1] for e in res.get("log", []) if e and e[0] == "seed"]}


def _xproc_diff(case, r1, r2):
    """-> description when the two processes disagree on a seeded split, else None"""
    if r1.get("err") == "Timeout" or r2.get("err") == "Timeout":
        return None
    if bool(r1.get("ok")) != bool(r2.get("ok")):
        return f"one process returns, the other raises {r1.get('err') or r2.get('err')}"
    if not r1.get("ok"):
        return None
    if r1["input"] != r2["input"] or r1["target"] != r2["target"]:
        n = sum(1 for a, b in zip(sum(r1["target"], []), sum(r2["target"], [])) if a != b)
        return (f"the split masks differ in {n} target cells; seeds handed to libc srand / rng.seed: "
                f"{_seeds_seen(r1)} vs {_seeds_seen(r2)}")
    if _seeds_seen(r1) != _seeds_seen(r2):
        return f"same masks on this input but different seeds: {_seeds_seen(r1)} vs {_seeds_seen(r2)}"
    return None


def _xproc(ctx, seen, cases):
    """the same seeded sample in two interpreters with different PYTHONHASHSEED (fresh processes, spawn-style)"""
    p1, p2 = _W.call({"level": "hashseed", "kind": "x"}), _W2.call({"level": "hashseed", "kind": "x"})
    if p1.get("probe") == p2.get("probe"):
        ctx.notes.append(f"cross-process check: the two interpreters agree on hash(('file1.h5', 3)) ({p1}, {p2}) — salts equal?")
    n = 0
    for case, r1 in cases:
        if r1 is None:
            r1 = _W.call(case)
        r2 = _W2.call(case)
        n += 1
        d = _xproc_diff(case, r1, r2)
        ctx.count(json.dumps(["xproc", case], sort_keys=True), _nontrivial(case, r1) if r1.get("ok") else False,
                  bucket=f"cross-process/{case['kind']}",
                  sample={"cross_process": {k: case[k] for k in ("kind", "nrow", "ncol", "filename", "slice_no")},
                          "hashseeds": [_W.hashseed, _W2.hashseed], "equal": d is None})
        key = f"{case['kind']}-split-differs-between-processes"
        if d and key not in seen:
            seen.add(key)
            yield Violation(key, f"use_seed=True, file {case['filename']}, slice {case['slice_no']}: two interpreter processes "
                                 f"(PYTHONHASHSEED {_W.hashseed} / {_W2.hashseed}) split the same sample differently — {d}",
                            {"case": case, "xproc": {"hashseeds": [_W.hashseed, _W2.hashseed]},
                             "observed": {"process_1": dict(_seeds_seen(r1), target=r1.get("target")),
                                          "process_2": dict(_seeds_seen(r2), target=r2.get("target"))}})
    ctx.notes.append(f"cross-process determinism: {n} seeded samples split in two interpreters with PYTHONHASHSEED "
                     f"{_W.hashseed} / {_W2.hashseed} (hash probes {p1.get('probe')} / {p2.get('probe')})")


# forward functions of the engines that pick the split keys themselves: (module, class, joint, passes the mask on)
ENGINE_FWD_SITES = [("direct.nn.unet.unet_engine", "Unet2dSSLEngine", 0, 0), ("direct.nn.unet.unet_engine", "Unet2dJSSLEngine", 1, 0),
                    ("direct.nn.varnet.varnet_engine", "EndToEndVarNetSSLEngine", 0, 1),
                    ("direct.nn.varnet.varnet_engine", "EndToEndVarNetJSSLEngine", 1, 1)]
_ENGINE_IN: dict = {}


def _engine_inputs():
    if "rows" not in _ENGINE_IN:
        _ENGINE_IN.update(_W.call({"level": "engine_inputs", "kind": "engine_inputs",
                                   "sites": [[m, c] for m, c, _, _ in ENGINE_FWD_SITES]}, timeout=120.0))
    return _ENGINE_IN


def _check_engine_inputs(res):
    if "rows" not in res:
        yield ("ssl-engine-forward-raises", f"probing the forward functions of the SSL engines fails: {res.get('err')}: {res.get('msg', '')[:200]}")
        return
    meta = {c: (j, m) for _, c, j, m in ENGINE_FWD_SITES}
    for cls, train, ssl, status, kc, mc in res["rows"]:
        joint, has_mask = meta[cls]
        uses = bool(train) and (not joint or bool(ssl))
        want = [1 if uses else 2, (3 if uses else 4) if has_mask else 0]
        if status != "ok" or [kc, mc] != want:
            yield ("ssl-engine-forward-input", f"{cls}.forward_function (training={bool(train)}, is_ssl={bool(ssl)}): the network "
                   f"receives k-space/mask markers {[kc, mc]} ({status}); expected {want} (1/3 = input_kspace / "
                   "input_sampling_mask, 2/4 = masked_kspace / sampling_mask)")


CTOR_RATIOS = [[(0, 1)], [(1, 1)], [(-1, 4)], [(3, 2)], [(1, 2), (1, 1)], [(0, 1), (1, 2)], [(1, 2)], [(1, 5), (7, 10)],
               [(1, 1000)], [(999, 1000)]]


# ==================================================================================================
def _plan(ctx: Ctx):
    """(kind, level) list of the correspondence phase"""
    n_split = ctx.budget(150, 1500)
    n_fwd = ctx.budget(80, 800)
    plan = []
    for kind in ("gauss", "uniform", "half"):
        plan += [(kind, "split")] * (n_split if kind != "half" else n_split // 2)
        plan += [(kind, "forward")] * n_fwd
    return plan


def _fixed_cases():
    """regression inputs: the pre-repair hang, full protection, wrap-around region, tiny masks"""
    out = []
    m10 = [1 if (k % 10) % 2 == 0 else 0 for k in range(100)]
    base = {"level": "split", "nrow": 10, "ncol": 10, "B": 1, "C": 1, "mtype": "line", "masks": [m10], "acs": None, "keep": 0,
            "use_seed": 1, "perturb": 5, "twice": 1, "std": 3.0, "seed": [ord(c) for c in "file1.h53"]}
    out.append(dict(base, kind="gauss", a=[6, 6], ratios=[(9, 10)]))
    out.append(dict(base, kind="gauss", a=[10, 10], ratios=[(1, 2)]))
    out.append(dict(base, kind="gauss", a=[14, 14], ratios=[(1, 2)]))
    out.append(dict(base, kind="uniform", a=[6, 6], ratios=[(9, 10)]))
    out.append(dict(base, kind="uniform", a=[10, 10], ratios=[(1, 2)]))
    out.append(dict(base, kind="gauss", a=[0, 0], ratios=[(19, 20)], masks=[[0] * 100], mtype="nearly_empty"))
    one = [0] * 100
    one[37] = 1
    out.append(dict(base, kind="gauss", a=[0, 0], ratios=[(1, 20)], masks=[one], mtype="nearly_empty"))
    out.append(dict(base, kind="uniform", a=[0, 0], ratios=[(1, 20)], masks=[one], mtype="nearly_empty"))
    # keep_acs edge values: empty ACS mask, ACS mask = whole sampling mask (nothing left to split), ACS outside the mask
    for kind in ("gauss", "uniform", "half"):
        extra = {"dir": "diagonal_left"} if kind == "half" else {}
        out.append(dict(base, kind=kind, keep=1, acs=[[0] * 100], a=[0, 0], ratios=[(2, 5)], **extra))
        out.append(dict(base, kind=kind, keep=1, acs=[list(m10)], a=[4, 4], ratios=[(2, 5)], **extra))
        out.append(dict(base, kind=kind, keep=1, acs=[[1 - v for v in m10]], a=[0, 0], ratios=[(1, 2)], **extra))
    # odd protected regions on odd / even axes, region = one row
    for a in ([1, 1], [3, 5], [1, 10], [9, 9]):
        out.append(dict(base, kind="uniform", a=a, ratios=[(1, 2)], nrow=9, ncol=10, masks=[[1] * 90], mtype="full"))
        out.append(dict(base, kind="gauss", a=a, ratios=[(1, 2)], nrow=9, ncol=10, masks=[[1] * 90], mtype="full"))
    for d in DIRS:
        for f in ("lower", "upper", "mixed"):
            out.append(dict(base, kind="half", a=[2, 2], ratios=[(1, 2)], dir=d, dir_form=f, nrow=7, ncol=12,
                            masks=[[1 if (k * 7) % 5 else 0 for k in range(84)]], mtype="2d"))
    for d in DIRS:
        out.append(dict(base, kind="half", a=[4, 4], ratios=[(1, 2)], dir=d, masks=[[1] * 100], mtype="full"))
        out.append(dict(base, kind="half", a=[0, 0], ratios=[(1, 2)], dir=d, nrow=7, ncol=12, masks=[[1] * 84], mtype="full"))
    return out


def _layout_cases(rng, n, levels):
    """memory-layout ladder: every splitter x level x layout, n cases each (masks with >= 6 free cells preferred)"""
    out = []
    for kind in ("gauss", "uniform", "half"):
        for level in levels:
            for lay in LAYOUTS:
                for _ in range(n):
                    c = _gen_case(rng, kind, level)
                    seeded = rng.random() < 0.85     # unseeded: no contiguous twin to compare with, the judgements still apply
                    for _try in range(8):
                        if min(sum(_free(c, b)) for b in range(c["B"])) >= 6 and (c["use_seed"] or not seeded):
                            break
                        c = _gen_case(rng, kind, level)
                    if lay == "expanded" and rng.random() < 0.7 and not c["acs"]:
                        # stride 0 along H is legal exactly for line masks (all rows equal): the usual Cartesian sampling mask
                        row = [1 if rng.random() < 0.6 else 0 for _ in range(c["ncol"])]
                        c["masks"] = [list(row) * c["nrow"] for _ in range(c["B"])]
                        c["mtype"] = "line"
                        if "kspace" in c:
                            c["kspace"] = [[v for _c in range(c["C"]) for on in c["masks"][b]
                                            for v in (rng.randint(-4, 4) * on, rng.randint(1, 4) * on)] for b in range(c["B"])]
                    c["layout"] = lay
                    out.append(c)
    return out


def _malformed_cases(rng):
    """inputs the code must reject: keep_acs without an ACS mask"""
    out = []
    for kind in ("gauss", "uniform"):
        c = _gen_case(rng, kind, "split")
        c["keep"], c["acs"], c["twice"], c["raw"] = 1, None, 0, 1
        out.append(c)
    return out


def correspondence(ctx: Ctx):
    rng = ctx.rng
    del _RESULTS[:]
    del _HIST[:]
    _DIAG_STATS.update(cases=0, differ=0, off_boundary=0)
    _W.spawn()
    _W2.spawn()        # second interpreter (other hash salt) starts while the first one works
    cases = _fixed_cases() + _malformed_cases(rng) + [_gen_case(rng, kind, level) for kind, level in _plan(ctx)]
    cases += [_gen_slow_case(rng, ctx.thorough) for _ in range(ctx.budget(10, 80))]
    cases += _layout_cases(rng, ctx.budget(1, 6), ("split", "forward"))
    for kind in ("gauss", "uniform", "half"):
        cases += [_gen_engine_case(rng, kind, 2) for _ in range(ctx.budget(8, 80))]
        cases += [_gen_engine_case(rng, kind, 3) for _ in range(ctx.budget(3, 30))]
    excluded: dict[str, int] = {}
    # the float32 product S·ρ: torch (through the worker) vs the model's `countCeilF32` / `countFloorF32`
    pairs = [(S_, p, q) for p, q in RATIOS + [(999, 1000), (1, 7), (5, 9)]
             for S_ in (range(0, 1601) if ctx.thorough else sorted({rng.randrange(0, 1601) for _ in range(12)} | {0, 1, 50, 100, 1600}))]
    f32 = _W.call({"level": "f32", "kind": "f32", "pairs": pairs}, timeout=120.0)
    if f32.get("ok"):
        for (S_, p, q), (c_, f_) in zip(pairs, f32["counts"]):
            exact = (-((-S_ * p) // q), (S_ * p) // q)
            yield {"line": "f32count " + _grp([S_, p, q]),
                   "impl": (lambda a="ok " + _grp([c_, f_, exact[0], exact[1]]): a),
                   "nontrivial": (c_, f_) != exact, "bucket": "f32count/" + ("rounded-off" if (c_, f_) != exact else "exact"),
                   "key": ("f32", S_, p, q)}
            if (c_, f_) != (_count_ceil_f32(S_, p, q), _count_floor_f32(S_, p, q)):
                raise ToolFailure(f"C11: the harness emulation of the float32 product differs from torch at {(S_, p, q)}")
    try:
        for case in cases:
            res = _W.call(case)
            if res.get("err") == "Skipped":
                excluded["skipped-after-hangs"] = excluded.get("skipped-after-hangs", 0) + 1
                continue
            _RESULTS.append((case, res))
            _histograms(ctx, case, res)
            if case["level"] == "engine" and res.get("ok") and res.get("collated_k_shape"):
                # shapes through default_collate: split-mask shape, broadcast against the collated k-space, batch axes meet
                ok_b = int(bool(res.get("engine_ok")))
                aligned = int(len(res["collated_mask_shape"]) == len(res["collated_k_shape"]))
                yield {"line": "mshape " + _grp([], res["orig_mask_shape"], res["collated_k_shape"]),
                       "impl": (lambda a="ok " + _grp(res["mask_shape"][0], [ok_b, aligned]): a), "nontrivial": case["B"] > 1,
                       "bucket": f"collate/{case['dims']}d/" + ("B=C" if case["B"] == case["C"] else "B!=C"),
                       "key": json.dumps(["mshape", case["dims"], case["B"], case["C"], res["orig_mask_shape"]])}
            if case["level"] == "engine" and res.get("ok") and res.get("engine_ok"):
                # the training step of the real engine against the model's `sslOutput`, sample by sample
                N = case["nrow"] * case["ncol"]
                for b in range(min(case["B"], len(res["loss_out"]))):
                    mk = [case["kspace"][b][x] * case["masks"][b][(x // 2) % N] for x in range(len(case["kspace"][b]))]
                    yield {"line": "ssl_out " + _grp([N], res["input"][b], res["target"][b], mk, case["pred"][b]),
                           "impl": (lambda a="ok " + _grp(res["loss_out"][b], res["loss_ref"][b]): a),
                           "nontrivial": sum(res["target"][b]) > 0 and sum(res["input"][b]) > 0,
                           "bucket": _bucket(case, res), "key": json.dumps([case, b], sort_keys=True)}
                continue
            ln, ans, why = _protocol(case, res)
            if _kernel_rejects_layout(case, res):
                ln, why = None, "gaussian-kernel-rejects-noncontiguous-mask"
            if ln is None:
                excluded[why] = excluded.get(why, 0) + 1
                continue
            yield {"line": ln, "impl": (lambda a=ans: a), "nontrivial": _nontrivial(case, res), "bucket": _bucket(case, res),
                   "key": json.dumps(case, sort_keys=True)}
            # the seed derivation on its own: file name + slice -> tuple fed to rng.seed, integer fed to srand
            if case["level"] == "forward" and case["kind"] == "gauss" and case["use_seed"] and res.get("ok"):
                tups = [e[1] for e in res.get("log", []) if e[0] == "seed"]
                for b in range(min(case["B"], len(tups), len(res["calls"]))):
                    fn = [ord(ch) for ch in str(case["filename"][b])]
                    sl = [ord(ch) for ch in str(case["slice_no"][b])]
                    yield {"line": "seed " + _grp([], fn, sl),
                           "impl": (lambda a="ok " + _grp([res["calls"][b]["seed"]], tups[b] or []): a),
                           "nontrivial": True, "bucket": "seed-derivation"}
        # constructor: admissible ratios
        ct = _W.call({"level": "ctor", "kind": "ctor", "ratios": CTOR_RATIOS})
        _CTOR.clear()
        _CTOR.update(ct)
        for rs, got in zip(CTOR_RATIOS, ct.get("got", [])):
            ans = "ok 1" if all(g == "ok" for g in got) else ("err " + got[0]) if len(set(got)) == 1 else "err Mixed"
            yield {"line": "ctor " + _grp([], [v for pq in rs for v in pq]), "impl": (lambda a=ans: a), "nontrivial": True,
                   "bucket": "ctor/" + ("valid" if ans == "ok 1" else "rejected")}
        # which keys the engines' forward functions hand to the network
        ei = _engine_inputs()
        meta = {c: (j, m) for _, c, j, m in ENGINE_FWD_SITES}
        for cls, train, ssl, status, kc, mc in ei.get("rows", []):
            yield {"line": "eng_in " + _grp([], [meta[cls][0], train, ssl, meta[cls][1]]),
                   "impl": (lambda a=("ok " + _grp([kc, mc])) if status == "ok" else "err " + status: a), "nontrivial": True,
                   "bucket": "engine-input/" + cls, "key": ("eng_in", cls, train, ssl)}
        # the seed derivation in two interpreter processes with different hash salts
        n_x = 0
        for case, res in list(_RESULTS):
            if n_x >= 3 or not (case["level"] == "forward" and case["kind"] == "gauss" and case["use_seed"] and res.get("ok")):
                continue
            n_x += 1
            r2 = _W2.call(case)
            for w, r in ((_W, res), (_W2, r2)):
                tups = [e[1] for e in r.get("log", []) if e[0] == "seed"]
                for b in range(min(case["B"], len(tups), len(r.get("calls", [])))):
                    fn = [ord(ch) for ch in str(case["filename"][b])]
                    sl = [ord(ch) for ch in str(case["slice_no"][b])]
                    yield {"line": "seedx " + _grp([int(w.hashseed)], fn, sl),
                           "impl": (lambda a="ok " + _grp([r["calls"][b]["seed"]], tups[b] or []): a),
                           "nontrivial": True, "bucket": f"seed-derivation/process-{w.hashseed}"}
        # call histories on persistent splitter objects: every object's calls, in order, against the model's `runHist`
        hists = [_gen_history(rng, pat) for pat in HIST_PATTERNS * ctx.budget(3, 30)]
        for case in hists:
            res = _W.call(case)
            _HIST.append((case, res))
            ctx.hist[f"history/{case['pattern']}"] = ctx.hist.get(f"history/{case['pattern']}", 0) + 1
            for k in (f"history/objects={len(case['insts'])}", f"history/data={'3d' if any(s['dims'] == 3 for s in case['steps']) else '2d'}"
                      + ("+mixed" if len({s['dims'] for s in case['steps']}) > 1 else "")):
                ctx.hist[k] = ctx.hist.get(k, 0) + 1
            if "steps" not in res:
                continue
            for n, pc, ln, ans in _hist_protocol(case, res):
                yield {"line": ln, "impl": (lambda a=ans: a), "nontrivial": pc["B"] >= 2,
                       "bucket": f"history/{pc['kind']}/{case['insts'][n].get('via', 'module')}",
                       "key": json.dumps([case, n], sort_keys=True)}
    finally:
        if excluded:
            ctx.notes.append(f"cases excluded from the differential comparison (oracle still applies): {excluded}")
        if _W.ext:
            ctx.notes.append(f"kernels served as {_W.ext}")
        if _DIAG_STATS["cases"]:
            ctx.notes.append(f"diagonal half splits: {_DIAG_STATS['cases']} compared on the float32 linspace values; in "
                             f"{_DIAG_STATS['differ']} the float32 and exact-fraction sides differ, in {_DIAG_STATS['off_boundary']} "
                             "of them on a cell whose exact coordinates do not cancel")


def oracle(ctx: Ctx, deep: bool = False):
    """The property stated directly on the implementation (every call under the watchdog)."""
    rng = ctx.rng
    seen: set[str] = set()
    try:
        # (a) everything the correspondence phase ran
        for case, res in _RESULTS:
            yield from _violations(case, res, seen)
        yield from _slow_report(ctx, seen)
        wraps = sum(1 for c, _ in _RESULTS if not c["keep"] and (_wraps(c["nrow"], c["a"][0]) or _wraps(c["ncol"], c["a"][1])))
        if wraps:
            ctx.notes.append(f"{wraps} cases with acs_region//2 > centre: the protected slice wraps around (Python negative "
                             "start) — outside the quantifier of the property, compared as coded")
        gs = [c["seed"] for case, res in _RESULTS if case["kind"] == "gauss" and case["use_seed"] and res.get("ok")
              for c in res.get("calls", [])]
        if gs:
            ctx.notes.append(f"{len(set(gs))} distinct libc seeds over {len(gs)} seeded Gaussian samples: int(mean(ord(c))) is a "
                             "coarse hash of file name + slice (deterministic, as the property asks, but many samples share a "
                             "candidate stream) — observation, not a violation")
        ctx.notes.append("odd acs_region sizes protect 2*(a//2) = a-1 rows/columns (slice centre-a//2 : centre+a//2) — "
                         "observation, the oracle uses the window the code documents")
        # (a2) call histories of the correspondence phase, more of them when an obligation broke
        hists = list(_HIST)
        if deep:
            for pat in HIST_PATTERNS * ctx.budget(6, 20):
                c = _gen_history(rng, pat)
                hists.append((c, _W.call(c)))
        changed: dict[str, int] = {}
        for case, res in hists:
            ctx.count(json.dumps(case, sort_keys=True), len(case["steps"]) >= 2 and "steps" in res,
                      bucket=f"oracle/history/{case['pattern']}",
                      sample={"history": case["pattern"], "objects": [(i["kind"], i.get("via")) for i in case["insts"]],
                              "calls": [(s["inst"], len(s["samples"]), s["dims"]) for s in case["steps"]]})
            for k in res.get("state_changed", []) or []:
                changed[k] = changed.get(k, 0) + 1
            yield from _hist_violations(case, res, seen)
        ctx.notes.append(f"{len(hists)} call histories on persistent splitter objects (same file+slice with other masks / other "
                         "ACS masks, other files with the same mask, repeats, batched vs single calls, interleaved objects and "
                         f"classes, 2-D and 3-D data); state that changed between calls: {changed or 'none'}")
        # (a3) the same seeded sample in two interpreter processes with different hash salts
        pick, per_kind = [], {}
        for case, res in _RESULTS:
            if (case["level"] == "forward" and case["use_seed"] and res.get("ok") and min(sum(_free(case, b)) for b in range(case["B"])) >= 6
                    and per_kind.get(case["kind"], 0) < (ctx.budget(5, 40) if case["kind"] != "half" else 2) * (4 if deep else 1)):
                per_kind[case["kind"]] = per_kind.get(case["kind"], 0) + 1
                pick.append((case, res))
        if deep:
            for kind in ("gauss", "uniform"):
                for _ in range(ctx.budget(10, 40)):
                    c = _gen_case(rng, kind, "forward")
                    c["use_seed"] = 1
                    pick.append((c, None))
        yield from _xproc(ctx, seen, pick)
        # (a4) the documented rejection of ratios outside (0, 1)
        ct = _CTOR if _CTOR.get("got") and not deep else _W.call({"level": "ctor", "kind": "ctor", "ratios": CTOR_RATIOS})
        for key, what in _check_engine_inputs(_engine_inputs()):
            if key not in seen:
                seen.add(key)
                yield Violation(key, what, {"case": {"level": "engine_inputs", "kind": "engine_inputs",
                                                     "sites": [[m, c] for m, c, _, _ in ENGINE_FWD_SITES]},
                                            "observed": _engine_inputs().get("rows")})
        ctx.count("engine-inputs", True, bucket="oracle/engine-forward-inputs")
        for rs, got in zip(CTOR_RATIOS, ct.get("got", [])):
            valid = all(0 < p < q for p, q in rs)
            ctx.count(("ctor", tuple(rs)), True, bucket="oracle/ctor/" + ("valid" if valid else "invalid"))
            bad = [g for g in got if (g == "ok") != valid or (not valid and g != "ValueError")]
            if bad and "ratio-validation" not in seen:
                seen.add("ratio-validation")
                yield Violation("ratio-validation", f"splitters built with ratio(s) {[f'{p}/{q}' for p, q in rs]}: {got} "
                                f"(documented: ValueError unless every ratio is in (0, 1))",
                                {"case": {"level": "ctor", "kind": "ctor", "ratios": [rs]}, "observed": got})
        # (b) the pipeline stage as build_mri_transforms builds it, and more split / forward cases (use_seed off included)
        extra = []
        for kind in ("gauss", "uniform", "half"):
            for dims in (2, 3):
                for _ in range(ctx.budget(2, 20)):
                    extra.append(_gen_engine_case(rng, kind, dims, level="fullpipe"))
            for _ in range(ctx.budget(6, 60) * (4 if deep else 1)):
                extra.append(_gen_case(rng, kind, "pipeline"))
            for _ in range(ctx.budget(60, 700) * (4 if deep else 1)):
                c = _gen_case(rng, kind, rng.choice(["split", "forward"]))
                if rng.random() < 0.4:
                    c["use_seed"] = 0
                    if c["level"] == "split":
                        c["seed"] = None
                extra.append(c)
        # high ratios with protected regions: where the pre-repair tree hung
        for _ in range(ctx.budget(40, 500) * (4 if deep else 1)):
            c = _gen_case(rng, "gauss", "split")
            c["ratios"] = [rng.choice([(19, 20), (9, 10), (4, 5)])]
            c["a"] = [rng.randint(2, c["nrow"]), rng.randint(2, c["ncol"])]
            c["keep"], c["acs"] = 0, None
            extra.append(c)
        extra += _layout_cases(rng, ctx.budget(2, 12) * (3 if deep else 1), ("split", "forward", "pipeline"))
        for case in extra:
            res = _W.call(case)
            if res.get("err") == "Skipped":
                continue
            _histograms(ctx, case, res)
            if case.get("layout"):
                ctx.count(("layout", json.dumps(case, sort_keys=True)), bool(res.get("layout_ref", {}).get("ok")) and _nontrivial(case, res),
                          bucket=f"oracle/layout/{case['kind']}/{case['level']}/{case['layout']}")
            ctx.count(json.dumps(case, sort_keys=True), _nontrivial(case, res), bucket="oracle/" + _bucket(case, res),
                      sample={"case": {k: case[k] for k in ("kind", "level", "nrow", "ncol", "a", "keep", "ratios")},
                              "ok": res.get("ok"), "target_cells": [sum(t) for t in res.get("target", [])] or res.get("target_cells")})
            yield from _violations(case, res, seen)
    finally:
        if _LAYOUT_REJECTED:
            c = _LAYOUT_REJECTED[0]
            ctx.notes.append(f"FINDING (reported, not judged): Gaussian split raises ValueError 'ndarray is not C-contiguous' on "
                             f"{len(_LAYOUT_REJECTED)} sampling masks handed over as {sorted({x['layout'] for x in _LAYOUT_REJECTED})} "
                             f"views (the contiguous twin splits fine), e.g. {c['nrow']}x{c['ncol']} {c['mtype']} mask, level "
                             f"{c['level']}, layout {c['layout']}: _gaussian_split hands temp_mask.cpu().numpy().astype(int) "
                             "(strides kept) to a kernel typed int[:, ::1]")
            del _LAYOUT_REJECTED[:]
        _W.close()
        _W2.close()


def replay(rep: dict) -> bool:
    """Re-run a recorded failing case on the implementation; True when it still violates the property."""
    case = rep.get("case")
    if not case:
        return True
    try:
        if case.get("level") == "engine_inputs":
            return any(True for _ in _check_engine_inputs(_W.call(case, timeout=120.0)))
        if case.get("level") == "ctor":
            got = _W.call(case).get("got", [[]])[0]
            valid = all(0 < p < q for p, q in case["ratios"][0])
            return any((g == "ok") != valid for g in got)
        res = _W.call(case)
        if rep.get("xproc"):
            return _xproc_diff(case, res, _W2.call(case)) is not None
        if case.get("level") == "history":
            return any(True for _ in _check_history(case, res))
        return any(True for _ in _check(case, res))
    finally:
        _W.close()
        _W2.close()
