"""C12 — datasets map every index to exactly one slice of one volume, reproducibly."""
from __future__ import annotations

import atexit
import logging
import os
import math
import pathlib
import random as pyrandom
import shutil
import tempfile

import boot  # noqa: F401
import numpy as np
import torch

from core import Ctx, Violation, err_name, ints

PROP = "C12"
MANIFEST = {
    "text": "Lean 4 theorems for all file lists / slice counts / slice filters / contexts / member sizes / index values: the volume "
            "ranges built by parse_filenames_data (H5SliceData and its subclasses FastMRIDataset / CalgaryCampinasDataset, "
            "CMRxReconDataset with num_slices = a*b | a | b, FakeMRIBlobsDataset with nz slices per generated volume) are contiguous "
            "from 0, ordered, and cover 0..len-1 exactly once; for the H5 / CMRx constructors this holds with no hypothesis on the "
            "arguments (selection = filenames_filter > filenames_lists > sorted directory listing, de-duplicated keeping the "
            "first, then regex: select_nodup, build_ranges_partition, cmr_build_ranges_partition, build_is_parse; the de-duplication "
            "is stated over the entries as given seen through a normalisation `norm` = pathlib.Path(_): entries equal after "
            "normalisation (str vs Path, redundant separators, `./`, trailing separator) are merged into one volume, first kept "
            "(dedup_merges_normalisation_equal, select_raw_nodup, build_raw_ranges_contiguous; a seen-set over the raw entries has "
            "the witness dedup_on_raw_entries_violates); entries that stay different Path objects (relative vs absolute, a `..` "
            "component, a symlinked directory, the same name in another directory) are volumes of their own even when they "
            "resolve to the same file — the ranges still partition 0..len-1), for the bare "
            "fold and for explicitly named fake volumes under distinct names (generated names are proved distinct); "
            "data[start_k + r] is the r-th smallest admissible slice of the k-th readable file (iff), "
            "len(range(*slice.indices(n))) equals the number of admitted slices; CMRx 2-D index s <-> (s // b, s % b) is a "
            "bijection; FakeMRIBlobsDataset item k*nz+s is slice s of volume k generated from volume k's own seed; "
            "SheppLoganDataset[idx] renders slice idx % nz with seed[idx] and reports that slice (all integers idx; the pinned "
            "tree's slice_no = idx has a witness); the context window has length 2c+1, centre = the slice, entry j = slice s-c+j "
            "or a zero block; file selection is invariant under permutations of the directory listing; ConcatDataset runs the "
            "binary search of CPython's bisect_right, which is proved to meet the documented contract on every non-decreasing "
            "list, maps idx to (member, local index) uniquely = entry idx of the flat enumeration of the members, negatives as "
            "len+idx, out-of-range rejected; idx <-> (member position, local index) is an order-preserving bijection between "
            "0..len-1 and the disjoint union of the members' index ranges for every list of sizes (concat_locate_bijection / _onto / "
            "_injective / _strict_mono), also when the same object sits at several positions (concat_repeated_objects); synthetic items are functions of the per-sample seed only, independent of the global "
            "stream, of any mixed access history, and of the schedule (worker / epoch / copy) that serves an epoch; every request "
            "behind an item goes to a stream seeded with the item's seed inside the same access, make_blobs' per-centre counts add up "
            "to n_samples. Tied to the code by 17 translated arithmetic kernels + 17 structural tables (bridge lemmas, incl. no "
            "instance state written by the item path, call sites outside the data modules, build_dataset_from_input) and exact "
            "differential correspondence on labelled h5/.mat fixtures built from constructor arguments, on the library functions "
            "the model re-implements (bisect_right incl. unsorted lists, slice.indices / range, dict.fromkeys), on the index "
            "structure of the synthetic datasets (which seed reproduces item i), and on the recorded request sequence of every "
            "numpy stream involved (global stream, make_blobs' private stream: uniform / normal per centre / shuffle).",
    "note": "Trusted: Lean kernel (+propext, Classical.choice, Quot.sound), the AST translator, h5py slicing, Python list "
            "indexing / dict insertion order / re.match / pathlib.glob and Path ordering (inputs of the model, computed by the harness "
            "with the same library calls), numpy RandomState and sklearn make_blobs as 'a stream seeded with s answers the same "
            "request sequence with the same values' (the request sequence itself is modelled and compared on every run). "
            "bisect_right, slice.indices, range and dict.fromkeys are executable definitions compared directly with the library on "
            "every run; bisect_right is additionally proved against its contract. FastMRI fixtures carry a minimal valid ISMRMRD "
            "XML header written by the harness (the real header parser runs). The numerics between draws and k-space are a "
            "parameter `render`; their bit-reproducibility (also under in-place modification of returned arrays, pickle / deepcopy "
            "copies, forked DataLoader workers over two epochs, the same object several times in a concatenation, numpy integer "
            "indices, seed=None) is checked on the implementation only; the *index resolution* of a concatenation with repeated / "
            "empty objects under Python and numpy integer indices (int64/32/16, uint8/16, intp) is compared with the proved model on "
            "every run (`locatex` lines: position selected in self.datasets, object identity, local index). Repaired findings keep witnesses (duplicate_names_, "
            "listing_order_, window_, fake_, shepp_pinned_violates, shepp_negative_index_pinned_violates). Observations outside the "
            "quantifier (evidence notes): explicit duplicate `filenames` of FakeMRIBlobsDataset are used verbatim "
            "(fake_duplicate_names_observation).",
    "technique": "Lean 4 proof (list induction, loop invariant of the binary search, omega, permutation counting) + AST translation "
                 "bridge + differential correspondence + property oracle on the real datasets (incl. subprocesses with varied "
                 "PYTHONHASHSEED and forked DataLoader workers)",
}
TRUSTED = [
    "Lean 4.33 kernel; axioms ⊆ {propext, Classical.choice, Quot.sound}",
    "harness/translate recipes c12 (window bounds/guards/fill lengths, ConcatDataset arithmetic, volume range arithmetic, "
    "blobs n_samples, slices per fake volume; structural tables of parse_filenames_data / get_slice_data / file selection / "
    "subclass forwarding / CMRxRecon / ConcatDataset / FakeMRIBlobsDataset index structure / SheppLoganDataset item / make_blobs "
    "call / no instance or shared state written / call sites / build_dataset_from_input; seed-plumbing tables)",
    "Python list indexing, dict insertion order: hand-modelled, validated by correspondence; re.match results, Path ordering, the "
    "OS directory listing order and which spellings are equal as pathlib.Path objects (`norm`) are inputs of the model (computed "
    "by the harness with the same library calls; every filter entry is passed as form code + normalised id)",
    "numpy integer scalars used as ConcatDataset indices behave as the integers they denote in `<`, unary minus, `+`, `-` and "
    "bisect_right for |values| far below the type's range (the `locatex` cases keep len <= 60): checked by correspondence, not modelled",
    "bisect.bisect_right, slice.indices, len(range)/list(range), list(dict.fromkeys): executable model definitions compared "
    "directly with the library on every run (bisect_right also on unsorted lists) — no longer assumed by any theorem",
    "h5py: file[key][a:b] returns slices a..b-1; numpy concatenate/zeros/swapaxes index semantics",
    "fixtures: FastMRI files with a minimal ISMRMRD header + attrs['max']; Calgary-Campinas layout (slices, ny, nz, 2*coils) "
    "real-valued; CMRxRecon .mat = h5 with compound (real, imag) of shape (slices, frames, coils, ny, nx)",
    "numpy RandomState / sklearn make_blobs: a stream seeded with s answers the same request sequence with the same values; the "
    "request sequences (global stream: seed / uniform / randn; make_blobs' private stream: uniform(centres), normal per centre, "
    "shuffle) are recorded by a RandomState subclass and compared with the model on every run",
    "torch DataLoader (fork start method) as the way worker processes are created in the worker/epoch oracle",
]
ASSUMPTIONS = [
    "theorems about the bare fold assume distinct readable file names; the H5 / CMRx constructors guarantee it (select_nodup, "
    "build_is_parse), FakeMRIBlobsDataset guarantees it for the names it generates (fake_renamed_names_nodup); names given "
    "explicitly to FakeMRIBlobsDataset are the caller's",
    "h5 files are not modified between construction and access",
    "two different pathlib.Path objects are two volumes, also when they resolve to the same file on disk (symlink, relative vs "
    "absolute, `..`): the code compares Path objects lexically and never resolves them — the partition property holds for them, "
    "the data of the file is then in the dataset twice (by the caller's choice)",
    "`render` (blob image, sensitivity maps, FFT) is a deterministic function of the drawn values — checked bit-for-bit on "
    "the implementation by the oracle (reload, twin, copies, workers), not proved",
]
RULE = ("h5 pools: files with 1..9 slices, content value = 1000*file + slice; datasets = ordered selections of 0..6 pool files "
        "(incl. unreadable / missing / repeated ones) given as filenames_filter (entries mixed within one filter as str / Path, with "
        "`//`, `/./`, `./` prefix, trailing `/`, relative to the working directory, through a symlinked directory, with a `..` "
        "component, or the same name in the companion directory), .lst lists (incl. `./` and `../main/` lines), or a directory listing (hard links "
        "created in shuffled order) with optional regex_filter; classes H5SliceData / FastMRIDataset / CalgaryCampinasDataset "
        "(crop 50:-50 on 1..104-slice files) / CMRxReconDataset (contexts None/slice/time on (a, b) in 1..3 x 1..4; listing / "
        "filter / lists); filters = None / slice objects with None/negative/out-of-range bounds and steps ±1..±5 / malformed "
        "(step 0, truthy non-slices incl. range objects, falsy non-slices), contexts 0..3, pass_h5s / sensitivity_maps "
        "companions; every index incl. negative and out-of-range is accessed; library streams: bisect_right on sorted and "
        "unsorted lists, ConcatDataset over 0..5 positions drawn with repetition from 1..4 probe objects of sizes 0..12 indexed with "
        "int / numpy signed / unsigned integers in -len-3..len+2, slice.indices on n in 0..104, dict.fromkeys; synthetic index streams: FakeMRIBlobsDataset with names "
        "None / str / list of the right or a wrong length / empty, 2-D and 3-D, SheppLoganDataset nz 1..5 with indices -nz-2..nz+1; "
        "RNG streams: FakeMRIData calls (coils 1..8, seeds incl. 0, blobs_n_samples set or not) and dataset items. non-trivial = "
        "at least 2 readable files and (a filter or context >= 1) for h5 cases, every dataset/cmr construction case, >= 2 members "
        "for concat cases, >= 2 elements for library cases, >= 2 volumes / slices for index cases, a multi-coil or zero-slice "
        "access for RNG cases, any oracle case; distinct = distinct protocol line / oracle case key")
# genuine deviations on the unchanged tree that wait for the lead's fix:/known: decision
PENDING_FINDINGS: list[str] = []

for _n in ("H5SliceData", "FakeMRIBlobsDataset", "SheppLoganDataset", "ConcatDataset", "FakeMRIData", "direct",
           "FastMRIDataset", "CalgaryCampinasDataset", "CMRxReconDataset"):
    logging.getLogger(_n).setLevel(logging.CRITICAL)


def ok(*groups) -> str:
    return "ok " + " | ".join(ints(g) for g in groups)


def pline(op: str, *groups) -> str:
    return op + " " + " | ".join(ints(g) for g in groups)


# --------------------------------------------------------------------------------------------------
# pool of h5 files with slice-identifying content
class Pool:
    def __init__(self):
        import h5py

        self.dir = pathlib.Path(tempfile.mkdtemp(prefix="verif_c12_"))
        atexit.register(self.close)
        self.n: dict[int, int] = {}          # file id -> slices (-1 unreadable)
        self.coils: dict[int, int] = {}
        fid = 1
        for rep in range(3):
            for n in range(1, 10):
                coils = 1 if rep < 2 else 2
                v = (1000 * fid + np.arange(n)).astype(np.complex64)[:, None, None, None] * np.ones((n, coils, 2, 2), np.complex64)
                with h5py.File(self.path(fid), "w") as h:
                    h.create_dataset("kspace", data=v)
                self.n[fid] = n
                self.coils[fid] = coils
                fid += 1
        for _ in range(2):
            self.path(fid).write_bytes(b"this is not an hdf5 file")
            self.n[fid] = -1
            fid += 1
        self.ids = sorted(self.n)
        self.readable = [f for f in self.ids if self.n[f] > 0]
        self.by_path = {str(self.path(f)): f for f in self.ids}

    def path(self, fid: int) -> pathlib.Path:
        return self.dir / f"vol{fid:03d}.h5"

    def fid(self, p) -> int:
        return self.by_path[str(p)]

    def close(self):
        shutil.rmtree(self.dir, ignore_errors=True)


_POOL: Pool | None = None


def pool() -> Pool:
    global _POOL
    if _POOL is None or not _POOL.dir.exists():
        _POOL = Pool()
    return _POOL


# --------------------------------------------------------------------------------------------------
# generators
def gen_filter(rng: pyrandom.Random, malformed: bool = False):
    """-> (python object for slice_data, protocol group, tag)"""
    if malformed:
        r = rng.random()
        if r < 0.4:
            sl = slice(rng.choice([None, 0, 1]), rng.choice([None, 5]), 0)
            return sl, [1, int(sl.start is not None), sl.start or 0, int(sl.stop is not None), sl.stop or 0, 1, 0], "step0"
        if r < 0.7:      # truthy objects that are not slices (a non-empty range looks like one)
            return rng.choice([(1, 2), range(1, 4), range(2, 9, 2), [0, 1], 3, "1:3"]), [2], "nonslice"
        # falsy objects: `if not filter_slice` treats them as "no filter"
        return rng.choice([range(0), range(5, 5), (), [], 0, False, ""]), [0], "falsy-nonslice"
    r = rng.random()
    if r < 0.25:
        return None, [0], "nofilter"
    named = [slice(1, -1), slice(50, -50), slice(None, None, -1), slice(0, 0), slice(None, None, 2), slice(2, None),
             slice(None, -2), slice(-3, None), slice(-1, None, -2), slice(1, None, 3), slice(None, 100), slice(-100, 3)]
    if r < 0.5:
        sl = rng.choice(named)
    else:
        def bound():
            return None if rng.random() < 0.3 else rng.randint(-12, 12)
        step = rng.choice([None, 1, 1, 2, 2, 3, 5, -1, -1, -2, -3])
        sl = slice(bound(), bound(), step)
    grp = [1, int(sl.start is not None), sl.start or 0, int(sl.stop is not None), sl.stop or 0,
           int(sl.step is not None), sl.step or 0]
    st = sl.step if sl.step is not None else 1
    return sl, grp, ("filter-neg-step" if st < 0 else "filter-step>1" if st > 1 else "filter-step1")


def gen_files(rng: pyrandom.Random, P: Pool, k: int | None = None):
    if k is None:
        k = rng.choice([0, 1, 2, 2, 3, 3, 4, 5, 6])
    src = P.ids if rng.random() < 0.35 else P.readable
    if rng.random() < 0.3:  # favour short volumes (ends of the window meet)
        src = [f for f in src if P.n[f] <= 3]
    return rng.sample(src, min(k, len(src)))


def build_h5(P: Pool, fids, sl, ctx):
    from direct.data.h5_data import H5SliceData

    return H5SliceData(root=P.dir, filenames_filter=[P.path(f) for f in fids], kspace_context=ctx, slice_data=sl)


def window_ids(ks: np.ndarray, ctx: int) -> list[int]:
    """per window position the value the block is filled with (-999 when not constant)"""
    blocks = [ks] if ctx == 0 else [ks[:, j] for j in range(ks.shape[1])]
    out = []
    for b in blocks:
        vals = np.unique(b)
        out.append(int(round(float(vals[0].real))) if len(vals) == 1 and vals[0].imag == 0 else -999)
    return out


def impl_parse(P: Pool, fids, sl):
    def run():
        try:
            ds = build_h5(P, fids, sl, 0)
        except (ValueError, NotImplementedError, TypeError) as e:
            return "err " + err_name(e)
        vi = list(ds.volume_indices.items())
        return ok([P.fid(f) for f, _ in ds.data], [s for _, s in ds.data], [P.fid(f) for f, _ in vi],
                  [r.start for _, r in vi], [r.stop for _, r in vi], [len(ds)])
    return run


_ERRCODE = {"ValueError": 1, "IndexError": 2, "NotImplementedError": 3, "AssertionError": 4}


def impl_items(P: Pool, fids, sl, ctx, idxs):
    def run():
        try:
            ds = build_h5(P, fids, sl, ctx)
        except (ValueError, NotImplementedError, TypeError) as e:
            return "err " + err_name(e)
        groups = []
        for i in idxs:
            try:
                it = ds[i]
            except (IndexError, ValueError) as e:
                groups.append([-1, _ERRCODE[err_name(e)]])
                continue
            ks = it["kspace"]
            want_shape = (P.coils[P.fid(it["filename"])],) + ((2 * ctx + 1,) if ctx else ()) + (2, 2)
            ids_ = window_ids(ks, ctx) if tuple(ks.shape) == want_shape or ctx else [-998]
            groups.append([P.fid(it["filename"]), it["slice_no"]] + ids_)
        return ok(*groups)
    return run


class _Probe(torch.utils.data.Dataset):
    def __init__(self, tag, n):
        self.tag, self.n = tag, n

    def __len__(self):
        return self.n

    def __getitem__(self, i):
        if not 0 <= i < self.n:
            raise IndexError("probe index out of range")  # a member is never asked for a foreign index
        return (self.tag, i)


def impl_locate(sizes, idx):
    from direct.data.datasets import ConcatDataset

    def run():
        try:
            cd = ConcatDataset([_Probe(t, n) for t, n in enumerate(sizes)])
            d, j = cd[idx]
        except (ValueError, IndexError, AssertionError) as e:
            return "err " + err_name(e)
        return ok([d, j])
    return run


class _RecList(list):
    """`self.datasets` of a ConcatDataset, recording which position `__getitem__` selects"""
    picked = None

    def __getitem__(self, k):
        self.picked = k
        return list.__getitem__(self, k)


IDX_TYPES = [("int", int), ("int64", np.int64), ("int32", np.int32), ("int16", np.int16), ("uint8", np.uint8), ("uint16", np.uint16),
             ("intp", np.intp)]


def impl_locatex(obj_sizes, pattern, idx, ty):
    """ConcatDataset over a list in which the same object occurs several times, indexed with a Python or numpy integer"""
    from direct.data.datasets import ConcatDataset

    def run():
        try:
            objs = [_Probe(t, n) for t, n in enumerate(obj_sizes)]
            cd = ConcatDataset([objs[p] for p in pattern])
            cd.datasets = _RecList(cd.datasets)
            tag, j = cd[IDX_TYPES[ty][1](idx)]
            d = cd.datasets.picked
            if cd.datasets[d] is not objs[tag]:
                return "err WrongObject"
        except (ValueError, IndexError, AssertionError) as e:
            return "err " + err_name(e)
        return ok([d, tag, j])
    return run


# --------------------------------------------------------------------------------------------------
# phase 2: the other dataset classes, file selection, directory listing order
_XML = ('<?xml version="1.0"?><ismrmrdHeader xmlns="http://www.ismrm.org/ISMRMRD"><encoding><encodedSpace><matrixSize>'
        '<x>2</x><y>2</y><z>1</z></matrixSize></encodedSpace><reconSpace><matrixSize><x>2</x><y>2</y><z>1</z></matrixSize>'
        '</reconSpace><encodingLimits><kspace_encoding_step_1><minimum>0</minimum><maximum>1</maximum><center>1</center>'
        '</kspace_encoding_step_1></encodingLimits></encoding></ismrmrdHeader>')
_CMR_DT = np.dtype([("real", "f4"), ("imag", "f4")])
MISSING = 999      # id of a file name that does not exist


def _name_id(p) -> int:
    return int("".join(ch for ch in pathlib.Path(p).stem if ch.isdigit()))


class World:
    """main/ (FastMRI-compatible h5), extra/ (same names, other content), sub*/ (hard links created in shuffled order),
    lists/ (.lst files), cc/ (Calgary-Campinas layout), cmr/ (CMRxRecon .mat = h5 with compound real/imag)."""

    def __init__(self, base: str | None = None, seed: int = 0):
        import h5py

        rng = pyrandom.Random(seed)
        self.dir = pathlib.Path(tempfile.mkdtemp(prefix="verif_c12w_", dir=base))
        atexit.register(self.close)
        self.main, self.extra, self.lists, self.cc, self.cmr = (self.dir / k for k in ("main", "extra", "lists", "cc", "cmr"))
        for d in (self.main, self.extra, self.lists, self.cc, self.cmr):
            d.mkdir()
        self.n: dict[int, int] = {MISSING: -1}
        self.nx: dict[int, int] = {MISSING: 0}
        order = list(range(1, 14))
        rng.shuffle(order)                                   # creation order != name order
        for fid in order:
            if fid == 13:
                (self.main / "vol013.h5").write_bytes(b"not hdf5")
                self.n[fid], self.nx[fid] = -1, 0
                continue
            n = [1, 2, 3, 4, 5, 6, 1, 2, 3, 3, 2, 4][fid - 1]
            with h5py.File(self.main / f"vol{fid:03d}.h5", "w") as h:
                h.create_dataset("kspace", data=_const((n, 1, 2, 2), 1000 * fid, np.complex64))
                h.create_dataset("ismrmrd_header", data=_XML)
                h.attrs["max"] = 1.0
            nx = n + (2 if fid % 3 == 0 else 0)
            with h5py.File(self.extra / f"vol{fid:03d}.h5", "w") as h:
                for key in ("recon", "kspace"):
                    h.create_dataset(key, data=_const((nx, 1, 2, 2), 500000 + 1000 * fid, np.complex64))
            self.n[fid], self.nx[fid] = n, nx
        self.subs = []
        for k, size in enumerate([0, 2, 3, 4, 5, 6]):
            d = self.dir / f"sub{k}"
            d.mkdir()
            members = rng.sample(range(1, 14), size)
            for fid in members:                              # creation order = sample order
                os.link(self.main / f"vol{fid:03d}.h5", d / f"vol{fid:03d}.h5")
            self.subs.append(d)
        self.list_files = []
        for j in range(5):
            members = rng.sample(range(1, 14), rng.randint(0, 4))
            (self.lists / f"l{j}.lst").write_text("# a comment\n" + "".join(f"vol{f:03d}.h5\n" for f in members))
            self.list_files.append((f"l{j}.lst", members))
        # Calgary-Campinas: (slices, ny, nz, 2 * coils) real-valued
        self.cc_n = {201: 1, 202: 3, 203: 99, 204: 100, 205: 101, 206: 102, 207: 104}
        for fid, n in self.cc_n.items():
            with h5py.File(self.cc / f"vol{fid:03d}.h5", "w") as h:
                h.create_dataset("kspace", data=_const((n, 2, 8, 2), 1000 * fid, np.float32))
        # CMRxRecon: (slices a, frames b, coils, ny, nx) compound
        self.cmr_shape = {301: (1, 1), 302: (1, 3), 303: (2, 1), 304: (2, 3), 305: (3, 2), 306: (3, 4), 307: (-1, -1)}
        for fid, (a, b) in self.cmr_shape.items():
            if a < 0:
                (self.cmr / f"vol{fid:03d}.mat").write_bytes(b"not hdf5")
                continue
            arr = np.zeros((a, b, 2, 2, 3), _CMR_DT)
            for k in range(a):
                for l in range(b):
                    arr["real"][k, l] = 10000 * (fid - 300) + 100 * k + l
                    arr["imag"][k, l] = 1
            with h5py.File(self.cmr / f"vol{fid:03d}.mat", "w") as h:
                h.create_dataset("kspace_full", data=arr)
        os.symlink(self.main, self.dir / "mainlink", target_is_directory=True)
        (self.lists / "s0.lst").write_text("vol003.h5\n./vol003.h5\n../main/vol003.h5\nvol005.h5\n./vol005.h5\n")
        self.list_files.append(("s0.lst", [3, 3, 3003, 5, 5]))
        self.cmr_list_files = []
        for j in range(4):
            members = rng.sample(sorted(self.cmr_shape) + [MISSING], rng.randint(0, 4))
            (self.lists / f"c{j}.lst").write_text("".join(f"vol{f:03d}.mat\n" for f in members))
            self.cmr_list_files.append((f"c{j}.lst", members))

    def close(self):
        shutil.rmtree(self.dir, ignore_errors=True)


def _const(shape, base, dtype):
    n = shape[0]
    return (base + np.arange(n)).astype(dtype).reshape((n,) + (1,) * (len(shape) - 1)) * np.ones(shape, dtype)


_WORLD: World | None = None


def world() -> World:
    global _WORLD
    if _WORLD is None or not _WORLD.dir.exists():
        _WORLD = World()
    return _WORLD


def _cc_id(ks: np.ndarray) -> int:
    """Calgary item: (coils, ny, nz) complex, value v + iv, columns above ceil(0.85 nz) zeroed"""
    body, tail = ks[..., :7], ks[..., 7:]
    vals = np.unique(body)
    if len(vals) != 1 or vals[0].real != vals[0].imag or np.any(tail != 0):
        return -999
    return int(round(float(vals[0].real)))


def _spelling(W: World, main: pathlib.Path, fid: int, rng: pyrandom.Random, allow_other_dir: bool, ext: str = ".h5"):
    """one way of writing the name of file `fid` of directory `main` -> (object for filenames_filter, protocol code,
    normalised id, Path it denotes).  Normalised id = 1000 * class + fid where the class says which `pathlib.Path` object the
    spelling denotes (0: main/name, 1: relative to the working directory, 2: through a symlinked directory, 3: with a `..`
    component, 4: the file of the same name in another directory); code = 10000 * form + normalised id, where two entries
    have the same form iff they are equal *as given* (all Path objects of a class are equal; strings are equal only when
    identical)."""
    name = f"vol{fid:03d}{ext}"
    classes = [0, 0, 0, 1, 2, 3] + ([4] if allow_other_dir else [])
    c = rng.choice(classes) if fid != MISSING and main == W.main else rng.choice([0, 0, 3])
    base = {0: str(main), 1: os.path.relpath(main), 2: str(W.dir / "mainlink"), 3: str(main / ".." / main.name),
            4: str(W.extra)}[c]
    strings = [f"{base}/{name}", f"{base}//{name}", f"{base}/./{name}", f"./{base}/{name}" if c == 1 else f"{base}/{name}/"]
    form = rng.choice([0, 0, 1, 2, 3, 4])
    obj = pathlib.Path(rng.choice(strings)) if form == 0 else strings[form - 1]
    if form == 4 and strings[3] == strings[0]:
        form = 1
    norm = 1000 * c + fid
    return obj, 10000 * form + norm, norm, pathlib.Path(strings[0])


def _gen_dataset_case(rng: pyrandom.Random, W: World, spellings: bool = False):
    """-> dict(kwargs for the real class, cls name, protocol groups, bucket)"""
    cls = rng.choice(["h5", "h5", "fastmri", "calgary"])
    calg = cls == "calgary"
    main = W.cc if calg else W.main
    ids_all = sorted(W.cc_n) if calg else list(range(1, 14))
    nmap = dict(W.cc_n) if calg else {f: W.n[f] for f in ids_all}
    nmap[MISSING] = -1
    mode = rng.choice([0, 0, 1, 1, 1, 2, 2, 3])
    kw: dict = {}
    root = main
    flt: list[int] = []
    flt_codes: list[int] | None = None
    alias: dict[int, pathlib.Path] = {}
    lists: list[list[int]] = []
    root_given = 1
    if mode in (1, 3):
        pool_ = ids_all + [MISSING]
        flt = rng.sample(pool_, rng.choice([0, 1, 2, 3, 3, 4, 5]))
        if flt and rng.random() < (0.5 if spellings else 0.12):
            flt.insert(rng.randrange(len(flt) + 1), rng.choice(flt))          # a repeated name
        if spellings and rng.random() < 0.6:
            # the entries as given: str / Path, redundant separators, `./`, relative, symlinked directory, `..`, another
            # directory with the same file names — mixed within one filter
            sp = [_spelling(W, main, f, rng, cls == "h5") for f in flt]
            kw["filenames_filter"] = [o for o, _, _, _ in sp]
            flt_codes = [c for _, c, _, _ in sp]
            alias = {nid: pth for _, _, nid, pth in sp}
            flt = [nid for _, _, nid, _ in sp]
        else:
            kw["filenames_filter"] = [main / f"vol{f:03d}.h5" for f in flt]
    if mode in (2, 3):
        if calg:
            mode = 1 if mode == 3 else 0
        else:
            chosen = rng.sample(W.list_files, rng.randint(1, 2))
            lists = [m for _, m in chosen]
            kw["filenames_lists"] = [nm for nm, _ in chosen]
            root_given = int(rng.random() < 0.85)
            if root_given:
                kw["filenames_lists_root"] = W.lists
    if mode == 0 and not calg and rng.random() < 0.7:
        root = rng.choice(W.subs)
    listing = [_name_id(p) for p in root.glob("*.h5")]
    for l in lists:                                   # `..` spellings inside .lst files denote other Path objects
        for nid in l:
            if nid >= 1000:
                alias[nid] = main / ".." / main.name / f"vol{nid % 1000:03d}.h5"
    alias_ids = sorted(a for a in alias if a >= 1000)
    has_regex = int(rng.random() < 0.35)
    regex_ids: list[int] = []
    if has_regex:
        cand = sorted({f % 1000 for f in (flt if mode in (1, 3) else [f for l in lists for f in l] if mode == 2 else listing)})
        if cand and rng.random() < 0.85:
            want = rng.sample(cand, rng.randint(1, len(cand)))
        else:
            want = rng.sample(ids_all, rng.randint(0, min(4, len(ids_all))))
        pat = r".*vol(" + "|".join(f"{f:03d}" for f in want) + r")\.h5" if want else r".*nothing"
        kw["regex_filter"] = pat
        import re
        regex_ids = [f for f in ids_all + [MISSING] if re.match(pat, str(root / f"vol{f:03d}.h5"))]
        regex_ids += [a for a in alias_ids if re.match(pat, str(pathlib.Path(alias[a])))]
    ctx_arg = rng.choice([0, 0, 1, 2])
    sl, fgrp, tag = gen_filter(rng) if rng.random() < 0.5 else (None, [0], "nofilter")
    crop = int(calg and rng.random() < 0.7)
    has_extra = 0
    xkey = None
    if not calg and rng.random() < 0.4:
        has_extra = 1
        if cls == "h5" and rng.random() < 0.5:
            kw["sensitivity_maps"] = W.extra
            xkey = "sensitivity_map"
        else:
            kw["pass_h5s"] = {"extra": ("recon", W.extra)}
            xkey = "extra"
    if cls == "h5":
        kw.update(root=root, kspace_context=ctx_arg, slice_data=sl)
    elif cls == "fastmri":
        kw.update(data_root=root, kspace_context=ctx_arg, slice_data=sl)      # both are swallowed by **kwargs
    else:
        kw.update(data_root=root, crop_outer_slices=bool(crop), kspace_context=ctx_arg)
    pool_ids = ids_all + [MISSING] + alias_ids
    for a in alias_ids:
        nmap[a] = (W.nx[a % 1000] if nmap[a % 1000] > 0 else -1) if a // 1000 == 4 else nmap[a % 1000]
    bound = sum(max(nmap[f], 0) for f in pool_ids) * (2 if (flt and len(set(flt)) < len(flt)) or mode == 2 else 1)
    bound = min(bound, 60)
    idxs = list(range(-bound - 1, bound + 1))
    if len(idxs) > 40:
        idxs = rng.sample(idxs, 40) + [0, -1]
    hdr = [{"h5": 0, "fastmri": 1, "calgary": 2}[cls], crop, ctx_arg, mode, root_given, has_regex, has_extra]
    groups = [hdr, fgrp, pool_ids, [nmap[f] for f in pool_ids], listing, flt_codes if flt_codes is not None else flt, regex_ids,
              [0 if calg else W.nx.get(f % 1000, 0) for f in pool_ids], idxs] + lists
    idmap = {str(pathlib.Path(pth)): nid for nid, pth in alias.items()}
    eff_ctx = ctx_arg if cls == "h5" else 0
    bucket = (f"dataset/{cls}/{['listing', 'filter', 'lists', 'filter+lists'][mode]}"
              f"{'/regex' if has_regex else ''}{'/extra' if has_extra else ''}/ctx{eff_ctx}")
    if flt_codes is not None:
        bucket += "/spellings" + ("-repeated" if len(set(flt)) < len(flt) else "")
    return {"cls": cls, "kw": kw, "groups": groups, "idxs": idxs, "xkey": xkey, "ctx": eff_ctx, "bucket": bucket,
            "nontrivial": True, "idmap": idmap}


def _build_cls(cls: str, kw: dict):
    from direct.data.datasets import CalgaryCampinasDataset, FastMRIDataset
    from direct.data.h5_data import H5SliceData

    return {"h5": H5SliceData, "fastmri": FastMRIDataset, "calgary": CalgaryCampinasDataset}[cls](**kw)


def impl_dataset(case: dict):
    def run():
        try:
            ds = _build_cls(case["cls"], case["kw"])
        except (ValueError, NotImplementedError) as e:
            return "err " + err_name(e)
        vi = list(ds.volume_indices.items())
        idmap = case.get("idmap", {})

        def pid(f):
            return idmap.get(str(f), _name_id(f))

        groups = [[pid(f) for f, _ in ds.data], [s for _, s in ds.data], [pid(f) for f, _ in vi],
                  [r.start for _, r in vi], [r.stop for _, r in vi]]
        c = case["ctx"]
        for i in case["idxs"]:
            try:
                it = ds[i]
            except IndexError:
                groups.append([-1, 2])
                continue
            fid = pid(it["filename"])
            if case["cls"] == "calgary":
                g = [fid, it["slice_no"], _cc_id(it["kspace"])]
            else:
                g = [fid, it["slice_no"]] + window_ids(it["kspace"], c)
            if case["xkey"]:
                g += [-7] + window_ids(it[case["xkey"]], c)
            groups.append(g)
        return ok(*groups)
    return run


def _cmr_decode(ks: np.ndarray, ctx) -> list[int]:
    """-> flat [k0, l0, k1, l1, …] of the (slice, frame) blocks found along the context axis (file tag stripped)"""
    blocks = [ks] if ctx is None else [ks[:, j] for j in range(ks.shape[1])]
    out = []
    for b in blocks:
        vals = np.unique(b)
        if len(vals) != 1 or vals[0].imag != 1:
            return [-999]
        v = int(round(float(vals[0].real))) % 10000
        out += [v // 100, v % 100]
    return out


def _gen_cmr_case(rng: pyrandom.Random, W: World):
    ctx = rng.choice([None, "slice", "time"])
    ids_all = sorted(W.cmr_shape)
    idmap: dict[str, int] = {}
    lists: list[list[int]] = []
    root_given = 1
    r = rng.random()
    if r < 0.25:
        mode = 0
        ids = [_name_id(p) for p in W.cmr.glob("*.mat")]
        kw = dict(data_root=W.cmr)
    elif r < 0.8:
        mode = 1
        ids = rng.sample(ids_all + [MISSING], rng.randint(0, 5))
        if ids and rng.random() < 0.4:
            ids.insert(rng.randrange(len(ids) + 1), rng.choice(ids))        # a repeated name
        if rng.random() < 0.5:      # mixed spellings of the entries (str / Path, `//`, `/./`, a `..` component)
            sp = [_spelling(W, W.cmr, f, rng, False, ".mat") for f in ids]
            kw = dict(data_root=W.cmr, filenames_filter=[o for o, _, _, _ in sp])
            ids = [c for _, c, _, _ in sp]
            idmap = {str(pth): nid for _, _, nid, pth in sp}
        else:
            kw = dict(data_root=W.cmr, filenames_filter=[W.cmr / f"vol{f:03d}.mat" for f in ids])
    else:
        mode = 2
        chosen = rng.sample(W.cmr_list_files, rng.randint(1, 2))
        lists = [m for _, m in chosen]
        ids = []
        kw = dict(data_root=W.cmr, filenames_lists=[nm for nm, _ in chosen])
        root_given = int(rng.random() < 0.85)
        if root_given:
            kw["filenames_lists_root"] = W.lists
    kw.update(kspace_context=ctx, compute_mask=rng.random() < 0.3)
    shp = {**W.cmr_shape, MISSING: (-1, -1)}
    members = [c % 10000 for c in ids] if mode != 2 else [f for l in lists for f in l]
    total = sum({None: a * b, "slice": a, "time": b}[ctx] for a, b in (shp[f % 1000] for f in set(members)) if a > 0)
    idxs = list(range(-total - 1, total + 1))
    pool_ids = ids_all + [MISSING]
    groups = [[{None: 0, "slice": 1, "time": 2}[ctx], mode, root_given], pool_ids, [shp[f][0] for f in pool_ids],
              [shp[f][1] for f in pool_ids], ids, idxs] + lists
    return {"kw": kw, "ctx": ctx, "groups": groups, "idxs": idxs,
            "bucket": f"cmr/ctx-{ctx}/{['listing', 'filter', 'lists'][mode]}" + ("/spellings" if idmap else ""),
            "nontrivial": len(members) >= 2, "idmap": idmap}


def impl_cmr(case: dict):
    from direct.data.datasets import CMRxReconDataset

    def run():
        try:
            ds = CMRxReconDataset(**case["kw"])
        except ValueError as e:
            return "err " + err_name(e)
        vi = list(ds.volume_indices.items())
        idmap = case.get("idmap", {})

        def pid(f):
            return idmap.get(str(f), _name_id(f))

        groups = [[pid(f) for f, _ in ds.data], [int(s) for _, s in ds.data], [pid(f) for f, _ in vi],
                  [r.start for _, r in vi], [r.stop for _, r in vi]]
        for i in case["idxs"]:
            try:
                it = ds[i]
            except IndexError:
                groups.append([-1, 2])
                continue
            groups.append([pid(it["filename"]), int(it["slice_no"])] + _cmr_decode(it["kspace"], case["ctx"]))
        return ok(*groups)
    return run


# ---- recording of numpy's global stream --------------------------------------------------------
class RngRecorder:
    """Records calls to np.random.seed/uniform/randn (module functions = the global stream) and constructions of
    np.random.RandomState; afterwards checks that the global state equals the replay of the recorded calls."""

    def __enter__(self):
        self.log: list[tuple] = []
        self.private: list = []
        self.private_randn: list = []
        self.streams: list = []
        self._orig = {k: getattr(np.random, k) for k in ("seed", "uniform", "randn", "RandomState")}
        rec = self

        def seed(s=None):
            rec.log.append(("seed", int(s)))
            return rec._orig["seed"](s)

        def uniform(*a, **k):
            rec.log.append(("uniform", a, k))
            return rec._orig["uniform"](*a, **k)

        def randn(*shape):
            rec.log.append(("randn", shape))
            return rec._orig["randn"](*shape)

        def _cnt(size):
            return 1 if size is None else int(np.prod(size))

        class RS(self._orig["RandomState"]):
            def __init__(self_, seed=None):  # noqa: N805
                self_._verif_seed = None if seed is None else int(seed)
                self_._verif_log = []            # requests to this private stream: (code, count)
                rec.private.append(self_._verif_seed)
                rec.streams.append(self_)
                super().__init__(seed)

            def randn(self_, *shape):  # noqa: N805
                rec.private_randn.append((self_._verif_seed, int(np.prod(shape))))
                self_._verif_log += [3, int(np.prod(shape))]
                return super().randn(*shape)

            def uniform(self_, low=0.0, high=1.0, size=None):  # noqa: N805
                self_._verif_log += [5, _cnt(size)]
                return super().uniform(low, high, size)

            def normal(self_, loc=0.0, scale=1.0, size=None):  # noqa: N805
                self_._verif_log += [6, _cnt(size)]
                return super().normal(loc, scale, size)

            def shuffle(self_, x):  # noqa: N805
                self_._verif_log += [7, len(x)]
                return super().shuffle(x)

        def _other(name):
            def f(self_, *a, **k):  # noqa: N805 - any other request is not part of the modelled sequence
                self_._verif_log += [99]
                return getattr(rec._orig["RandomState"], name)(self_, *a, **k)
            return f

        for _nm in ("rand", "randint", "random_sample", "random", "choice", "permutation", "standard_normal", "bytes",
                    "random_integers", "exponential", "poisson", "binomial", "beta", "gamma"):
            setattr(RS, _nm, _other(_nm))

        np.random.seed, np.random.uniform, np.random.randn, np.random.RandomState = seed, uniform, randn, RS
        self.s0 = np.random.get_state()
        return self

    def __exit__(self, *exc):
        for k, v in self._orig.items():
            setattr(np.random, k, v)
        self.s1 = np.random.get_state()
        return False

    def consistent(self) -> bool:
        rs = self._orig["RandomState"]()
        rs.set_state(self.s0)
        for op in self.log:
            if op[0] == "seed":
                rs.seed(op[1])
            elif op[0] == "uniform":
                rs.uniform(*op[1], **op[2])
            else:
                rs.randn(*op[1])
        a, b = rs.get_state(), self.s1
        return a[0] == b[0] and np.array_equal(a[1], b[1]) and a[2:] == b[2:]

    def encode(self, upto: int | None = None) -> list[int]:
        """ops on the global stream since its last seeding (0 = unknown initial state)"""
        out = [0]
        for op in self.log[:upto]:
            if op[0] == "seed":
                out = [1, op[1]]
            elif op[0] == "uniform":
                out += [2]
            else:
                out += [3, int(np.prod(op[1]))]
        return out

    def blob_source(self) -> list[int]:
        """the private stream `make_blobs` used: `[1, seed] + its requests`; `[0]` when it fell back to the global stream,
        `[9]` for anything else"""
        if len(self.streams) == 1 and self.streams[0]._verif_seed is not None:
            return [1, self.streams[0]._verif_seed] + list(self.streams[0]._verif_log)
        return [0] if not self.streams else [9]

    def source_of(self, kind: str) -> list[int]:
        for i, op in enumerate(self.log):
            if op[0] == kind:
                return self.encode(i + 1)
        return []


def impl_fake(coils, seed, shape, given=0):
    from direct.data.fake import FakeMRIData

    def run():
        fd = FakeMRIData(ndim=len(shape), blobs_n_samples=given or None)
        np.random.seed(pyrandom.Random(seed * 7 + coils).randrange(2 ** 31))
        with RngRecorder() as r:
            fd(sample_size=1, num_coils=coils, spatial_shape=shape, name=["x"], seed=seed)
        final = r.encode() if r.consistent() else [9]
        return ok(final, r.blob_source(), r.source_of("uniform"))
    return run


def impl_fake_ds(ds, i):
    def run():
        np.random.seed(12345 + i)
        with RngRecorder() as r:
            ds[i]
        final = r.encode() if r.consistent() else [9]
        return ok(final, r.blob_source(), r.source_of("uniform"))
    return run


def impl_shepp(ds, i):
    def run():
        np.random.seed(777 + i)
        with RngRecorder() as r:
            ds[i]
        final = r.encode() if r.consistent() else [9]
        if r.private_randn:      # noise from a private stream: (its seed, number of samples)
            sd, k = r.private_randn[0]
            noise = [9] if len(r.private_randn) > 1 or r.private != [sd] else ([0, 3, k] if sd is None else [1, sd, 3, k])
        else:
            noise = r.source_of("randn") if not r.private else [9]
        return ok(final, r.source_of("uniform"), noise)
    return run


# ---- phase 3: library functions the model re-implements, index structure of the synthetic datasets -------------
def impl_bisect(xs, x):
    import bisect

    return lambda: ok([bisect.bisect_right(list(xs), x)])


def impl_sliceidx(sl, n):
    def run():
        try:
            a, b, st = sl.indices(n)
        except ValueError as e:
            return "err " + err_name(e)
        r = range(a, b, st)
        return ok([a, b, st], [len(r)], list(r))
    return run


def impl_dedup(xs):
    return lambda: ok(list(dict.fromkeys(xs)))


def _fake_name_id(name) -> int:
    d = "".join(ch for ch in str(name) if ch.isdigit())
    return int(d) if d else 0


def _per_volume_seeds(seed, sample_size):
    """the per-sample seeds, computed by the harness with the same library calls on a fresh private stream"""
    rs = np.random.RandomState()
    rs.seed(seed)
    return [int(v) for v in rs.choice(a=range(int(1e5)), size=sample_size, replace=False)]


def impl_fakeidx(sample_size, shape, given, seed, idxs, coils=1):
    from direct.data.datasets import FakeMRIBlobsDataset
    from direct.data.fake import FakeMRIData

    def run():
        try:
            ds = FakeMRIBlobsDataset(sample_size=sample_size, num_coils=coils, spatial_shape=shape, seed=seed, filenames=given)
        except IndexError as e:
            return "err " + err_name(e)
        vi = list(ds.volume_indices.items())
        names = list(dict.fromkeys(d[0] for d in ds.data)) if len(shape) == 2 or shape[0] > 0 else []
        # the names are observable through data only when every volume has a slice; fall back on the ranges otherwise
        if not ds.data:
            names = [str(f) for f, _ in vi]
        seeds = _per_volume_seeds(seed, sample_size)
        vols = {}

        def volume(sd):
            if sd not in vols:
                vols[sd] = FakeMRIData(ndim=len(shape))(sample_size=1, num_coils=coils, spatial_shape=shape, name=["x"], seed=sd)[0]["kspace"]
            return vols[sd]

        groups = [[_fake_name_id(n) for n in (_names_of(ds, sample_size))], [_fake_name_id(d[0]) for d in ds.data],
                  [int(d[1]) for d in ds.data], [int(d[2]) for d in ds.data], [_fake_name_id(f) for f, _ in vi],
                  [r.start for _, r in vi], [r.stop for _, r in vi]]
        for i in idxs:
            try:
                it = ds[i]
            except IndexError:
                groups.append([-1, 2])
                continue
            # which per-sample seed reproduces this item (at its reported slice)?
            sd = next((c for c in seeds if _arr_same(np.asarray(it["kspace"]),
                                                     _as_item(volume(c), int(it["slice_no"])))), -999)
            groups.append([_fake_name_id(it["filename"]), int(it["slice_no"]), sd])
        return ok(*groups)
    return run


def _names_of(ds, sample_size):
    """the names in generation order: `volume_indices` keeps a repeated name once, `data` has none when a volume has no
    slices — the list `parse_filenames_data` returned is recovered from whichever has all of them"""
    from_data = []
    for d in ds.data:
        if not from_data or from_data[-1] != d[0] or d[1] == 0:
            if d[1] == 0:
                from_data.append(d[0])
    return from_data if len(from_data) == sample_size else [str(f) for f in ds.volume_indices]


def _as_item(volume, slice_no):
    k = volume[slice_no]
    return k[np.newaxis, ...] if k.ndim == 2 else k


def impl_sheppidx(ds, idxs):
    from direct.data.sens import simulate_sensitivity_maps

    def run():
        nz = len(ds)
        cache = {}

        def ref(s, k):
            if (s, k) not in cache:
                image = ds.sample_image(s)[None] * simulate_sensitivity_maps((ds.nx, ds.ny), ds.num_coils, seed=ds.seed[k])
                if np.allclose(image, np.zeros(1)):
                    image = image + np.random.RandomState(ds.seed[k]).randn(*image.shape) * __import__("sys").float_info.epsilon
                cache[(s, k)] = ds.fft(image)
            return cache[(s, k)]

        groups = []
        for i in idxs:
            try:
                it = ds[i]
            except IndexError:
                groups.append([-1, 2])
                continue
            pairs = [(s, s) for s in range(nz)] + [(s, k) for s in range(nz) for k in range(nz) if s != k]
            hit = next(((s, k) for s, k in pairs if _arr_same(it["kspace"], ref(s, k))), (-999, -999))
            groups.append([hit[0], hit[1], int(it["slice_no"])])
        return ok(*groups)
    return run


# --------------------------------------------------------------------------------------------------
def correspondence(ctx: Ctx):
    from direct.data.datasets import FakeMRIBlobsDataset, SheppLoganDataset

    rng = ctx.rng
    P = pool()
    # ---- H5SliceData: parse + items
    for t in range(ctx.budget(220, 3000)):
        malformed = rng.random() < 0.06
        sl, fgrp, tag = gen_filter(rng, malformed)
        fids = gen_files(rng, P)
        ns = [P.n[f] for f in fids]
        c = rng.choice([0, 0, 1, 1, 2, 3])
        nread = sum(1 for n in ns if n > 0)
        nontriv = nread >= 2 and (fgrp != [0] or c > 0)
        bucket = f"h5/{tag}/ctx{c}/files{'0' if not fids else '1' if len(fids) == 1 else '2+'}" + ("/unreadable" if -1 in ns else "")
        yield {"line": pline("parse", fgrp, fids, ns), "impl": impl_parse(P, fids, sl), "nontrivial": nontriv,
               "bucket": "parse:" + bucket}
        # every index, every negative index, and the first out-of-range ones on both sides
        try:
            total = sum(len(range(*sl.indices(n))) if isinstance(sl, slice) else n for n in ns if n > 0)
        except ValueError:
            total = 0
        idxs = list(range(-total - 1, total + 1))
        rng.shuffle(idxs)
        idxs += [rng.choice(idxs) for _ in range(3)]       # repeated accesses
        yield {"line": pline("items", fgrp, fids, ns, [c], idxs), "impl": impl_items(P, fids, sl, c, idxs),
               "nontrivial": nontriv and total > 0, "bucket": "items:" + bucket}
    # ---- the dataset classes end to end: file selection -> parse -> items
    W = world()
    for t in range(ctx.budget(150, 2000)):
        case = _gen_dataset_case(rng, W, spellings=True)
        yield {"line": pline("dataset", *case["groups"]), "impl": impl_dataset(case), "nontrivial": case["nontrivial"],
               "bucket": case["bucket"]}
    for t in range(ctx.budget(60, 600)):
        case = _gen_cmr_case(rng, W)
        yield {"line": pline("cmr", *case["groups"]), "impl": impl_cmr(case), "nontrivial": case["nontrivial"],
               "bucket": case["bucket"]}
    # ---- ConcatDataset.locate
    for sizes, idx in [([3, 0, 2], 10 ** 12), ([3, 0, 2], -10 ** 12), ([1] * 5, 2 ** 63), ([4, 4], -(2 ** 63)), ([2, 3], 2), ([2, 3], -3),
                       ([2, 3], -4), ([2, 0, 0, 3], 2), ([0, 0], 0), ([0, 0], -1)]:
        yield {"line": pline("locate", sizes, [idx]), "impl": impl_locate(sizes, idx), "nontrivial": True,
               "bucket": "concat/boundary-or-huge"}
    for t in range(ctx.budget(400, 6000)):
        k = rng.choice([0, 1, 1, 2, 2, 3, 4, 5]) if rng.random() < 0.1 else rng.randint(1, 5)
        sizes = [rng.choice([0, 0, 1, 1, 2, 3, 5, 9]) if rng.random() < 0.5 else rng.randint(0, 12) for _ in range(k)]
        tot = sum(sizes)
        r = rng.random()
        idx = rng.randint(-tot - 3, tot + 2) if r < 0.8 else rng.choice([-tot - 1, -tot, -1, 0, tot - 1, tot])
        kind = "neg" if -tot <= idx < 0 else "pos" if 0 <= idx < tot else "out"
        yield {"line": pline("locate", sizes, [idx]), "impl": impl_locate(sizes, idx), "nontrivial": k >= 2,
               "bucket": f"concat/members{k}/{kind}" + ("/empty-member" if 0 in sizes else "")}
    # ---- ConcatDataset with the same object at several positions, Python / numpy integer indices (phase 4)
    for t in range(ctx.budget(300, 4000)):
        n_obj = rng.randint(1, 4)
        obj_sizes = [rng.choice([0, 1, 2, 3, 5, 9]) if rng.random() < 0.6 else rng.randint(0, 12) for _ in range(n_obj)]
        k = rng.randint(1, 5) if rng.random() < 0.95 else 0
        pattern = [rng.randrange(n_obj) for _ in range(k)]
        tot = sum(obj_sizes[p] for p in pattern)
        ty = rng.randrange(len(IDX_TYPES))
        unsigned = IDX_TYPES[ty][0].startswith("uint")
        r = rng.random()
        idx = rng.randint(-tot - 3, tot + 2) if r < 0.8 else rng.choice([-tot - 1, -tot, -1, 0, tot - 1, tot])
        if unsigned and idx < 0:
            idx = -idx - 1
        kind = "neg" if -tot <= idx < 0 else "pos" if 0 <= idx < tot else "out"
        yield {"line": pline("locatex", obj_sizes, pattern, [idx, ty]), "impl": impl_locatex(obj_sizes, pattern, idx, ty),
               "nontrivial": k >= 2,
               "bucket": f"concat-rep/{IDX_TYPES[ty][0]}/{kind}" + ("/repeated" if len(set(pattern)) < k else "")
                         + ("/empty-member" if any(obj_sizes[p] == 0 for p in pattern) else "")}
    # ---- RNG streams of the synthetic datasets: which stream serves which request, in which order
    for t in range(ctx.budget(24, 200)):
        coils = rng.choice([1, 1, 2, 3, 4, 8])
        seed = rng.choice([0, 0, 1, rng.randrange(10 ** 5)])
        shape = rng.choice([(6, 6), (8, 5), (3, 6, 6), (2, 5, 4), (1, 7, 3), (5, 5)])
        given = rng.choice([0, 0, 0, 7, 30])
        yield {"line": pline("fake", [coils, seed, given], shape), "impl": impl_fake(coils, seed, shape, given), "nontrivial": coils > 1,
               "bucket": f"rng/fake-call/coils{'1' if coils == 1 else '>1'}/seed{'0' if seed == 0 else '+'}/{len(shape)}d"
                         + ("/blobs_n_samples" if given else "")}
    for t in range(ctx.budget(6, 40)):
        coils = rng.choice([1, 2, 4])
        shape = rng.choice([(6, 6), (3, 6, 6)])
        given = rng.choice([0, 0, 11])
        ds = FakeMRIBlobsDataset(sample_size=rng.randint(1, 3), num_coils=coils, spatial_shape=shape, seed=rng.randrange(1000),
                                 **({"blobs_n_samples": given} if given else {}))
        for i in rng.sample(range(len(ds)), min(3, len(ds))):
            yield {"line": pline("fake", [coils, int(ds.data[i][2]), given], shape), "impl": impl_fake_ds(ds, i), "nontrivial": coils > 1,
                   "bucket": f"rng/fake-dataset/coils{'1' if coils == 1 else '>1'}/{len(shape)}d"}
    for t in range(ctx.budget(8, 60)):
        coils = rng.choice([1, 1, 2, 3])
        shp = (rng.choice([6, 8]), rng.choice([6, 7]), rng.choice([3, 4, 5]))
        ds = SheppLoganDataset(shape=shp, num_coils=coils, intensity=rng.choice(["PROTON", "T1", "T2"]), seed=rng.randrange(1000))
        for i in range(len(ds)):
            zero = bool(np.allclose(ds.sample_image(i), 0))
            yield {"line": pline("shepp", [coils, int(ds.seed[i]), int(zero)], [shp[0], shp[1]]), "impl": impl_shepp(ds, i),
                   "nontrivial": coils > 1 or zero,
                   "bucket": f"rng/shepp/coils{'1' if coils == 1 else '>1'}/{'zero-slice' if zero else 'nonzero-slice'}"}
    # ---- the library functions the model re-implements, compared directly
    for xs, x in [([], 0), ([3], 3), ([3], 2), ([0, 0, 0], 0), ([1, 2, 2, 2, 5], 2), ([5, 1, 1], 1), ([2, 2], -1), ([1, 4, 9], 10 ** 12)]:
        yield {"line": pline("bisect", xs, [x]), "impl": impl_bisect(xs, x), "nontrivial": len(xs) >= 2, "bucket": "lib/bisect/fixed"}
    for t in range(ctx.budget(120, 2000)):
        n = rng.randint(0, 9)
        xs = [rng.randint(0, 12) for _ in range(n)]
        kind = "sorted" if rng.random() < 0.7 else "unsorted"
        if kind == "sorted":
            xs.sort()
        x = rng.randint(-2, 14)
        yield {"line": pline("bisect", xs, [x]), "impl": impl_bisect(xs, x), "nontrivial": n >= 2, "bucket": f"lib/bisect/{kind}"}
    for t in range(ctx.budget(150, 2500)):
        malformed = rng.random() < 0.05
        sl, fgrp, tag = gen_filter(rng, malformed)
        if not isinstance(sl, slice):
            continue
        n = rng.choice([0, 1, 2, 3, 5, 9, 12, 104])
        yield {"line": pline("sliceidx", fgrp, [n]), "impl": impl_sliceidx(sl, n), "nontrivial": n >= 2, "bucket": f"lib/slice-indices/{tag}"}
    for t in range(ctx.budget(30, 300)):
        xs = [rng.randint(0, 6) for _ in range(rng.randint(0, 9))]
        yield {"line": pline("dedup", xs), "impl": impl_dedup(xs), "nontrivial": len(set(xs)) < len(xs), "bucket": "lib/dict-fromkeys"}
    # ---- index structure of the synthetic datasets
    for t in range(ctx.budget(16, 160)):
        sample_size = rng.choice([0, 1, 2, 2, 3, 4])
        shape = rng.choice([(4, 4), (5, 4), (3, 4, 4), (2, 5, 4), (1, 4, 4)])
        mode = rng.choice(["none", "str", "list-exact", "list-exact", "list-other", "list-empty"])
        if mode == "none":
            given, gids = None, [0]
        elif mode == "str":
            b = rng.randint(1, 9)
            given, gids = f"n{b}", [b]
        elif mode == "list-empty":
            given, gids = [], []
        else:
            k = sample_size if mode == "list-exact" else rng.choice([x for x in (1, 2, 3, 5) if x != sample_size])
            gids = rng.sample(range(1, 30), k)
            given = [f"n{b}" for b in gids]
        seed = rng.choice([0, 1, rng.randrange(10 ** 4)])
        nz = shape[0] if len(shape) == 3 else 1
        total = sample_size * nz
        idxs = list(range(-total - 1, total + 1))
        seeds = _per_volume_seeds(seed, sample_size)
        coils = rng.choice([1, 2])
        yield {"line": pline("fakeidx", [sample_size, len(shape), shape[0]], gids, seeds, idxs),
               "impl": impl_fakeidx(sample_size, shape, given, seed, idxs, coils), "nontrivial": sample_size >= 2,
               "bucket": f"index/fake/{mode}/{len(shape)}d"}
    for t in range(ctx.budget(5, 40)):
        nz = rng.choice([1, 2, 3, 4, 5])
        ds = SheppLoganDataset(shape=(6, 6, nz), num_coils=rng.choice([2, 3]), intensity=rng.choice(["PROTON", "T1", "T2"]),
                               seed=rng.randrange(1000))
        idxs = list(range(-nz - 2, nz + 2))
        yield {"line": pline("sheppidx", [nz], idxs), "impl": impl_sheppidx(ds, idxs), "nontrivial": nz >= 2,
               "bucket": f"index/shepp/nz{nz}"}


# --------------------------------------------------------------------------------------------------
# oracle: the property stated directly on the real code
def _perturb(rng: pyrandom.Random):
    np.random.seed(rng.randrange(2 ** 31))
    np.random.rand(rng.randint(0, 5))
    torch.manual_seed(rng.randrange(2 ** 31))
    pyrandom.seed(rng.randrange(2 ** 31))


def _arr_same(ka, kb) -> bool:
    """bit-identical arrays; a shape or dtype difference is a difference (never an exception)"""
    ka, kb = np.asarray(ka), np.asarray(kb)
    return ka.shape == kb.shape and ka.dtype == kb.dtype and np.ascontiguousarray(ka).tobytes() == np.ascontiguousarray(kb).tobytes()


def _arr_diff(ka, kb) -> str:
    ka, kb = np.asarray(ka), np.asarray(kb)
    if ka.shape != kb.shape or ka.dtype != kb.dtype:
        return f"shape/dtype {tuple(ka.shape)} {ka.dtype} vs {tuple(kb.shape)} {kb.dtype}"
    try:
        return f"max abs diff {float(np.abs(ka - kb).max()):.3g}"
    except Exception:  # noqa: BLE001
        return "contents differ"


def _keep_and_clobber(it: dict) -> dict:
    """a private copy of what identifies the item; then the arrays that were handed out are overwritten in place, as a
    transform working in place would do (an object that is cached and handed out again would now be corrupted)"""
    kept = {"filename": str(it["filename"]), "slice_no": it["slice_no"], "kspace": np.array(it["kspace"], copy=True)}
    for k, v in list(it.items()):
        if isinstance(v, np.ndarray) and v.flags.writeable and v.size:
            try:
                v[...] = 7
            except (ValueError, TypeError):
                pass
    it["slice_no"] = -12345
    it["filename"] = "clobbered"
    return kept


def _same(a: dict, b: dict) -> bool:
    return (str(a["filename"]) == str(b["filename"]) and a["slice_no"] == b["slice_no"]
            and _arr_same(a["kspace"], b["kspace"]))


def _ref_window(P: Pool, fid: int, s: int, c: int) -> list[int]:
    n = P.n[fid]
    if c == 0:
        return [1000 * fid + s]
    return [1000 * fid + s + j if 0 <= s + j < n else 0 for j in range(-c, c + 1)]


def _h5_case(P: Pool, fids, sl, c, rng, tag):
    """yield Violations for one H5SliceData configuration"""
    rep = {"op": "h5", "files": [[f, P.n[f]] for f in fids],
           "slice": None if sl is None else [sl.start, sl.stop, sl.step], "context": c}
    ds = build_h5(P, fids, sl, c)
    vi = list(ds.volume_indices.items())
    readable = [f for f in fids if P.n[f] > 0]
    # ranges: one per readable file, in order, contiguous from 0, covering 0..len-1
    cur = 0
    okr = [P.fid(f) for f, _ in vi] == readable
    for _, r in vi:
        okr = okr and r.start == cur and r.stop >= r.start and r.step == 1
        cur = r.stop
    okr = okr and cur == len(ds)
    if not okr:
        yield Violation("h5-ranges-not-a-partition" + tag, "volume_indices are not contiguous ordered ranges covering 0..len-1",
                        dict(rep, observed=[[P.fid(f), r.start, r.stop] for f, r in vi], len=len(ds)))
        return
    for f, r in vi:
        fid = P.fid(f)
        adm = sorted(list(range(P.n[fid]))[sl]) if sl is not None else list(range(P.n[fid]))
        if len(adm) != len(r):
            yield Violation("h5-range-length" + tag, "a volume's range length differs from its number of admissible slices",
                            dict(rep, file=fid, expected=len(adm), observed=len(r)))
            continue
        for rank, i in enumerate(r):
            it = ds[i]
            got = (P.fid(it["filename"]), it["slice_no"])
            if got != (fid, adm[rank]):
                yield Violation("h5-item-not-designated" + tag, "item i is not the slice its volume range designates",
                                dict(rep, index=i, expected=[fid, adm[rank]], observed=list(got)))
                continue
            ks = it["kspace"]
            want_shape = (P.coils[fid],) + ((2 * c + 1,) if c else ()) + (2, 2)
            ids_ = window_ids(ks, c) if ks.ndim == len(want_shape) else None
            if tuple(ks.shape) != want_shape or ids_ != _ref_window(P, fid, adm[rank], c):
                yield Violation("h5-window-content" + tag,
                                "k-space of item i is not the context window (2c+1 slices centred on the slice, zeros outside "
                                "the file)", dict(rep, index=i, slice=adm[rank], expected=_ref_window(P, fid, adm[rank], c),
                                                  observed=ids_, observed_shape=list(ks.shape)))
    # reproducibility under repetition / permutation / perturbation of the global RNGs
    if len(ds):
        order = [rng.randrange(len(ds)) for _ in range(min(6, 2 * len(ds)))]
        first = {}
        for i in order + order[::-1]:
            _perturb(rng)
            it = ds[i]
            if i in first and not _same(first[i], it):
                yield Violation("h5-reload-differs", "loading the same index twice returns different data (the first copy was "
                                "overwritten in place by its consumer in between)", dict(rep, index=i))
            kept = _keep_and_clobber(it)
            first.setdefault(i, kept)


def _members_flat(members):
    return [(d, j) for d, m in enumerate(members) for j in range(len(m))]


def oracle(ctx: Ctx, deep: bool = False):
    from direct.data.datasets import ConcatDataset, FakeMRIBlobsDataset, SheppLoganDataset

    rng = ctx.rng
    P = pool()
    big = deep or ctx.thorough
    # (1) H5SliceData: exhaustive small scope over (n, context) for single files incl. n = 1..4, then random configurations
    for fid in [f for f in P.readable if P.coils[f] == 1][:9]:
        for c in range(0, 4):
            ctx.count(("h5-single", P.n[fid], c), c > 0, bucket="oracle/h5-single-file")
            yield from _h5_case(P, [fid], None, c, rng, "")
    for _ in range(ctx.budget(120, 2500) * (3 if deep else 1)):
        sl, fgrp, tag = gen_filter(rng)
        fids = gen_files(rng, P)
        c = rng.choice([0, 1, 1, 2, 3])
        nread = sum(1 for f in fids if P.n[f] > 0)
        ctx.count(("h5", tuple(fids), tuple(fgrp), c), nread >= 2, bucket=f"oracle/h5/{tag}/ctx{c}")
        yield from _h5_case(P, fids, sl, c, rng, "-filtered" if sl is not None and c > 0 else "")
    # (2) ConcatDataset over real members: every index (positive and negative) = the flat enumeration of the members
    for _ in range(ctx.budget(40, 600) * (3 if deep else 1)):
        k = rng.randint(1, 5)
        members = []
        for _m in range(k):
            r = rng.random()
            if r < 0.7:
                sl, _, _ = gen_filter(rng)
                members.append(build_h5(P, gen_files(rng, P, rng.choice([0, 1, 2, 3])), sl, rng.choice([0, 0, 1, 2])))
            elif r < 0.85:
                members.append(FakeMRIBlobsDataset(sample_size=rng.randint(1, 2), num_coils=rng.choice([1, 2]),
                                                   spatial_shape=rng.choice([(4, 4), (2, 4, 4)]), seed=rng.randrange(100)))
            else:
                members.append(_Probe(100 + _m, rng.choice([0, 1, 3])))
        cd = ConcatDataset(members)
        flat = _members_flat(members)
        sizes = [len(m) for m in members]
        ctx.count(("concat", tuple(sizes), tuple(type(m).__name__ for m in members)), k >= 2, bucket=f"oracle/concat/members{k}")
        rep = {"op": "concat", "sizes": sizes}
        if len(cd) != len(flat):
            yield Violation("concat-length", "len(ConcatDataset) != sum of member lengths", dict(rep, observed=len(cd)))
            continue
        for i in range(-len(flat), len(flat)):
            d, j = flat[i]
            try:
                got, exp = cd[i], members[d][j]
                same = got == exp if isinstance(exp, tuple) else _same(got, exp)
            except Exception as e:  # noqa: BLE001
                same, got = False, repr(e)
            if not same:
                yield Violation("concat-negative-index" if i < 0 else "concat-wrong-member",
                                "ConcatDataset[i] is not item (i - sum of earlier sizes) of the member that contains i",
                                dict(rep, index=i, expected_member=d, expected_local=j))
                break
        for i, exc in ((len(flat), IndexError), (-len(flat) - 1, ValueError)):
            try:
                cd[i]
                yield Violation("concat-out-of-range-accepted", "an index outside -len..len-1 is not rejected", dict(rep, index=i))
            except exc:
                pass
            except Exception as e:  # noqa: BLE001
                yield Violation("concat-out-of-range-error", f"unexpected {err_name(e)} for an out-of-range index", dict(rep, index=i))
    # (3) synthetic datasets: same index twice / permuted orders / perturbed global RNGs / identically constructed twin
    for _ in range(ctx.budget(14, 150) * (2 if deep else 1)):
        coils = rng.choice([1, 2, 3, 5])
        shape = rng.choice([(6, 6), (5, 8), (3, 6, 6), (2, 4, 5)])
        kw = dict(sample_size=rng.randint(1, 3), num_coils=coils, spatial_shape=shape, seed=rng.choice([0, 1, rng.randrange(10 ** 4)]))
        rep = {"op": "fake", "kwargs": {k: (list(v) if isinstance(v, tuple) else v) for k, v in kw.items()}}
        ds, twin = FakeMRIBlobsDataset(**kw), FakeMRIBlobsDataset(**kw)
        ctx.count(("fake", tuple(sorted(rep["kwargs"].items(), key=str))), True, bucket=f"oracle/fake/{len(shape)}d/coils{coils}")
        nz = 1 if len(shape) == 2 else shape[0]
        vi = list(ds.volume_indices.values())
        if [(r.start, r.stop) for r in vi] != [(k * nz, (k + 1) * nz) for k in range(kw["sample_size"])] or len(ds) != nz * kw["sample_size"]:
            yield Violation("fake-ranges-not-a-partition", "FakeMRIBlobsDataset.volume_indices do not partition 0..len-1", rep)
        else:       # item i of volume k's range is slice i - start of that volume
            for f, r in ds.volume_indices.items():
                bad = next((i for i in r if (str(ds.data[i][0]), ds.data[i][1]) != (str(f), i - r.start)
                            or (lambda it: (str(it["filename"]), it["slice_no"]) != (str(f), i - r.start))(ds[i])), None)
                if bad is not None:
                    yield Violation("fake-item-not-designated", f"FakeMRIBlobsDataset item {bad} is not slice {bad - r.start} of the "
                                                                f"volume whose range contains it", dict(rep, index=bad))
                    break
        yield from _repro(ds, twin, rng, rep, "fake", lambda i: False)
    # the generator behind the dataset, called directly with the seeds the dataset may draw (0 included: a seed, not "no seed")
    from direct.data.fake import FakeMRIData
    from direct.data.sens import simulate_sensitivity_maps

    for t in range(ctx.budget(18, 150)):
        coils = rng.choice([1, 2, 3, 6])
        shape = rng.choice([(6, 6), (5, 8), (3, 6, 6)])
        seed = 0 if t % 3 == 0 else rng.choice([1, rng.randrange(10 ** 5)])
        ctx.count(("fake-call", coils, shape, seed), True, bucket=f"oracle/fake-call/seed{'0' if seed == 0 else '+'}/coils{coils}")
        outs = []
        for _rep in range(2):
            _perturb(rng)
            outs.append(FakeMRIData(ndim=len(shape))(sample_size=1, num_coils=coils, spatial_shape=shape, name=["x"], seed=seed)[0]["kspace"])
        if outs[0].tobytes() != outs[1].tobytes():
            yield Violation("fake-call-seed0-differs" if seed == 0 else "fake-call-differs",
                            "FakeMRIData()(…, seed=s) called twice with the same seed returns different k-space",
                            {"op": "fake-call", "num_coils": coils, "spatial_shape": list(shape), "seed": seed})
        if coils > 1:
            maps = []
            for _rep in range(2):
                _perturb(rng)
                maps.append(simulate_sensitivity_maps(shape[-2:], coils, seed=seed))
            if maps[0].tobytes() != maps[1].tobytes():
                yield Violation("sens-seed0-differs" if seed == 0 else "sens-differs",
                                "simulate_sensitivity_maps(shape, coils, seed=s) called twice returns different maps",
                                {"op": "sens", "num_coils": coils, "shape": list(shape[-2:]), "seed": seed})
    for t in range(ctx.budget(10, 100) * (2 if deep else 1)):
        coils = 1 if t == 0 else rng.choice([1, 1, 2, 4])
        shp = (rng.choice([6, 8]), rng.choice([6, 9]), rng.choice([3, 4, 6]))
        kw = dict(shape=shp, num_coils=coils, intensity=rng.choice(["PROTON", "T1", "T2"]), seed=rng.choice([0, 3, rng.randrange(10 ** 4)]))
        if t == 0:      # fixed first configuration: single coil, all-zero outer slices
            kw = dict(shape=(6, 6, 3), num_coils=1, intensity="PROTON", seed=0)
            shp = kw["shape"]
        rep = {"op": "shepp", "kwargs": dict(kw, shape=list(shp))}
        ds, twin = SheppLoganDataset(**kw), SheppLoganDataset(**kw)
        ctx.count(("shepp", shp, coils, kw["intensity"], kw["seed"]), True, bucket=f"oracle/shepp/coils{coils}")
        vi = list(ds.volume_indices.values())
        if [(r.start, r.stop) for r in vi] != [(0, len(ds))] or len(ds) != shp[2]:
            yield Violation("shepp-ranges-not-a-partition", "SheppLoganDataset.volume_indices is not range(0, len)", rep)
        zero = [bool(np.allclose(ds.sample_image(i), 0)) for i in range(len(ds))]
        yield from _repro(ds, twin, rng, rep, "shepp", lambda i: zero[i])
    yield from _guard("interleaved", _oracle_interleaved(ctx, deep))
    yield from _guard("classes", _oracle_phase2(ctx, deep))
    yield from _guard("histories", _oracle_phase3(ctx, deep))


def _guard(section: str, gen):
    """an exception that passes through the implementation while an oracle section drives it with inputs that are valid on
    the unchanged tree is the implementation failing: reported with its traceback (anything else stays a tool failure)"""
    import traceback

    import core

    try:
        yield from gen
    except core.ToolFailure:
        raise
    except Exception as e:  # noqa: BLE001
        tb = traceback.extract_tb(e.__traceback__)
        in_repo = [f for f in tb if f.filename.startswith(str(core.REPO) + "/")]
        if not in_repo:
            raise
        site = in_repo[-1]
        rel = site.filename[len(str(core.REPO)) + 1:]
        yield Violation(f"oracle-exception:{section}:{type(e).__name__}:{rel}:{site.name}",
                        f"while checking {section}: {type(e).__name__}: {e} (raised through {rel}:{site.lineno} in {site.name}) on an "
                        f"input that is valid on the unchanged tree"[:400],
                        {"op": "exception", "section": section, "exception": repr(e)[:300], "site": f"{rel}:{site.lineno} in {site.name}",
                         "traceback": traceback.format_exception(type(e), e, e.__traceback__)[-10:]})


def _mapping(ds):
    """index -> (file name, slice) plus the volume ranges by file name"""
    return ([(pathlib.Path(f).name, int(sl)) for f, sl in ds.data],
            [(pathlib.Path(f).name, r.start, r.stop) for f, r in ds.volume_indices.items()])


def _partition_ok(ds) -> bool:
    cur = 0
    for r in ds.volume_indices.values():
        if r.start != cur or r.stop < r.start:
            return False
        cur = r.stop
    return cur == len(ds)


def world_digest(path: str) -> str:
    """a digest of every index mapping and of sample item bytes for datasets built on an existing World directory
    (run in-process and in subprocesses with different PYTHONHASHSEED)"""
    import hashlib

    import direct.config.defaults  # noqa: F401
    from direct.data.datasets import (CalgaryCampinasDataset, CMRxReconDataset, ConcatDataset, FakeMRIBlobsDataset,
                                      FastMRIDataset, SheppLoganDataset)
    from direct.data.h5_data import H5SliceData

    d = pathlib.Path(path)
    h = hashlib.sha1()
    dss = [H5SliceData(root=d / "main", kspace_context=1, slice_data=slice(None, None, 2), pass_h5s={"x": ("recon", d / "extra")}),
           H5SliceData(root=d / "sub4"), FastMRIDataset(data_root=d / "sub5"),
           H5SliceData(root=d / "main", filenames_lists=["l0.lst", "l1.lst", "l2.lst"], filenames_lists_root=d / "lists"),
           CalgaryCampinasDataset(data_root=d / "cc", crop_outer_slices=True)]
    dss += [CMRxReconDataset(data_root=d / "cmr", kspace_context=c, extra_keys=None, compute_mask=True) for c in (None, "slice", "time")]
    dss += [FakeMRIBlobsDataset(sample_size=2, num_coils=2, spatial_shape=(2, 4, 4), seed=3),
            SheppLoganDataset(shape=(6, 6, 3), num_coils=2, intensity="T1", seed=3)]
    dss.append(ConcatDataset(dss[:]))
    for ds in dss:
        if hasattr(ds, "data") and hasattr(ds, "volume_indices") and not isinstance(ds, FakeMRIBlobsDataset):
            h.update(repr(_mapping(ds)).encode())
        for i in range(0, len(ds), max(1, len(ds) // 7)):
            try:
                it = ds[i]
            except Exception as e:  # noqa: BLE001 - reported by the class checks
                h.update(err_name(e).encode())
                continue
            h.update(repr((pathlib.Path(str(it["filename"])).name, int(it["slice_no"]), sorted(it.keys()))).encode())
            h.update(np.ascontiguousarray(it["kspace"]).tobytes())
    return h.hexdigest()


def _oracle_phase2(ctx: Ctx, deep: bool):
    import subprocess
    import sys

    import direct.config.defaults  # noqa: F401
    from direct.data.datasets import (CalgaryCampinasDataset, CMRxReconDataset, ConcatDataset, FakeMRIBlobsDataset,
                                      FastMRIDataset, SheppLoganDataset, build_dataset, build_dataset_from_input)
    from direct.data.h5_data import H5SliceData

    rng = ctx.rng
    W = world()
    # (a) the directory listing: same files, created in different orders in two directories -> same dataset?
    base = "/dev/shm" if os.access("/dev/shm", os.W_OK) else None
    tmp = pathlib.Path(tempfile.mkdtemp(prefix="verif_c12o_", dir=base))
    try:
        names = [f"vol{f:03d}.h5" for f in (1, 2, 3, 4, 5, 6)]
        maps = []
        for sub, order in (("a", names), ("b", names[::-1]), ("c", rng.sample(names, len(names)))):
            (tmp / sub).mkdir()
            for nm in order:
                shutil.copy(W.main / nm, tmp / sub / nm)
            maps.append(_mapping(H5SliceData(root=tmp / sub)))
        cm = []
        for sub, order in (("ma", sorted(W.cmr_shape)), ("mb", sorted(W.cmr_shape, reverse=True))):
            (tmp / sub).mkdir()
            for f in order:
                shutil.copy(W.cmr / f"vol{f:03d}.mat", tmp / sub / f"vol{f:03d}.mat")
            cm.append(_mapping(CMRxReconDataset(data_root=tmp / sub)))
        if cm[0] != cm[1] or [v[0] for v in cm[0][1]] != sorted(v[0] for v in cm[0][1]):
            yield Violation("directory-listing-order-unsorted", "CMRxReconDataset built from data_root alone orders the volumes as "
                            "the operating system lists the directory", {"op": "listing-order", "class": "CMRxReconDataset",
                                                                          "volume_order_per_directory": [[v[0] for v in m[1]] for m in cm]})
        ctx.count(("listing-order", base), True, bucket="oracle/listing-order")
        want = [nm for nm in sorted(names)]
        got = [[v[0] for v in m[1]] for m in maps]
        if any(m != maps[0] for m in maps) or got[0] != want:
            yield Violation("directory-listing-order-unsorted",
                            "datasets built from data_root alone (list(root.glob('*.h5')), unsorted) order the volumes as the "
                            "operating system lists the directory: identical directories give different index -> slice maps",
                            {"op": "listing-order", "filesystem": base or "tmp", "volume_order_per_directory": got, "sorted": want})
    finally:
        shutil.rmtree(tmp, ignore_errors=True)
    # (b) a file name that occurs twice
    for kw, what in (({"filenames_filter": [W.main / "vol003.h5", W.main / "vol004.h5", W.main / "vol003.h5"]}, "filenames_filter"),
                     ({"filenames_lists": ["d1.lst", "d2.lst"], "filenames_lists_root": W.lists}, "filenames_lists")):
        (W.lists / "d1.lst").write_text("vol003.h5\nvol004.h5\n")
        (W.lists / "d2.lst").write_text("vol005.h5\nvol003.h5\n")
        ds = H5SliceData(root=W.main, **kw)
        ctx.count(("duplicate", what), True, bucket="oracle/duplicate-names")
        want_order = ["vol003.h5", "vol004.h5"] if what == "filenames_filter" else ["vol003.h5", "vol004.h5", "vol005.h5"]
        if not _partition_ok(ds) or [v[0] for v in _mapping(ds)[1]] != want_order:
            yield Violation("duplicate-filenames-ranges-not-partition",
                            f"a file named twice in {what}: its slices are in the dataset twice but volume_indices keeps one "
                            f"range per name, so the ranges no longer partition 0..len-1",
                            {"op": "duplicate", "via": what, "len": len(ds), "ranges": _mapping(ds)[1]})
    # (b') one file mentioned in several spellings (str / Path, redundant separators, `./`), and spellings that denote other
    #      Path objects (relative, symlinked directory, `..`, same name in another directory): entries equal as
    #      `pathlib.Path(_)` are one volume, all others their own volume; the ranges partition 0..len-1 in every case
    m = W.main
    a, b = "vol003.h5", "vol004.h5"
    rel = os.path.relpath(m)
    mixes = [
        ("str+Path", [str(m / a), m / a, m / b]),
        ("Path+str", [m / b, m / a, str(m / a)]),
        ("double-separator", [m / a, f"{m}//{a}", str(m / b), f"{m}//{b}"]),
        ("dot-component", [f"{m}/./{a}", str(m / a), m / b]),
        ("trailing-separator", [f"{m}/{a}/", m / a]),
        ("relative+absolute", [m / a, pathlib.Path(rel) / a, f"./{rel}/{a}", f"{rel}/{a}"]),
        ("symlinked-directory", [W.dir / "mainlink" / a, m / a, str(W.dir / "mainlink" / a)]),
        ("dotdot-component", [m / ".." / "main" / a, m / a, f"{m}/../main/{a}"]),
        ("same-name-other-directory", [m / a, W.extra / a, str(W.extra / a)]),
    ]
    cm_a = "vol304.mat"
    for what, entries in mixes + [("cmr:str+Path+double-separator", [W.cmr / cm_a, str(W.cmr / cm_a), f"{W.cmr}//{cm_a}",
                                                                     W.cmr / "vol302.mat"])]:
        ctx.count(("spellings", what), True, bucket="oracle/duplicate-names/spellings")
        ds = CMRxReconDataset(data_root=W.cmr, filenames_filter=entries) if what.startswith("cmr:") else \
            H5SliceData(root=m, filenames_filter=entries, kspace_context=1)
        want = [str(x) for x in dict.fromkeys(pathlib.Path(e) for e in entries)]
        got = [str(f) for f in ds.volume_indices]
        owners = [sum(1 for r in ds.volume_indices.values() if i in r) for i in range(len(ds))]
        if not _partition_ok(ds) or got != want or any(o != 1 for o in owners) or \
                any(str(ds[i]["filename"]) != next(str(f) for f, r in ds.volume_indices.items() if i in r) for i in range(len(ds))
                    if owners[i] == 1):
            yield Violation("duplicate-spellings-ranges-not-partition",
                            f"one file named in several spellings ({what}): entries that are the same pathlib.Path must be one "
                            f"volume (first kept) and the ranges must partition 0..len-1; got len {len(ds)}, ranges "
                            f"{[(pathlib.Path(f).name, r.start, r.stop) for f, r in ds.volume_indices.items()]}",
                            {"op": "spellings", "case": what, "entries": [f"{type(e).__name__}:{e}" for e in entries],
                             "expected_volumes": want, "observed_volumes": got, "len": len(ds),
                             "indices_without_exactly_one_volume": [i for i, o in enumerate(owners) if o != 1][:20]})
    # (c) the other classes, directly: partition, designation, content
    for t in range(ctx.budget(40, 500)):
        case = _gen_dataset_case(rng, W)
        kw = case["kw"]
        # the files the constructor arguments select, computed independently (ids; listing order is finding (a))
        import re

        root = kw.get("root", kw.get("data_root"))
        if "filenames_filter" in kw:
            sel_ids, ordered = [_name_id(p) for p in kw["filenames_filter"]], True
        elif "filenames_lists" in kw:
            if "filenames_lists_root" not in kw:
                continue
            sel_ids, ordered = [f for nm in kw["filenames_lists"] for f in dict(W.list_files)[nm]], True
        else:
            sel_ids, ordered = sorted(_name_id(p) for p in os.listdir(root) if p.endswith(".h5")), False
        if "regex_filter" in kw:
            sel_ids = [f for f in sel_ids if re.match(kw["regex_filter"], str(pathlib.Path(root) / f"vol{f % 1000:03d}.h5"))]
        # a file is one volume: repeated names count once (first kept); ids >= 1000 are other Path objects (a `..` spelling in a
        # .lst file) and therefore volumes of their own, reported under the same file name
        sel_ids = [f % 1000 for f in dict.fromkeys(sel_ids)]
        nn = W.cc_n if case["cls"] == "calgary" else W.n
        sel_ids = [f for f in sel_ids if nn.get(f, -1) > 0]
        try:
            ds = _build_cls(case["cls"], kw)
        except ValueError:
            continue
        ctx.count(("cls", case["bucket"], t), True, bucket="oracle/" + case["bucket"])
        rep = {"op": "class", "cls": case["cls"], "kwargs": {k: str(v) for k, v in kw.items()}}
        got_ids = [_name_id(f) for f in ds.volume_indices]
        if (got_ids if ordered else sorted(got_ids)) != sel_ids:
            yield Violation(f"{case['cls']}-file-selection",
                            "the volumes of the dataset are not the files selected by filenames_filter / filenames_lists / "
                            "data_root listing and regex_filter (in that order of precedence, in the given order)",
                            dict(rep, expected=sel_ids, observed=got_ids))
            continue
        if not _partition_ok(ds):
            yield Violation(f"{case['cls']}-ranges-not-a-partition", "volume_indices do not partition 0..len-1", rep)
            continue
        calg = case["cls"] == "calgary"
        for f, r in ds.volume_indices.items():
            fid = _name_id(f)
            n = W.cc_n[fid] if calg else W.n[fid]
            sl = slice(50, -50) if calg and kw.get("crop_outer_slices") else kw.get("slice_data") if case["cls"] == "h5" else None
            adm = sorted(list(range(n))[sl]) if sl is not None else list(range(n))
            if len(adm) != len(r):
                yield Violation(f"{case['cls']}-range-length", "range length differs from the number of admissible slices",
                                dict(rep, file=fid, expected=len(adm), observed=len(r)))
                continue
            for rank, i in enumerate(r):
                try:
                    it = ds[i]
                except Exception as e:  # noqa: BLE001
                    yield Violation(f"{case['cls']}-item-raises", f"loading a valid index raises {err_name(e)}", dict(rep, index=i))
                    break
                good = (_name_id(it["filename"]), it["slice_no"]) == (fid, adm[rank])
                if good and calg:
                    good = _cc_id(it["kspace"]) == 1000 * fid + adm[rank]
                elif good:
                    c = case["ctx"]
                    ref = [1000 * fid + adm[rank] + j if 0 <= adm[rank] + j < n else 0 for j in range(-c, c + 1)]
                    good = window_ids(it["kspace"], c) == ref
                    if good and case["xkey"]:
                        nx = W.nx[fid]
                        refx = [500000 + 1000 * fid + adm[rank] + j if 0 <= adm[rank] + j < nx else 0 for j in range(-c, c + 1)]
                        good = window_ids(it[case["xkey"]], c) == refx
                if not good:
                    yield Violation(f"{case['cls']}-item-not-designated",
                                    "item i (or the pass_h5s / sensitivity-map companion) is not the slice its volume range designates",
                                    dict(rep, index=i, expected=[fid, adm[rank]]))
                    break
    for t in range(ctx.budget(12, 100)):
        case = _gen_cmr_case(rng, W)
        try:
            ds = CMRxReconDataset(**case["kw"])
        except ValueError:
            continue
        ctx.count(("cmr", case["bucket"], t), True, bucket="oracle/" + case["bucket"])
        rep = {"op": "cmr", "kwargs": {k: str(v) for k, v in case["kw"].items()}}
        if not _partition_ok(ds):
            yield Violation("cmr-ranges-not-a-partition", "volume_indices do not partition 0..len-1", rep)
            continue
        for f, r in ds.volume_indices.items():
            a, b = W.cmr_shape[_name_id(f)]
            exp = {None: [[k, l] for k in range(a) for l in range(b)], "slice": [[v for l in range(b) for v in (k, l)] for k in range(a)],
                   "time": [[v for k in range(a) for v in (k, l)] for l in range(b)]}[case["ctx"]]
            try:
                got = [_cmr_decode(ds[i]["kspace"], case["ctx"]) for i in r]
            except Exception as e:  # noqa: BLE001
                yield Violation("cmr-item-raises", f"loading a valid index raises {err_name(e)}", dict(rep, file=_name_id(f)))
                continue
            if got != exp or any(_name_id(ds[i]["filename"]) != _name_id(f) or ds[i]["slice_no"] != j for j, i in enumerate(r)):
                yield Violation("cmr-item-not-designated", "CMRxReconDataset item is not the (slice, frame) block its index designates",
                                dict(rep, file=_name_id(f), expected=exp, observed=got))
    # (d) build_dataset / build_dataset_from_input give the dataset the class constructor gives
    from omegaconf import OmegaConf

    from direct.data.datasets_config import CalgaryCampinasConfig, CMRxReconConfig, FastMRIConfig

    for name, cfgcls, root, direct_ds in (
            ("FastMRI", FastMRIConfig, W.subs[4], lambda: FastMRIDataset(data_root=W.subs[4])),
            ("CalgaryCampinas", CalgaryCampinasConfig, W.cc, lambda: CalgaryCampinasDataset(data_root=W.cc, crop_outer_slices=True)),
            ("CMRxRecon", CMRxReconConfig, W.cmr, lambda: CMRxReconDataset(data_root=W.cmr))):
        ctx.count(("build", name), True, bucket="oracle/build_dataset")
        extra = {"crop_outer_slices": True} if name == "CalgaryCampinas" else {}
        ref = _mapping(direct_ds())
        try:
            a = build_dataset(name, None, data_root=root, **extra)
            cfg = OmegaConf.structured(cfgcls(name=name, data_root="/nonexistent/overridden-by-kwargs", **extra))
            b = build_dataset_from_input(None, cfg, data_root=root)
            same = _mapping(a) == ref and _mapping(b) == ref
            err = None
        except Exception as e:  # noqa: BLE001
            same, err = False, f"{err_name(e)}: {e}"
        if not same:
            key = "cmrxrecon-config-regex-filter-typeerror" if name == "CMRxRecon" and err and "regex_filter" in err else f"build-dataset-{name}"
            yield Violation(key, f"build_dataset / build_dataset_from_input for {name} does not give the dataset the class "
                                 f"constructor gives ({err or 'different index mapping'})", {"op": "build", "name": name, "error": err})
    # (e) ConcatDataset: lengths are taken once at construction; member boundaries; huge indices
    class _Growing(_Probe):
        pass

    g = _Growing(1, 3)
    cd = ConcatDataset([_Probe(0, 2), g, _Probe(2, 4)])
    before = [cd[i] for i in range(-len(cd), len(cd))]
    g.n = 7
    ctx.count(("concat-growing",), True, bucket="oracle/concat/len-once")
    if len(cd) != 9 or [cd[i] for i in range(-9, 9)] != before:
        yield Violation("concat-sizes-not-fixed-at-construction", "ConcatDataset re-reads member lengths after construction",
                        {"op": "concat-growing"})
    for idx, exc in ((10 ** 15, IndexError), (-10 ** 15, ValueError), (2 ** 70, IndexError)):
        try:
            cd[idx]
            yield Violation("concat-out-of-range-accepted", "a huge index is not rejected", {"op": "concat", "sizes": [2, 3, 4], "index": idx})
        except exc:
            pass
    # (f) no state shared between instances: construction / access order of two objects does not matter
    ctx.count(("instances",), True, bucket="oracle/instances")
    mk = [lambda: H5SliceData(root=W.subs[3], kspace_context=1), lambda: FastMRIDataset(data_root=W.subs[2]),
          lambda: CMRxReconDataset(data_root=W.cmr, kspace_context="time"),
          lambda: FakeMRIBlobsDataset(sample_size=2, num_coils=2, spatial_shape=(4, 4), seed=11),
          lambda: SheppLoganDataset(shape=(6, 6, 3), num_coils=1, intensity="PROTON", seed=11)]
    def _bytes(d, i):
        try:
            return d[i]["kspace"].tobytes()
        except Exception as e:  # noqa: BLE001 - reported by the class checks above
            return err_name(e)

    first = [m() for m in mk]
    items1 = [[_bytes(d, i) for i in range(len(d))] for d in first]
    second = [m() for m in reversed(mk)][::-1]
    for d in second[::-1]:
        _perturb(rng)
        for i in reversed(range(len(d))):
            _bytes(d, i)
    items2 = [[_bytes(d, i) for i in range(len(d))] for d in second]
    if items1 != items2:
        yield Violation("instances-share-state", "identically constructed datasets differ depending on construction / access order",
                        {"op": "instances", "differs": [type(d).__name__ for d, x, y in zip(first, items1, items2) if x != y]})
    # (g) hash randomisation: the same World read in fresh interpreters with different PYTHONHASHSEED
    ref = world_digest(str(W.dir))
    for hs in (["4242"] if not (deep or ctx.thorough) else ["0", "1", "7", "4242", "99999"]):
        ctx.count(("hashseed", hs), True, bucket="oracle/hashseed")
        env = dict(os.environ, PYTHONHASHSEED=hs, PYTHONDONTWRITEBYTECODE="1", PYTHONWARNINGS="ignore")
        code = (f"import sys; sys.path.insert(0, {str(pathlib.Path(__file__).resolve().parent.parent)!r}); import boot; "
                f"import props.c12 as m; print('DIGEST', m.world_digest({str(W.dir)!r}))")
        r = subprocess.run([sys.executable, "-c", code], env=env, capture_output=True, text=True, timeout=600)
        got = [ln.split()[1] for ln in r.stdout.split("\n") if ln.startswith("DIGEST")]
        if r.returncode != 0 or not got:
            raise RuntimeError("hash-seed subprocess failed: " + (r.stderr or r.stdout)[-500:])
        if got[0] != ref:
            yield Violation("hashseed-dependent-dataset", "index mappings / items differ between interpreters with different PYTHONHASHSEED",
                            {"op": "hashseed", "PYTHONHASHSEED": hs})


def _zoo(W: World, small: bool = False):
    """one object of every dataset class, as (name, factory)"""
    import direct.config.defaults  # noqa: F401
    from direct.data.datasets import (CalgaryCampinasDataset, CMRxReconDataset, ConcatDataset, FakeMRIBlobsDataset,
                                      FastMRIDataset, SheppLoganDataset)
    from direct.data.h5_data import H5SliceData

    zoo = [
        ("H5SliceData", lambda: H5SliceData(root=W.subs[3], kspace_context=1, slice_data=slice(None, None, 2),
                                            pass_h5s={"x": ("recon", W.extra)})),
        ("FakeMRIBlobsDataset-3d", lambda: FakeMRIBlobsDataset(sample_size=2, num_coils=2, spatial_shape=(3, 6, 5), seed=10)),
        ("SheppLoganDataset-1coil", lambda: SheppLoganDataset(shape=(6, 6, 3), num_coils=1, intensity="PROTON", seed=0)),
    ]
    if not small:
        zoo += [
            ("FastMRIDataset", lambda: FastMRIDataset(data_root=W.subs[2])),
            ("CalgaryCampinasDataset", lambda: CalgaryCampinasDataset(data_root=W.cc, crop_outer_slices=True)),
            ("CMRxReconDataset-time", lambda: CMRxReconDataset(data_root=W.cmr, kspace_context="time")),
            ("FakeMRIBlobsDataset-2d", lambda: FakeMRIBlobsDataset(sample_size=3, num_coils=1, spatial_shape=(6, 5), seed=0)),
            ("SheppLoganDataset-3coils", lambda: SheppLoganDataset(shape=(6, 7, 4), num_coils=3, intensity="T2", seed=5)),
            ("ConcatDataset", lambda: ConcatDataset([H5SliceData(root=W.subs[2]),
                                                     FakeMRIBlobsDataset(sample_size=1, num_coils=2, spatial_shape=(2, 4, 4), seed=4),
                                                     CMRxReconDataset(data_root=W.cmr)])),
        ]
    return zoo


def _ident(it: dict):
    return (pathlib.Path(str(it["filename"])).name, int(it["slice_no"]))


def _items(ds, idxs=None):
    out = []
    for i in (range(len(ds)) if idxs is None else idxs):
        it = ds[i]
        out.append((_ident(it), np.array(it["kspace"], copy=True)))
    return out


def _first_diff(a, b):
    """index of the first position where two item lists differ (identity or bytes), or None"""
    if len(a) != len(b):
        return min(len(a), len(b))
    for n, ((ia, ka), (ib, kb)) in enumerate(zip(a, b)):
        if ia != ib or not _arr_same(ka, kb):
            return n
    return None


def _loader_items(ds, num_workers: int, batch_size: int, epochs: int):
    """items as a torch DataLoader delivers them (forked workers when num_workers > 0), one list per epoch"""
    from torch.utils.data import DataLoader

    def collate(batch):
        return batch

    dl = DataLoader(ds, batch_size=batch_size, shuffle=False, num_workers=num_workers, collate_fn=collate,
                    timeout=120 if num_workers else 0)
    out = []
    for _ in range(epochs):
        ep = []
        for batch in dl:
            for it in batch:
                ep.append((_ident(it), np.array(it["kspace"], copy=True)))
        out.append(ep)
    return out


def _oracle_phase3(ctx: Ctx, deep: bool):
    import copy
    import pickle

    import direct.config.defaults  # noqa: F401
    from direct.data.datasets import (CalgaryCampinasDataset, CMRxReconDataset, ConcatDataset, FakeMRIBlobsDataset,
                                      FastMRIDataset, SheppLoganDataset, build_dataset_from_input)
    from direct.data.h5_data import H5SliceData

    rng = ctx.rng
    W = world()
    big = deep or ctx.thorough
    zoo = _zoo(W)
    refs = {}
    for name, mk in zoo:
        _perturb(rng)
        refs[name] = _items(mk())
    # (a) copies of a dataset object: pickle round trip, deepcopy, a second identical construction
    for name, mk in zoo:
        ds = mk()
        for how, clone in (("pickle", lambda d: pickle.loads(pickle.dumps(d))), ("deepcopy", copy.deepcopy)):
            ctx.count(("copy", name, how), True, bucket=f"oracle/copies/{how}")
            try:
                c = clone(ds)
                _perturb(rng)
                half = _items(ds, range(0, len(ds), 2))        # the original keeps being used in between
                got = _items(c)
                bad = _first_diff(refs[name], got)
                if bad is None:
                    bad = _first_diff(refs[name][0::2], half)
            except Exception as e:  # noqa: BLE001
                yield Violation(f"copy-{how}-fails", f"{how} of a {name} fails with {err_name(e)}: {e}"[:300],
                                {"op": "copy", "dataset": name, "how": how})
                continue
            if bad is not None:
                yield Violation(f"copy-{how}-differs", f"a {how} copy of a {name} returns different items than the original "
                                                       f"(first difference at position {bad})",
                                {"op": "copy", "dataset": name, "how": how, "position": bad})
    # (b) the same object several times in one concatenation, nested concatenations
    for name, mk in zoo[:5]:
        ds = mk()
        ctx.count(("concat-twice", name), True, bucket="oracle/concat/same-object-twice")
        n = len(ds)
        cd = ConcatDataset([ds, ds, ConcatDataset([ds])])
        order = list(range(-3 * n, 3 * n))
        rng.shuffle(order)
        for i in order[: (None if big else 24)]:
            want = refs[name][i % n]
            try:
                it = cd[i]
                good = len(cd) == 3 * n and _ident(it) == want[0] and _arr_same(it["kspace"], want[1])
            except Exception:  # noqa: BLE001
                good = False
            if not good:
                yield Violation("concat-same-object-twice", f"ConcatDataset([ds, ds, ConcatDataset([ds])])[{i}] is not ds[{i % n}] "
                                                            f"for a {name}", {"op": "concat-twice", "dataset": name, "index": i})
                break
    # (c) numpy integers as indices
    for name, mk in zoo:
        ds = mk()
        n = len(ds)
        ctx.count(("np-index", name), True, bucket="oracle/index-types")
        for i in sorted({0, n - 1, n // 2}):
            for ix in (np.int64(i), np.int32(i - n), np.uint8(i) if i < 256 else np.int64(i)):
                try:
                    it = ds[ix]
                    good = _ident(it)[0] == refs[name][i][0][0] and _arr_same(it["kspace"], refs[name][i][1]) and \
                        int(it["slice_no"]) == refs[name][i][0][1]
                except Exception as e:  # noqa: BLE001
                    good = False
                if not good:
                    yield Violation("numpy-integer-index", f"{name}[{type(ix).__name__}({int(ix)})] is not item {i}",
                                    {"op": "np-index", "dataset": name, "index": int(ix), "type": type(ix).__name__})
    # (d) no seed given: the per-sample seeds are drawn once, at construction — the object is still reproducible
    for name, mk in (("FakeMRIBlobsDataset", lambda: FakeMRIBlobsDataset(sample_size=2, num_coils=2, spatial_shape=(2, 5, 4), seed=None)),
                     ("SheppLoganDataset", lambda: SheppLoganDataset(shape=(6, 6, 3), num_coils=1, intensity="T1", seed=None))):
        ds = mk()
        ctx.count(("seed-none", name), True, bucket="oracle/seed-none")
        a = _items(ds)
        _perturb(rng)
        b = _items(ds, reversed(range(len(ds))))[::-1]
        c = _items(pickle.loads(pickle.dumps(ds)))
        bad = _first_diff(a, b)
        bad = _first_diff(a, c) if bad is None else bad
        if bad is not None:
            yield Violation("seed-none-reload-differs", f"{name}(seed=None): the same object (or its pickle copy) returns a "
                                                        f"different item {bad} on a second load", {"op": "seed-none", "dataset": name})
    # (e) DataLoader: forked workers, several epochs, different batch sizes — same items, same order
    small = _zoo(W, small=not big)
    for name, mk in small:
        ds = mk()
        for nw, bs in ([(2, 2)] if not big else [(1, 1), (2, 3), (3, 2)]):
            ctx.count(("loader", name, nw, bs), True, bucket=f"oracle/dataloader/workers{nw}")
            _perturb(rng)
            try:
                eps = _loader_items(ds, nw, bs, 2)
            except Exception as e:  # noqa: BLE001
                yield Violation("dataloader-fails", f"DataLoader(num_workers={nw}) over a {name} fails: {err_name(e)}: {e}"[:300],
                                {"op": "loader", "dataset": name, "workers": nw, "batch_size": bs})
                continue
            for e_no, ep in enumerate(eps):
                bad = _first_diff(refs[name], ep)
                if bad is not None:
                    yield Violation("dataloader-items-differ",
                                    f"epoch {e_no} of DataLoader(num_workers={nw}, batch_size={bs}) over a {name}: item {bad} differs "
                                    f"from the item loaded in the main process", {"op": "loader", "dataset": name, "workers": nw,
                                                                                 "batch_size": bs, "epoch": e_no, "position": bad})
                    break
    # (f) pass_dictionaries: the entry of the item's own file
    tags = {f"vol{f:03d}.h5": f for f in list(range(1, 14)) + sorted(W.cc_n)}
    for cname, mk in (("H5SliceData", lambda: H5SliceData(root=W.subs[4], pass_dictionaries={"tag": tags}, kspace_context=1)),
                      ("FastMRIDataset", lambda: FastMRIDataset(data_root=W.subs[3], pass_dictionaries={"tag": tags})),
                      ("CalgaryCampinasDataset", lambda: CalgaryCampinasDataset(data_root=W.cc, pass_dictionaries={"tag": tags}))):
        ds = mk()
        ctx.count(("pass-dict", cname), True, bucket="oracle/pass_dictionaries")
        for i in range(0, len(ds), max(1, len(ds) // 9)):
            it = ds[i]
            if it.get("tag") != _name_id(it["filename"]) or pathlib.Path(ds.data[i][0]).name != pathlib.Path(it["filename"]).name:
                yield Violation("pass-dictionaries-wrong-file", f"{cname}: item {i} carries the pass_dictionaries entry of another file",
                                {"op": "pass-dict", "class": cname, "index": i})
                break
    # (g) build_dataset_from_input: configuration + keyword arguments give the dataset the constructor gives
    from omegaconf import OmegaConf

    from direct.data.datasets_config import CMRxReconConfig, FastMRIConfig
    from direct.utils.dataset import get_filenames_for_datasets_from_config

    lst = [nm for nm, _ in W.list_files[:2]]
    pat = r".*vol0(0[1-9]|1[0-2])\.h5"
    variants = [
        ("lists-in-config", lambda: build_dataset_from_input(None, OmegaConf.structured(FastMRIConfig(
            name="FastMRI", filenames_lists=lst, filenames_lists_root=str(W.lists), regex_filter=pat)), data_root=W.main),
         lambda: FastMRIDataset(data_root=W.main, filenames_lists=lst, filenames_lists_root=W.lists, regex_filter=pat)),
        ("filter-kwarg-wins-over-config-lists", lambda: build_dataset_from_input(None, OmegaConf.structured(FastMRIConfig(
            name="FastMRI", filenames_lists=lst, filenames_lists_root=str(W.lists))), data_root=W.main,
            filenames_filter=[W.main / "vol004.h5", W.main / "vol002.h5"]),
         lambda: FastMRIDataset(data_root=W.main, filenames_filter=[W.main / "vol004.h5", W.main / "vol002.h5"])),
        ("train-flow-lists-to-filter", lambda: build_dataset_from_input(
            transforms=None, dataset_config=OmegaConf.structured(FastMRIConfig(name="FastMRI", filenames_lists=lst)), data_root=W.main,
            filenames_filter=get_filenames_for_datasets_from_config(
                OmegaConf.structured(FastMRIConfig(name="FastMRI", filenames_lists=lst)), W.lists, W.main)),
         lambda: FastMRIDataset(data_root=W.main, filenames_lists=lst, filenames_lists_root=W.lists)),
        ("initial-images", lambda: build_dataset_from_input(None, OmegaConf.structured(FastMRIConfig(
            name="FastMRI", input_image_key="recon")), data_root=W.subs[3], initial_images=W.extra),
         lambda: FastMRIDataset(data_root=W.subs[3], pass_h5s={"initial_image": ("recon", W.extra)})),
        ("cmr-lists-in-config", lambda: build_dataset_from_input(None, OmegaConf.structured(CMRxReconConfig(
            name="CMRxRecon", filenames_lists=[W.cmr_list_files[0][0], W.cmr_list_files[1][0]], filenames_lists_root=str(W.lists),
            kspace_context="slice")), data_root=W.cmr),
         lambda: CMRxReconDataset(data_root=W.cmr, filenames_lists=[W.cmr_list_files[0][0], W.cmr_list_files[1][0]],
                                  filenames_lists_root=W.lists, kspace_context="slice")),
    ]
    for vname, via_cfg, direct_ds in variants:
        ctx.count(("build-variant", vname), True, bucket="oracle/build_dataset_from_input")
        try:
            a, b = via_cfg(), direct_ds()
            same = _mapping(a) == _mapping(b)
            if same and len(a):
                ia, ib = a[len(a) // 2], b[len(b) // 2]
                same = _ident(ia) == _ident(ib) and _arr_same(ia["kspace"], ib["kspace"]) and \
                    ("initial_image" not in ib or _arr_same(ia.get("initial_image"), ib["initial_image"]))
            err = None
        except Exception as e:  # noqa: BLE001
            same, err = False, f"{err_name(e)}: {e}"
        if not same:
            yield Violation(f"build-from-input-{vname}", f"build_dataset_from_input ({vname}) does not give the dataset the class "
                                                         f"constructor gives ({err or 'different index mapping / item'})",
                            {"op": "build-variant", "variant": vname, "error": err})
    # (h) negative indices on the synthetic datasets: the item reports the slice it is
    for coils, nz, inten, sd in ((2, 4, "T1", 3), (1, 3, "PROTON", 0), (3, 5, "T2", 7)):
        ds = SheppLoganDataset(shape=(6, 6, nz), num_coils=coils, intensity=inten, seed=sd)
        ctx.count(("shepp-negative", coils, nz), True, bucket="oracle/negative-index/shepp")
        for k in range(1, nz + 1):
            neg, pos = ds[-k], ds[nz - k]
            if not _arr_same(neg["kspace"], pos["kspace"]):
                yield Violation("shepp-negative-index-data", f"SheppLoganDataset[{-k}] is not the data of slice {nz - k}",
                                {"op": "shepp-negative", "num_coils": coils, "nz": nz, "intensity": inten, "seed": sd, "index": -k})
            elif neg["slice_no"] != pos["slice_no"]:
                yield Violation("shepp-negative-index-slice-no",
                                f"SheppLoganDataset[{-k}] (shape (6, 6, {nz})) returns the k-space of slice {nz - k} but reports "
                                f"slice_no = {neg['slice_no']} (every other dataset class reports the slice the item is)",
                                {"op": "shepp-negative", "num_coils": coils, "nz": nz, "intensity": inten, "seed": sd, "index": -k,
                                 "observed_slice_no": int(neg["slice_no"]), "expected_slice_no": nz - k})
                break
    f = FakeMRIBlobsDataset(sample_size=2, num_coils=1, spatial_shape=(3, 4, 4), seed=1)
    ctx.count(("fake-negative",), True, bucket="oracle/negative-index/fake")
    for k in range(1, len(f) + 1):
        neg, pos = f[-k], f[len(f) - k]
        if _ident(neg) != _ident(pos) or not _arr_same(neg["kspace"], pos["kspace"]):
            yield Violation("fake-negative-index", f"FakeMRIBlobsDataset[{-k}] is not item {len(f) - k}", {"op": "fake-negative", "index": -k})
    # observations outside the quantifier (evidence notes, never a violation)
    dup = FakeMRIBlobsDataset(sample_size=2, num_coils=1, spatial_shape=(3, 4, 4), seed=1, filenames=["a", "a"])
    if len(dup.volume_indices) != 2:
        ctx.notes.append("observation: FakeMRIBlobsDataset(filenames=['a', 'a'], sample_size=2) keeps one volume range "
                         f"({list(dup.volume_indices.values())}) for {len(dup)} items — names given explicitly are used verbatim")


_INTERLEAVE_FIXED = [
    # (sample_size, num_coils, spatial_shape, seed): objects share the default file names sample00001, …
    [(2, 2, (3, 6, 5), 10), (2, 2, (3, 6, 5), 11)],                       # training / validation sets of a toy config
    [(2, 2, (3, 6, 5), 10), (2, 1, (3, 6, 5), 10), (1, 2, (2, 4, 5), 10)],  # other coil count / other shape
    [(2, 2, (6, 5), 10), (2, 2, (6, 5), 11), (2, 3, (4, 4), 10)],           # 2-D
    [(1, 2, (2, 4, 4), 3), (2, 2, (4, 4), 3)],                              # 2-D and 3-D together
]


def _fake_reference(cfg, ds, i):
    """what item i designates: slice `slice_no` of the volume generated from that sample's own seed (generator called
    directly, independent of the dataset class)"""
    from direct.data.fake import FakeMRIData

    filename, slice_no, sample_seed = ds.data[i]
    vol = FakeMRIData(ndim=len(cfg[2]))(sample_size=1, num_coils=cfg[1], spatial_shape=cfg[2], name=[filename], seed=sample_seed)[0]
    return vol["kspace"][slice_no]


def _interleave_case(cfgs, order_seed: int):
    """several FakeMRIBlobsDataset objects accessed alternately; -> description of the first wrong item or None"""
    from direct.data.datasets import FakeMRIBlobsDataset

    r = pyrandom.Random(order_seed)
    objs = [FakeMRIBlobsDataset(sample_size=c[0], num_coils=c[1], spatial_shape=c[2], seed=c[3]) for c in cfgs]
    order = []
    for i in range(max(len(o) for o in objs)):            # same index of every object in turn, then random alternation
        order += [(k, i) for k, o in enumerate(objs) if i < len(o)]
    order += [(k, r.randrange(len(objs[k]))) for k in (r.randrange(len(objs)) for _ in range(6 * len(objs)))]
    refs: dict = {}
    for step, (k, i) in enumerate(order):
        got = objs[k][i]["kspace"]
        if (k, i) not in refs:
            refs[(k, i)] = _fake_reference(cfgs[k], objs[k], i)
        if not _arr_same(got, refs[(k, i)]):
            return {"object": k, "config": list(cfgs[k][:2]) + [list(cfgs[k][2]), cfgs[k][3]], "index": i, "step": step,
                    "previous_access": list(order[step - 1]) if step else None, "difference": _arr_diff(got, refs[(k, i)])}
    return None


def _oracle_interleaved(ctx: Ctx, deep: bool):
    from direct.data.datasets import SheppLoganDataset
    from direct.data.h5_data import H5SliceData

    rng = ctx.rng
    groups = [list(g) for g in _INTERLEAVE_FIXED]
    for _ in range(ctx.budget(4, 40) * (2 if deep else 1)):
        three_d = rng.random() < 0.6
        shp = (rng.choice([2, 3]), rng.choice([4, 6]), rng.choice([4, 5])) if three_d else (rng.choice([4, 6]), rng.choice([4, 5]))
        g = [(rng.randint(1, 2), rng.choice([1, 2, 3]), shp, rng.randrange(100)) for _k in range(rng.randint(2, 3))]
        if rng.random() < 0.5:
            g.append((rng.randint(1, 2), rng.choice([1, 2]), (2, 4, 4) if not three_d else (4, 4), rng.randrange(100)))
        groups.append(g)
    for n, g in enumerate(groups):
        ctx.count(("interleave", tuple(g)), True, bucket=f"oracle/interleaved-objects/{'3d' if any(len(c[2]) == 3 for c in g) else '2d'}")
        bad = _interleave_case(g, n)
        if bad is not None:
            yield Violation("fake-item-depends-on-other-objects",
                            f"FakeMRIBlobsDataset objects accessed alternately: item {bad['index']} of object {bad['object']} is not the "
                            f"slice of the volume generated from its own per-sample seed ({bad['difference']}) — state shared "
                            f"between dataset objects",
                            {"op": "interleave", "configs": [[c[0], c[1], list(c[2]), c[3]] for c in g], "order_seed": n, "first_wrong": bad})
    # other classes: objects that share file names / slice indices, accessed alternately
    W = world()
    ctx.count(("interleave-h5",), True, bucket="oracle/interleaved-objects/h5")
    a, b = H5SliceData(root=W.main, kspace_context=1), H5SliceData(root=W.extra, kspace_context=1)
    for i in range(min(len(a), len(b), 12)):
        for ds, off in ((a, 0), (b, 500000), (a, 0)):
            it = ds[i]
            ids_ = [v for v in window_ids(it["kspace"], 1) if v]
            fid = _name_id(it["filename"])
            if any(v // 1000 * 1000 != off + 1000 * fid for v in ids_) or off + 1000 * fid + it["slice_no"] not in ids_:
                yield Violation("h5-item-depends-on-other-objects", "two H5SliceData objects over directories with the same file "
                                "names, accessed alternately, return each other's data", {"op": "interleave-h5", "index": i})
    ctx.count(("interleave-shepp",), True, bucket="oracle/interleaved-objects/shepp")
    sl = [SheppLoganDataset(shape=(6, 6, 3), num_coils=c, intensity=t, seed=sd) for c, t, sd in ((2, "T1", 1), (2, "T1", 2), (1, "T2", 1), (3, "PROTON", 1))]
    solo = [[SheppLoganDataset(shape=(6, 6, 3), num_coils=c, intensity=t, seed=sd)[i]["kspace"] for i in range(3)]
            for c, t, sd in ((2, "T1", 1), (2, "T1", 2), (1, "T2", 1), (3, "PROTON", 1))]
    for i in (0, 1, 2, 1, 0):
        for k, ds in enumerate(sl):
            if not _arr_same(ds[i]["kspace"], solo[k][i]):
                yield Violation("shepp-item-depends-on-other-objects", "SheppLoganDataset objects accessed alternately return "
                                "items that differ from the same object accessed alone", {"op": "interleave-shepp", "object": k, "index": i})


def _repro(ds, twin, rng, rep, name, zero_slice):
    n = len(ds)
    first = {}
    order = list(range(n)) + [rng.randrange(n) for _ in range(n)]
    rng.shuffle(order)
    for step, i in enumerate(order):
        if step % 2:
            _perturb(rng)
        it = ds[i]
        if it["slice_no"] != (ds.data[i][1] if name == "fake" else i):
            yield Violation(f"{name}-slice-no", "item reports a wrong slice_no", dict(rep, index=i))
        if i in first and not _same(first[i], it):
            key = f"{name}-zero-slice-reload-differs" if zero_slice(i) else f"{name}-reload-differs"
            yield Violation(key, f"{type(ds).__name__}[{i}] loaded twice returns different k-space "
                                 f"({_arr_diff(first[i]['kspace'], it['kspace'])}; the first copy was overwritten in place by "
                                 f"its consumer in between)",
                            dict(rep, mode="reload") if zero_slice(i) else dict(rep, index=i, mode="reload"))
        kept = _keep_and_clobber(it)
        first.setdefault(i, kept)
    for i in range(n):
        _perturb(rng)
        if not _same(first[i], twin[i]):
            key = f"{name}-zero-slice-twin-differs" if zero_slice(i) else f"{name}-twin-differs"
            yield Violation(key, f"two identically constructed {type(ds).__name__} objects (same seed) differ at index {i}",
                            dict(rep, index=i, mode="twin"))


# --------------------------------------------------------------------------------------------------
# failing-input search: a disagreement between the implementation and the (proved) model *is* a concrete failing input
_OP_WHAT = {
    "parse": "H5SliceData(filenames_filter=files, slice_data=F): data / volume_indices",
    "items": "H5SliceData(...)[idx] for the listed indices: (file, slice, context window)",
    "dataset": "dataset class built from constructor arguments: data / volume_indices / items",
    "cmr": "CMRxReconDataset built from constructor arguments: data / volume_indices / items",
    "locate": "ConcatDataset(members of the given sizes)[idx] -> (member, local index)",
    "locatex": "ConcatDataset([objs[p] for p in pattern])[idx as a Python / numpy integer] -> (position, object, local index)",
    "bisect": "bisect.bisect_right(xs, x)",
    "sliceidx": "slice.indices(n), len(range(...)), list(range(...))",
    "dedup": "list(dict.fromkeys(xs))",
    "fakeidx": "FakeMRIBlobsDataset: names / data / volume_indices / (file, slice, generating seed) of the listed indices",
    "sheppidx": "SheppLoganDataset[idx]: (rendered slice, seed position, reported slice_no)",
    "fake": "FakeMRIData()(…, seed): global stream afterwards | stream and requests of make_blobs | stream of the sensitivity offset",
    "shepp": "SheppLoganDataset[i]: global stream afterwards | stream of the sensitivity offset | stream of the zero-slice noise",
}


def _groups(line: str):
    body = line.split(" ", 1)[1] if " " in line else ""
    return [[int(v) for v in g.split()] for g in body.split("|")]


def _impl_from_line(line: str):
    """the implementation thunk for the protocol lines that carry their whole input"""
    op = line.split(" ", 1)[0]
    g = _groups(line)
    if op == "locate":
        return impl_locate(g[0], g[1][0])
    if op == "locatex":
        return impl_locatex(g[0], g[1], g[2][0], g[2][1])
    if op == "bisect":
        return impl_bisect(g[0], g[1][0])
    if op == "dedup":
        return impl_dedup(g[0])
    if op == "sliceidx":
        f = g[0]
        return impl_sliceidx(slice(f[2] if f[1] else None, f[4] if f[3] else None, f[6] if f[5] else None), g[1][0])
    if op == "fake":
        return impl_fake(g[0][0], g[0][1], tuple(g[1]), g[0][2])
    return None


def _impl_answer(line: str, seed: int, tier: str):
    thunk = _impl_from_line(line)
    if thunk is None:       # regenerate the stream of this seed and pick the case with this line
        for c in correspondence(Ctx(PROP, tier, seed)):
            if c["line"] == line:
                thunk = c["impl"]
                break
    if thunk is None:
        return None
    try:
        return thunk()
    except Exception as e:  # noqa: BLE001
        return "err " + err_name(e)


def search(ctx: Ctx, dis: list, lean) -> list:
    out = []
    seen = set()
    for d in dis:
        op = d["line"].split(" ", 1)[0]
        if op in seen:
            continue
        seen.add(op)
        out.append(Violation(
            f"model-mismatch:{op}",
            f"{_OP_WHAT.get(op, op)} — the implementation answers differently from the model the C12 theorems are proved about: "
            f"input `{d['line'][:160]}` implementation `{d['impl'][:120]}` required `{d['model'][:120]}`",
            {"op": "corr", "line": d["line"], "observed": d["impl"], "expected": d["model"], "seed": ctx.seed, "tier": ctx.tier}))
    return out


def replay(rep: dict) -> bool:
    """Re-run a recorded failing case on the implementation; True when it still fails."""
    from direct.data.datasets import ConcatDataset, FakeMRIBlobsDataset, SheppLoganDataset

    rng = pyrandom.Random(0)
    op = rep.get("op")
    if op == "exception":
        sec = {"interleaved": _oracle_interleaved, "classes": _oracle_phase2, "histories": _oracle_phase3}.get(rep.get("section"))
        if sec is None:
            return True
        return any(v.replay.get("op") == "exception" for v in _guard(rep["section"], sec(Ctx(PROP, "quick", 0), False)))
    if op == "corr":
        got = _impl_answer(rep["line"], rep.get("seed", 0), rep.get("tier", "quick"))
        return got is None or got.strip() != rep["expected"].strip()
    if op in ("copy", "concat-twice", "np-index", "seed-none", "loader", "pass-dict", "build-variant", "shepp-negative",
              "fake-negative"):
        for v in _oracle_phase3(Ctx(PROP, "quick", 0), False):
            if v.replay.get("op") == op and all(v.replay.get(k) == rep.get(k) for k in ("dataset", "how", "variant", "class")
                                                if k in rep):
                return True
        return False
    if op == "h5":
        P = pool()
        by_n: dict[int, list[int]] = {}
        for f in P.ids:
            by_n.setdefault(P.n[f], []).append(f)
        fids = []
        for f, n in rep["files"]:           # same slice counts (file ids are re-drawn from the pool)
            fids.append(f if P.n.get(f) == n else by_n[n].pop())
        sl = None if rep["slice"] is None else slice(*rep["slice"])
        return any(True for _ in _h5_case(P, fids, sl, rep["context"], rng, ""))
    if op == "concat":
        cd = ConcatDataset([_Probe(t, n) for t, n in enumerate(rep["sizes"])])
        flat = [(d, j) for d, n in enumerate(rep["sizes"]) for j in range(n)]
        try:
            if any(cd[i] != flat[i] for i in range(-len(flat), len(flat))):
                return True
        except Exception:  # noqa: BLE001
            return True
        for i, exc in ((len(flat), IndexError), (-len(flat) - 1, ValueError)):
            try:
                cd[i]
                return True
            except exc:
                pass
        return False
    if op == "spellings":
        return any(v.replay.get("op") == "spellings" and v.replay.get("case") == rep.get("case")
                   for v in _oracle_phase2(Ctx(PROP, "quick", 0), False))
    if op in ("listing-order", "duplicate", "build", "class", "cmr", "concat-growing", "instances", "hashseed"):
        ctx = Ctx(PROP, "quick", 0)
        want = {"listing-order": "directory-listing-order-unsorted", "duplicate": "duplicate-filenames-ranges-not-partition"}.get(op)
        for v in _oracle_phase2(ctx, False):
            if v.replay.get("op") == op and (want is None or v.key == want) and \
                    (op != "build" or v.replay.get("name") == rep.get("name")):
                return True
        return False
    if op == "interleave":
        return _interleave_case([(c[0], c[1], tuple(c[2]), c[3]) for c in rep["configs"]], rep["order_seed"]) is not None
    if op in ("interleave-h5", "interleave-shepp"):
        return any(v.replay.get("op") == op for v in _oracle_interleaved(Ctx(PROP, "quick", 0), False))
    if op == "fake-call":
        from direct.data.fake import FakeMRIData

        outs = []
        for _rep in range(2):
            _perturb(rng)
            outs.append(FakeMRIData(ndim=len(rep["spatial_shape"]))(sample_size=1, num_coils=rep["num_coils"],
                                                                   spatial_shape=tuple(rep["spatial_shape"]), name=["x"],
                                                                   seed=rep["seed"])[0]["kspace"])
        return outs[0].tobytes() != outs[1].tobytes()
    if op == "sens":
        from direct.data.sens import simulate_sensitivity_maps

        maps = []
        for _rep in range(2):
            _perturb(rng)
            maps.append(simulate_sensitivity_maps(tuple(rep["shape"]), rep["num_coils"], seed=rep["seed"]))
        return maps[0].tobytes() != maps[1].tobytes()
    if op in ("fake", "shepp"):
        kw = dict(rep["kwargs"])
        if op == "fake":
            kw["spatial_shape"] = tuple(kw["spatial_shape"])
            ds, twin = FakeMRIBlobsDataset(**kw), FakeMRIBlobsDataset(**kw)
        else:
            kw["shape"] = tuple(kw["shape"])
            ds, twin = SheppLoganDataset(**kw), SheppLoganDataset(**kw)
        return any(True for _ in _repro(ds, twin, rng, rep, op, lambda i: False))
    return True
