"""C12 — datasets map every index to exactly one slice of one volume, reproducibly."""
from __future__ import annotations

import atexit
import logging
import math
import pathlib
import random as pyrandom
import shutil
import tempfile

import boot  # noqa: F401
import numpy as np
import torch

from core import Ctx, Violation, err_name, ints

PROP = "C12"
MANIFEST = {
    "text": "Lean 4 theorems for all file lists / slice counts / slice filters / contexts / member sizes: the volume ranges "
            "built by H5SliceData.parse_filenames_data are contiguous from 0, ordered, and cover 0..len-1 exactly once "
            "(empty-after-filter volumes get empty ranges, unreadable files none); data[start_k + r] is the r-th smallest "
            "admissible slice of the k-th readable file and len(range(*slice.indices(n))) equals the number of admitted "
            "slices; the context window has length 2c+1, centre = the slice, entry j = slice s-c+j or a zero block when "
            "outside the file; ConcatDataset maps idx to (member, local index) with idx = sum of earlier sizes + local, "
            "negative indices as len+idx, out-of-range rejected; synthetic items are functions of the per-sample seed only "
            "(independent of the global RNG state and of any access history) whenever the seed-plumbing table read off the "
            "source is all-true. Tied to the code by translated arithmetic + structural tables (bridge lemmas) and exact "
            "differential correspondence on labelled h5 files and recorded numpy RNG calls.",
    "note": "Trusted: Lean kernel (+propext, Classical.choice, Quot.sound), the AST translator, h5py slicing, Python "
            "slice.indices / range / bisect.bisect_right (hand-modelled from their documented behaviour, validated by "
            "correspondence), numpy RandomState and sklearn make_blobs as 'a stream seeded with s yields the same draws'. "
            "The numerics between draws and k-space (blobs, sensitivity maps, FFT) are a parameter `render` of the model; "
            "their bit-reproducibility is checked on the implementation only. File names are assumed distinct. "
            "Repaired finding (regression witnesses shepp_pinned_violates / shepp_pinned_partial): the pinned "
            "SheppLoganDataset drew the noise of all-zero outer slices from the unseeded global numpy stream (num_coils = 1: "
            "ds[i] twice differed).",
    "technique": "Lean 4 proof (list induction, omega, permutation counting) + AST translation bridge + differential "
                 "correspondence + property oracle on the real datasets",
}
TRUSTED = [
    "Lean 4.33 kernel; axioms ⊆ {propext, Classical.choice, Quot.sound}",
    "harness/translate recipes c12 (window bounds/guards/fill lengths, ConcatDataset arithmetic, volume range arithmetic, "
    "structural tables of parse_filenames_data / get_slice_data / ConcatDataset, seed-plumbing tables)",
    "Python slice.indices, range membership/len, list indexing, bisect.bisect_right: hand-modelled, validated by correspondence",
    "h5py: file[key][a:b] returns slices a..b-1; numpy concatenate/zeros/swapaxes index semantics",
    "numpy RandomState / sklearn make_blobs: a stream seeded with s produces the same draws; make_blobs(random_state=int) "
    "uses a private stream (checked on every run by replaying the recorded global-stream calls)",
]
ASSUMPTIONS = [
    "file names passed to a dataset are distinct (volume_indices is keyed by file name)",
    "h5 files are not modified between construction and access",
    "`render` (blob image, sensitivity maps, FFT) is a deterministic function of the drawn values — checked bit-for-bit on "
    "the implementation by the oracle, not proved",
]
RULE = ("h5 pool: files with 1..9 slices, content value = 1000*file + slice; datasets = ordered selections of 0..6 pool files "
        "(incl. unreadable ones), filters = None / slice objects with None/negative/out-of-range bounds and steps "
        "±1..±5 / malformed (step 0, non-slice), contexts 0..3; every index incl. negative and out-of-range is accessed. "
        "non-trivial = at least 2 readable files and (a filter or context >= 1) for h5 cases, >= 2 members for concat cases, "
        "a multi-coil or zero-slice access for RNG cases, any oracle case with >= 2 volumes or a perturbed global RNG; "
        "distinct = distinct protocol line / oracle case key")
PENDING_FINDINGS: list[str] = []

for _n in ("H5SliceData", "FakeMRIBlobsDataset", "SheppLoganDataset", "ConcatDataset", "FakeMRIData", "direct"):
    logging.getLogger(_n).setLevel(logging.ERROR)


def ok(*groups) -> str:
    return "ok " + " | ".join(ints(g) for g in groups)


def pline(op: str, *groups) -> str:
    return op + " " + " | ".join(ints(g) for g in groups)


# --------------------------------------------------------------------------------------------------
# pool of h5 files with slice-identifying content
class Pool:
    def __init__(self):
        import h5py

        self.dir = pathlib.Path(tempfile.mkdtemp(prefix="verif_c12_"))
        atexit.register(self.close)
        self.n: dict[int, int] = {}          # file id -> slices (-1 unreadable)
        self.coils: dict[int, int] = {}
        fid = 1
        for rep in range(3):
            for n in range(1, 10):
                coils = 1 if rep < 2 else 2
                v = (1000 * fid + np.arange(n)).astype(np.complex64)[:, None, None, None] * np.ones((n, coils, 2, 2), np.complex64)
                with h5py.File(self.path(fid), "w") as h:
                    h.create_dataset("kspace", data=v)
                self.n[fid] = n
                self.coils[fid] = coils
                fid += 1
        for _ in range(2):
            self.path(fid).write_bytes(b"this is not an hdf5 file")
            self.n[fid] = -1
            fid += 1
        self.ids = sorted(self.n)
        self.readable = [f for f in self.ids if self.n[f] > 0]
        self.by_path = {str(self.path(f)): f for f in self.ids}

    def path(self, fid: int) -> pathlib.Path:
        return self.dir / f"vol{fid:03d}.h5"

    def fid(self, p) -> int:
        return self.by_path[str(p)]

    def close(self):
        shutil.rmtree(self.dir, ignore_errors=True)


_POOL: Pool | None = None


def pool() -> Pool:
    global _POOL
    if _POOL is None or not _POOL.dir.exists():
        _POOL = Pool()
    return _POOL


# --------------------------------------------------------------------------------------------------
# generators
def gen_filter(rng: pyrandom.Random, malformed: bool = False):
    """-> (python object for slice_data, protocol group, tag)"""
    if malformed:
        if rng.random() < 0.5:
            sl = slice(rng.choice([None, 0, 1]), rng.choice([None, 5]), 0)
            return sl, [1, int(sl.start is not None), sl.start or 0, int(sl.stop is not None), sl.stop or 0, 1, 0], "step0"
        return (1, 2), [2], "nonslice"
    r = rng.random()
    if r < 0.25:
        return None, [0], "nofilter"
    named = [slice(1, -1), slice(50, -50), slice(None, None, -1), slice(0, 0), slice(None, None, 2), slice(2, None),
             slice(None, -2), slice(-3, None), slice(-1, None, -2), slice(1, None, 3), slice(None, 100), slice(-100, 3)]
    if r < 0.5:
        sl = rng.choice(named)
    else:
        def bound():
            return None if rng.random() < 0.3 else rng.randint(-12, 12)
        step = rng.choice([None, 1, 1, 2, 2, 3, 5, -1, -1, -2, -3])
        sl = slice(bound(), bound(), step)
    grp = [1, int(sl.start is not None), sl.start or 0, int(sl.stop is not None), sl.stop or 0,
           int(sl.step is not None), sl.step or 0]
    st = sl.step if sl.step is not None else 1
    return sl, grp, ("filter-neg-step" if st < 0 else "filter-step>1" if st > 1 else "filter-step1")


def gen_files(rng: pyrandom.Random, P: Pool, k: int | None = None):
    if k is None:
        k = rng.choice([0, 1, 2, 2, 3, 3, 4, 5, 6])
    src = P.ids if rng.random() < 0.35 else P.readable
    if rng.random() < 0.3:  # favour short volumes (ends of the window meet)
        src = [f for f in src if P.n[f] <= 3]
    return rng.sample(src, min(k, len(src)))


def build_h5(P: Pool, fids, sl, ctx):
    from direct.data.h5_data import H5SliceData

    return H5SliceData(root=P.dir, filenames_filter=[P.path(f) for f in fids], kspace_context=ctx, slice_data=sl)


def window_ids(ks: np.ndarray, ctx: int) -> list[int]:
    """per window position the value the block is filled with (-999 when not constant)"""
    blocks = [ks] if ctx == 0 else [ks[:, j] for j in range(ks.shape[1])]
    out = []
    for b in blocks:
        vals = np.unique(b)
        out.append(int(round(float(vals[0].real))) if len(vals) == 1 and vals[0].imag == 0 else -999)
    return out


def impl_parse(P: Pool, fids, sl):
    def run():
        try:
            ds = build_h5(P, fids, sl, 0)
        except (ValueError, NotImplementedError, TypeError) as e:
            return "err " + err_name(e)
        vi = list(ds.volume_indices.items())
        return ok([P.fid(f) for f, _ in ds.data], [s for _, s in ds.data], [P.fid(f) for f, _ in vi],
                  [r.start for _, r in vi], [r.stop for _, r in vi], [len(ds)])
    return run


_ERRCODE = {"ValueError": 1, "IndexError": 2, "NotImplementedError": 3, "AssertionError": 4}


def impl_items(P: Pool, fids, sl, ctx, idxs):
    def run():
        try:
            ds = build_h5(P, fids, sl, ctx)
        except (ValueError, NotImplementedError, TypeError) as e:
            return "err " + err_name(e)
        groups = []
        for i in idxs:
            try:
                it = ds[i]
            except (IndexError, ValueError) as e:
                groups.append([-1, _ERRCODE[err_name(e)]])
                continue
            ks = it["kspace"]
            want_shape = (P.coils[P.fid(it["filename"])],) + ((2 * ctx + 1,) if ctx else ()) + (2, 2)
            ids_ = window_ids(ks, ctx) if tuple(ks.shape) == want_shape or ctx else [-998]
            groups.append([P.fid(it["filename"]), it["slice_no"]] + ids_)
        return ok(*groups)
    return run


class _Probe(torch.utils.data.Dataset):
    def __init__(self, tag, n):
        self.tag, self.n = tag, n

    def __len__(self):
        return self.n

    def __getitem__(self, i):
        if not 0 <= i < self.n:
            raise IndexError("probe index out of range")  # a member is never asked for a foreign index
        return (self.tag, i)


def impl_locate(sizes, idx):
    from direct.data.datasets import ConcatDataset

    def run():
        try:
            cd = ConcatDataset([_Probe(t, n) for t, n in enumerate(sizes)])
            d, j = cd[idx]
        except (ValueError, IndexError, AssertionError) as e:
            return "err " + err_name(e)
        return ok([d, j])
    return run


# ---- recording of numpy's global stream --------------------------------------------------------
class RngRecorder:
    """Records calls to np.random.seed/uniform/randn (module functions = the global stream) and constructions of
    np.random.RandomState; afterwards checks that the global state equals the replay of the recorded calls."""

    def __enter__(self):
        self.log: list[tuple] = []
        self.private: list = []
        self.private_randn: list = []
        self._orig = {k: getattr(np.random, k) for k in ("seed", "uniform", "randn", "RandomState")}
        rec = self

        def seed(s=None):
            rec.log.append(("seed", int(s)))
            return rec._orig["seed"](s)

        def uniform(*a, **k):
            rec.log.append(("uniform", a, k))
            return rec._orig["uniform"](*a, **k)

        def randn(*shape):
            rec.log.append(("randn", shape))
            return rec._orig["randn"](*shape)

        class RS(self._orig["RandomState"]):
            def __init__(self_, seed=None):  # noqa: N805
                self_._verif_seed = None if seed is None else int(seed)
                rec.private.append(self_._verif_seed)
                super().__init__(seed)

            def randn(self_, *shape):  # noqa: N805
                rec.private_randn.append((self_._verif_seed, int(np.prod(shape))))
                return super().randn(*shape)

        np.random.seed, np.random.uniform, np.random.randn, np.random.RandomState = seed, uniform, randn, RS
        self.s0 = np.random.get_state()
        return self

    def __exit__(self, *exc):
        for k, v in self._orig.items():
            setattr(np.random, k, v)
        self.s1 = np.random.get_state()
        return False

    def consistent(self) -> bool:
        rs = self._orig["RandomState"]()
        rs.set_state(self.s0)
        for op in self.log:
            if op[0] == "seed":
                rs.seed(op[1])
            elif op[0] == "uniform":
                rs.uniform(*op[1], **op[2])
            else:
                rs.randn(*op[1])
        a, b = rs.get_state(), self.s1
        return a[0] == b[0] and np.array_equal(a[1], b[1]) and a[2:] == b[2:]

    def encode(self, upto: int | None = None) -> list[int]:
        """ops on the global stream since its last seeding (0 = unknown initial state)"""
        out = [0]
        for op in self.log[:upto]:
            if op[0] == "seed":
                out = [1, op[1]]
            elif op[0] == "uniform":
                out += [2]
            else:
                out += [3, int(np.prod(op[1]))]
        return out

    def source_of(self, kind: str) -> list[int]:
        for i, op in enumerate(self.log):
            if op[0] == kind:
                return self.encode(i + 1)
        return []


def impl_fake(coils, seed, shape):
    from direct.data.fake import FakeMRIData

    def run():
        fd = FakeMRIData(ndim=len(shape))
        np.random.seed(pyrandom.Random(seed * 7 + coils).randrange(2 ** 31))
        with RngRecorder() as r:
            fd(sample_size=1, num_coils=coils, spatial_shape=shape, name=["x"], seed=seed)
        final = r.encode() if r.consistent() else [9]
        blobs = [1, r.private[0], 4] if len(r.private) == 1 and r.private[0] is not None else [0, 4]
        return ok(final, blobs, r.source_of("uniform"))
    return run


def impl_fake_ds(ds, i):
    def run():
        np.random.seed(12345 + i)
        with RngRecorder() as r:
            ds[i]
        final = r.encode() if r.consistent() else [9]
        blobs = [1, r.private[0], 4] if len(r.private) == 1 and r.private[0] is not None else [0, 4]
        return ok(final, blobs, r.source_of("uniform"))
    return run


def impl_shepp(ds, i):
    def run():
        np.random.seed(777 + i)
        with RngRecorder() as r:
            ds[i]
        final = r.encode() if r.consistent() else [9]
        if r.private_randn:      # noise from a private stream: (its seed, number of samples)
            sd, k = r.private_randn[0]
            noise = [9] if len(r.private_randn) > 1 or r.private != [sd] else ([0, 3, k] if sd is None else [1, sd, 3, k])
        else:
            noise = r.source_of("randn") if not r.private else [9]
        return ok(final, r.source_of("uniform"), noise)
    return run


# --------------------------------------------------------------------------------------------------
def correspondence(ctx: Ctx):
    from direct.data.datasets import FakeMRIBlobsDataset, SheppLoganDataset

    rng = ctx.rng
    P = pool()
    # ---- H5SliceData: parse + items
    for t in range(ctx.budget(220, 3000)):
        malformed = rng.random() < 0.06
        sl, fgrp, tag = gen_filter(rng, malformed)
        fids = gen_files(rng, P)
        ns = [P.n[f] for f in fids]
        c = rng.choice([0, 0, 1, 1, 2, 3])
        nread = sum(1 for n in ns if n > 0)
        nontriv = nread >= 2 and (fgrp != [0] or c > 0)
        bucket = f"h5/{tag}/ctx{c}/files{'0' if not fids else '1' if len(fids) == 1 else '2+'}" + ("/unreadable" if -1 in ns else "")
        yield {"line": pline("parse", fgrp, fids, ns), "impl": impl_parse(P, fids, sl), "nontrivial": nontriv,
               "bucket": "parse:" + bucket}
        # every index, every negative index, and the first out-of-range ones on both sides
        try:
            total = sum(len(range(*sl.indices(n))) if isinstance(sl, slice) else n for n in ns if n > 0)
        except ValueError:
            total = 0
        idxs = list(range(-total - 1, total + 1))
        rng.shuffle(idxs)
        idxs += [rng.choice(idxs) for _ in range(3)]       # repeated accesses
        yield {"line": pline("items", fgrp, fids, ns, [c], idxs), "impl": impl_items(P, fids, sl, c, idxs),
               "nontrivial": nontriv and total > 0, "bucket": "items:" + bucket}
    # ---- ConcatDataset.locate
    for t in range(ctx.budget(400, 6000)):
        k = rng.choice([0, 1, 1, 2, 2, 3, 4, 5]) if rng.random() < 0.1 else rng.randint(1, 5)
        sizes = [rng.choice([0, 0, 1, 1, 2, 3, 5, 9]) if rng.random() < 0.5 else rng.randint(0, 12) for _ in range(k)]
        tot = sum(sizes)
        r = rng.random()
        idx = rng.randint(-tot - 3, tot + 2) if r < 0.8 else rng.choice([-tot - 1, -tot, -1, 0, tot - 1, tot])
        kind = "neg" if -tot <= idx < 0 else "pos" if 0 <= idx < tot else "out"
        yield {"line": pline("locate", sizes, [idx]), "impl": impl_locate(sizes, idx), "nontrivial": k >= 2,
               "bucket": f"concat/members{k}/{kind}" + ("/empty-member" if 0 in sizes else "")}
    # ---- RNG streams of the synthetic datasets
    for t in range(ctx.budget(24, 200)):
        coils = rng.choice([1, 1, 2, 3, 4, 8])
        seed = rng.choice([0, 0, 1, rng.randrange(10 ** 5)])
        shape = rng.choice([(6, 6), (8, 5), (3, 6, 6), (2, 5, 4)])
        yield {"line": pline("fake", [coils, seed]), "impl": impl_fake(coils, seed, shape), "nontrivial": coils > 1,
               "bucket": f"rng/fake-call/coils{'1' if coils == 1 else '>1'}/seed{'0' if seed == 0 else '+'}/{len(shape)}d"}
    for t in range(ctx.budget(6, 40)):
        coils = rng.choice([1, 2, 4])
        shape = rng.choice([(6, 6), (3, 6, 6)])
        ds = FakeMRIBlobsDataset(sample_size=rng.randint(1, 3), num_coils=coils, spatial_shape=shape, seed=rng.randrange(1000))
        for i in rng.sample(range(len(ds)), min(3, len(ds))):
            yield {"line": pline("fake", [coils, int(ds.data[i][2])]), "impl": impl_fake_ds(ds, i), "nontrivial": coils > 1,
                   "bucket": f"rng/fake-dataset/coils{'1' if coils == 1 else '>1'}/{len(shape)}d"}
    for t in range(ctx.budget(8, 60)):
        coils = rng.choice([1, 1, 2, 3])
        shp = (rng.choice([6, 8]), rng.choice([6, 7]), rng.choice([3, 4, 5]))
        ds = SheppLoganDataset(shape=shp, num_coils=coils, intensity=rng.choice(["PROTON", "T1", "T2"]), seed=rng.randrange(1000))
        for i in range(len(ds)):
            zero = bool(np.allclose(ds.sample_image(i), 0))
            k = coils * shp[0] * shp[1]
            yield {"line": pline("shepp", [coils, int(ds.seed[i]), int(zero), k]), "impl": impl_shepp(ds, i),
                   "nontrivial": coils > 1 or zero,
                   "bucket": f"rng/shepp/coils{'1' if coils == 1 else '>1'}/{'zero-slice' if zero else 'nonzero-slice'}"}


# --------------------------------------------------------------------------------------------------
# oracle: the property stated directly on the real code
def _perturb(rng: pyrandom.Random):
    np.random.seed(rng.randrange(2 ** 31))
    np.random.rand(rng.randint(0, 5))
    torch.manual_seed(rng.randrange(2 ** 31))
    pyrandom.seed(rng.randrange(2 ** 31))


def _same(a: dict, b: dict) -> bool:
    ka, kb = a["kspace"], b["kspace"]
    return (str(a["filename"]) == str(b["filename"]) and a["slice_no"] == b["slice_no"] and ka.shape == kb.shape
            and ka.dtype == kb.dtype and ka.tobytes() == kb.tobytes())


def _ref_window(P: Pool, fid: int, s: int, c: int) -> list[int]:
    n = P.n[fid]
    if c == 0:
        return [1000 * fid + s]
    return [1000 * fid + s + j if 0 <= s + j < n else 0 for j in range(-c, c + 1)]


def _h5_case(P: Pool, fids, sl, c, rng, tag):
    """yield Violations for one H5SliceData configuration"""
    rep = {"op": "h5", "files": [[f, P.n[f]] for f in fids],
           "slice": None if sl is None else [sl.start, sl.stop, sl.step], "context": c}
    ds = build_h5(P, fids, sl, c)
    vi = list(ds.volume_indices.items())
    readable = [f for f in fids if P.n[f] > 0]
    # ranges: one per readable file, in order, contiguous from 0, covering 0..len-1
    cur = 0
    okr = [P.fid(f) for f, _ in vi] == readable
    for _, r in vi:
        okr = okr and r.start == cur and r.stop >= r.start and r.step == 1
        cur = r.stop
    okr = okr and cur == len(ds)
    if not okr:
        yield Violation("h5-ranges-not-a-partition" + tag, "volume_indices are not contiguous ordered ranges covering 0..len-1",
                        dict(rep, observed=[[P.fid(f), r.start, r.stop] for f, r in vi], len=len(ds)))
        return
    for f, r in vi:
        fid = P.fid(f)
        adm = sorted(list(range(P.n[fid]))[sl]) if sl is not None else list(range(P.n[fid]))
        if len(adm) != len(r):
            yield Violation("h5-range-length" + tag, "a volume's range length differs from its number of admissible slices",
                            dict(rep, file=fid, expected=len(adm), observed=len(r)))
            continue
        for rank, i in enumerate(r):
            it = ds[i]
            got = (P.fid(it["filename"]), it["slice_no"])
            if got != (fid, adm[rank]):
                yield Violation("h5-item-not-designated" + tag, "item i is not the slice its volume range designates",
                                dict(rep, index=i, expected=[fid, adm[rank]], observed=list(got)))
                continue
            ks = it["kspace"]
            want_shape = (P.coils[fid],) + ((2 * c + 1,) if c else ()) + (2, 2)
            ids_ = window_ids(ks, c) if ks.ndim == len(want_shape) else None
            if tuple(ks.shape) != want_shape or ids_ != _ref_window(P, fid, adm[rank], c):
                yield Violation("h5-window-content" + tag,
                                "k-space of item i is not the context window (2c+1 slices centred on the slice, zeros outside "
                                "the file)", dict(rep, index=i, slice=adm[rank], expected=_ref_window(P, fid, adm[rank], c),
                                                  observed=ids_, observed_shape=list(ks.shape)))
    # reproducibility under repetition / permutation / perturbation of the global RNGs
    if len(ds):
        order = [rng.randrange(len(ds)) for _ in range(min(6, 2 * len(ds)))]
        first = {}
        for i in order + order[::-1]:
            _perturb(rng)
            it = ds[i]
            if i in first and not _same(first[i], it):
                yield Violation("h5-reload-differs", "loading the same index twice returns different data", dict(rep, index=i))
            first.setdefault(i, it)


def _members_flat(members):
    return [(d, j) for d, m in enumerate(members) for j in range(len(m))]


def oracle(ctx: Ctx, deep: bool = False):
    from direct.data.datasets import ConcatDataset, FakeMRIBlobsDataset, SheppLoganDataset

    rng = ctx.rng
    P = pool()
    big = deep or ctx.thorough
    # (1) H5SliceData: exhaustive small scope over (n, context) for single files incl. n = 1..4, then random configurations
    for fid in [f for f in P.readable if P.coils[f] == 1][:9]:
        for c in range(0, 4):
            ctx.count(("h5-single", P.n[fid], c), c > 0, bucket="oracle/h5-single-file")
            yield from _h5_case(P, [fid], None, c, rng, "")
    for _ in range(ctx.budget(120, 2500) * (3 if deep else 1)):
        sl, fgrp, tag = gen_filter(rng)
        fids = gen_files(rng, P)
        c = rng.choice([0, 1, 1, 2, 3])
        nread = sum(1 for f in fids if P.n[f] > 0)
        ctx.count(("h5", tuple(fids), tuple(fgrp), c), nread >= 2, bucket=f"oracle/h5/{tag}/ctx{c}")
        yield from _h5_case(P, fids, sl, c, rng, "-filtered" if sl is not None and c > 0 else "")
    # (2) ConcatDataset over real members: every index (positive and negative) = the flat enumeration of the members
    for _ in range(ctx.budget(40, 600) * (3 if deep else 1)):
        k = rng.randint(1, 5)
        members = []
        for _m in range(k):
            r = rng.random()
            if r < 0.7:
                sl, _, _ = gen_filter(rng)
                members.append(build_h5(P, gen_files(rng, P, rng.choice([0, 1, 2, 3])), sl, rng.choice([0, 0, 1, 2])))
            elif r < 0.85:
                members.append(FakeMRIBlobsDataset(sample_size=rng.randint(1, 2), num_coils=rng.choice([1, 2]),
                                                   spatial_shape=rng.choice([(4, 4), (2, 4, 4)]), seed=rng.randrange(100)))
            else:
                members.append(_Probe(100 + _m, rng.choice([0, 1, 3])))
        cd = ConcatDataset(members)
        flat = _members_flat(members)
        sizes = [len(m) for m in members]
        ctx.count(("concat", tuple(sizes), tuple(type(m).__name__ for m in members)), k >= 2, bucket=f"oracle/concat/members{k}")
        rep = {"op": "concat", "sizes": sizes}
        if len(cd) != len(flat):
            yield Violation("concat-length", "len(ConcatDataset) != sum of member lengths", dict(rep, observed=len(cd)))
            continue
        for i in range(-len(flat), len(flat)):
            d, j = flat[i]
            try:
                got, exp = cd[i], members[d][j]
                same = got == exp if isinstance(exp, tuple) else _same(got, exp)
            except Exception as e:  # noqa: BLE001
                same, got = False, repr(e)
            if not same:
                yield Violation("concat-negative-index" if i < 0 else "concat-wrong-member",
                                "ConcatDataset[i] is not item (i - sum of earlier sizes) of the member that contains i",
                                dict(rep, index=i, expected_member=d, expected_local=j))
                break
        for i, exc in ((len(flat), IndexError), (-len(flat) - 1, ValueError)):
            try:
                cd[i]
                yield Violation("concat-out-of-range-accepted", "an index outside -len..len-1 is not rejected", dict(rep, index=i))
            except exc:
                pass
            except Exception as e:  # noqa: BLE001
                yield Violation("concat-out-of-range-error", f"unexpected {err_name(e)} for an out-of-range index", dict(rep, index=i))
    # (3) synthetic datasets: same index twice / permuted orders / perturbed global RNGs / identically constructed twin
    for _ in range(ctx.budget(14, 150) * (2 if deep else 1)):
        coils = rng.choice([1, 2, 3, 5])
        shape = rng.choice([(6, 6), (5, 8), (3, 6, 6), (2, 4, 5)])
        kw = dict(sample_size=rng.randint(1, 3), num_coils=coils, spatial_shape=shape, seed=rng.choice([0, 1, rng.randrange(10 ** 4)]))
        rep = {"op": "fake", "kwargs": {k: (list(v) if isinstance(v, tuple) else v) for k, v in kw.items()}}
        ds, twin = FakeMRIBlobsDataset(**kw), FakeMRIBlobsDataset(**kw)
        ctx.count(("fake", tuple(sorted(rep["kwargs"].items(), key=str))), True, bucket=f"oracle/fake/{len(shape)}d/coils{coils}")
        nz = 1 if len(shape) == 2 else shape[0]
        vi = list(ds.volume_indices.values())
        if [(r.start, r.stop) for r in vi] != [(k * nz, (k + 1) * nz) for k in range(kw["sample_size"])] or len(ds) != nz * kw["sample_size"]:
            yield Violation("fake-ranges-not-a-partition", "FakeMRIBlobsDataset.volume_indices do not partition 0..len-1", rep)
        yield from _repro(ds, twin, rng, rep, "fake", lambda i: False)
    # the generator behind the dataset, called directly with the seeds the dataset may draw (0 included: a seed, not "no seed")
    from direct.data.fake import FakeMRIData
    from direct.data.sens import simulate_sensitivity_maps

    for t in range(ctx.budget(18, 150)):
        coils = rng.choice([1, 2, 3, 6])
        shape = rng.choice([(6, 6), (5, 8), (3, 6, 6)])
        seed = 0 if t % 3 == 0 else rng.choice([1, rng.randrange(10 ** 5)])
        ctx.count(("fake-call", coils, shape, seed), True, bucket=f"oracle/fake-call/seed{'0' if seed == 0 else '+'}/coils{coils}")
        outs = []
        for _rep in range(2):
            _perturb(rng)
            outs.append(FakeMRIData(ndim=len(shape))(sample_size=1, num_coils=coils, spatial_shape=shape, name=["x"], seed=seed)[0]["kspace"])
        if outs[0].tobytes() != outs[1].tobytes():
            yield Violation("fake-call-seed0-differs" if seed == 0 else "fake-call-differs",
                            "FakeMRIData()(…, seed=s) called twice with the same seed returns different k-space",
                            {"op": "fake-call", "num_coils": coils, "spatial_shape": list(shape), "seed": seed})
        if coils > 1:
            maps = []
            for _rep in range(2):
                _perturb(rng)
                maps.append(simulate_sensitivity_maps(shape[-2:], coils, seed=seed))
            if maps[0].tobytes() != maps[1].tobytes():
                yield Violation("sens-seed0-differs" if seed == 0 else "sens-differs",
                                "simulate_sensitivity_maps(shape, coils, seed=s) called twice returns different maps",
                                {"op": "sens", "num_coils": coils, "shape": list(shape[-2:]), "seed": seed})
    for t in range(ctx.budget(10, 100) * (2 if deep else 1)):
        coils = 1 if t == 0 else rng.choice([1, 1, 2, 4])
        shp = (rng.choice([6, 8]), rng.choice([6, 9]), rng.choice([3, 4, 6]))
        kw = dict(shape=shp, num_coils=coils, intensity=rng.choice(["PROTON", "T1", "T2"]), seed=rng.choice([0, 3, rng.randrange(10 ** 4)]))
        if t == 0:      # fixed first configuration: single coil, all-zero outer slices
            kw = dict(shape=(6, 6, 3), num_coils=1, intensity="PROTON", seed=0)
            shp = kw["shape"]
        rep = {"op": "shepp", "kwargs": dict(kw, shape=list(shp))}
        ds, twin = SheppLoganDataset(**kw), SheppLoganDataset(**kw)
        ctx.count(("shepp", shp, coils, kw["intensity"], kw["seed"]), True, bucket=f"oracle/shepp/coils{coils}")
        vi = list(ds.volume_indices.values())
        if [(r.start, r.stop) for r in vi] != [(0, len(ds))] or len(ds) != shp[2]:
            yield Violation("shepp-ranges-not-a-partition", "SheppLoganDataset.volume_indices is not range(0, len)", rep)
        zero = [bool(np.allclose(ds.sample_image(i), 0)) for i in range(len(ds))]
        yield from _repro(ds, twin, rng, rep, "shepp", lambda i: zero[i])


def _repro(ds, twin, rng, rep, name, zero_slice):
    n = len(ds)
    first = {}
    order = list(range(n)) + [rng.randrange(n) for _ in range(n)]
    rng.shuffle(order)
    for step, i in enumerate(order):
        if step % 2:
            _perturb(rng)
        it = ds[i]
        if it["slice_no"] != (ds.data[i][1] if name == "fake" else i):
            yield Violation(f"{name}-slice-no", "item reports a wrong slice_no", dict(rep, index=i))
        if i in first and not _same(first[i], it):
            key = f"{name}-zero-slice-reload-differs" if zero_slice(i) else f"{name}-reload-differs"
            yield Violation(key, f"{type(ds).__name__}[{i}] loaded twice returns different k-space "
                                 f"(max abs diff {float(np.abs(first[i]['kspace'] - it['kspace']).max()):.3g})",
                            dict(rep, mode="reload") if zero_slice(i) else dict(rep, index=i, mode="reload"))
        first.setdefault(i, it)
    for i in range(n):
        _perturb(rng)
        if not _same(first[i], twin[i]):
            key = f"{name}-zero-slice-twin-differs" if zero_slice(i) else f"{name}-twin-differs"
            yield Violation(key, f"two identically constructed {type(ds).__name__} objects (same seed) differ at index {i}",
                            dict(rep, index=i, mode="twin"))


# --------------------------------------------------------------------------------------------------
def replay(rep: dict) -> bool:
    """Re-run a recorded failing case on the implementation; True when it still fails."""
    from direct.data.datasets import ConcatDataset, FakeMRIBlobsDataset, SheppLoganDataset

    rng = pyrandom.Random(0)
    op = rep.get("op")
    if op == "h5":
        P = pool()
        by_n: dict[int, list[int]] = {}
        for f in P.ids:
            by_n.setdefault(P.n[f], []).append(f)
        fids = []
        for f, n in rep["files"]:           # same slice counts (file ids are re-drawn from the pool)
            fids.append(f if P.n.get(f) == n else by_n[n].pop())
        sl = None if rep["slice"] is None else slice(*rep["slice"])
        return any(True for _ in _h5_case(P, fids, sl, rep["context"], rng, ""))
    if op == "concat":
        cd = ConcatDataset([_Probe(t, n) for t, n in enumerate(rep["sizes"])])
        flat = [(d, j) for d, n in enumerate(rep["sizes"]) for j in range(n)]
        try:
            if any(cd[i] != flat[i] for i in range(-len(flat), len(flat))):
                return True
        except Exception:  # noqa: BLE001
            return True
        for i, exc in ((len(flat), IndexError), (-len(flat) - 1, ValueError)):
            try:
                cd[i]
                return True
            except exc:
                pass
        return False
    if op == "fake-call":
        from direct.data.fake import FakeMRIData

        outs = []
        for _rep in range(2):
            _perturb(rng)
            outs.append(FakeMRIData(ndim=len(rep["spatial_shape"]))(sample_size=1, num_coils=rep["num_coils"],
                                                                   spatial_shape=tuple(rep["spatial_shape"]), name=["x"],
                                                                   seed=rep["seed"])[0]["kspace"])
        return outs[0].tobytes() != outs[1].tobytes()
    if op == "sens":
        from direct.data.sens import simulate_sensitivity_maps

        maps = []
        for _rep in range(2):
            _perturb(rng)
            maps.append(simulate_sensitivity_maps(tuple(rep["shape"]), rep["num_coils"], seed=rep["seed"]))
        return maps[0].tobytes() != maps[1].tobytes()
    if op in ("fake", "shepp"):
        kw = dict(rep["kwargs"])
        if op == "fake":
            kw["spatial_shape"] = tuple(kw["spatial_shape"])
            ds, twin = FakeMRIBlobsDataset(**kw), FakeMRIBlobsDataset(**kw)
        else:
            kw["shape"] = tuple(kw["shape"])
            ds, twin = SheppLoganDataset(**kw), SheppLoganDataset(**kw)
        return any(True for _ in _repro(ds, twin, rng, rep, op, lambda i: False))
    return True
